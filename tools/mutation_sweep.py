#!/usr/bin/env python3
"""Automatic single-site mutation sweep over the functions a property is anchored in.

  python3 tools/mutation_sweep.py C20 [C21 ...] [-j 16] [--max 400] [--out /tmp/sweep]

For every property the anchored functions are those of `anchors.files` whose (class or function) name occurs in
the `anchors.mechanism[].name` / `anchors.state[].where` texts of /verif/properties.jsonl.  One AST-level mutation is
applied at a time (operators below), the mutated module is written to a scratch copy of abtem/ under $TMPDIR and
the property's check is run on it in-process (same machinery as sa.selftest).  Each mutant is KILLED (a new violation
key), ERROR (the check ends in ANALYSIS-ERROR: the code moved out of the analyser's reach — fail-closed, not a
verdict) or SURVIVED.  Survivors are *candidates*: many are equivalent or irrelevant to the property (a mutation in
a branch the property does not talk about); they are triaged by reading, and the genuine gaps become rules plus
self-test variants.  Nothing here is part of the registered checks.

Operators
  IDX   constant subscript 0 <-> 1, -1 <-> -2
  ARITH + <-> -, * <-> /
  CMP   < <-> <=, > <-> >=, == <-> !=
  COPY  x.copy() -> x ; np.array(x) -> np.asarray(x)
  SWAP  two adjacent positional Name/Attribute arguments of a call swapped
  BOOL  True <-> False in keyword arguments
  DROP  an expression-statement call or an augmented assignment removed
  AXIS  axis=-1 <-> axis=-2, axes tuple reversed
  NEG   unary minus removed
"""
from __future__ import annotations

import argparse
import ast
import copy
import json
import os
import re
import shutil
import sys
import tempfile
from concurrent.futures import ProcessPoolExecutor
from pathlib import Path

VERIF = Path(__file__).resolve().parent.parent
sys.path.insert(0, str(VERIF))


def anchored_functions(prop: dict) -> dict[str, set[str]]:
    """relative file -> set of function/method names to mutate."""
    a = prop.get("anchors", {})
    words = set()
    for m in a.get("mechanism", []) + a.get("state", []):
        for k in ("name", "where"):
            words |= set(re.findall(r"[A-Za-z_][A-Za-z_0-9]*", m.get(k, "")))
    out: dict[str, set[str]] = {}
    for rel in a.get("files", []):
        p = Path("/repo") / rel
        if not p.exists():
            continue
        tree = ast.parse(p.read_text())
        names = set()
        for node in ast.walk(tree):
            if isinstance(node, ast.ClassDef) and node.name in words:
                for f in node.body:
                    if isinstance(f, ast.FunctionDef) and (f.name in words or not f.name.startswith("__")):
                        if f.name in words:
                            names.add(f"{node.name}.{f.name}")
            if isinstance(node, ast.FunctionDef) and node.name in words:
                names.add(node.name)
        if names:
            out[rel] = names
    return out


class Sites(ast.NodeVisitor):
    """Enumerate mutation sites inside the selected functions."""

    def __init__(self, wanted: set[str]):
        self.wanted = wanted
        self.stack: list[str] = []
        self.active = 0
        self.sites: list[tuple[str, ast.AST, str]] = []  # (operator, node, function)

    def visit_ClassDef(self, node):
        self.stack.append(node.name)
        self.generic_visit(node)
        self.stack.pop()

    def visit_FunctionDef(self, node):
        q = ".".join(self.stack + [node.name])
        on = node.name in self.wanted or q in self.wanted or any(q.endswith("." + w) for w in self.wanted)
        self.stack.append(node.name)
        if on:
            self.active += 1
        self.generic_visit(node)
        if on:
            self.active -= 1
        self.stack.pop()

    def generic_visit(self, node):
        if self.active:
            fn = ".".join(self.stack)
            if isinstance(node, ast.Subscript) and isinstance(node.slice, ast.Constant) and node.slice.value in (0, 1) \
                    and not isinstance(node.slice.value, bool):
                self.sites.append(("IDX", node, fn))
            if isinstance(node, ast.Subscript) and isinstance(node.slice, ast.UnaryOp) and isinstance(
                    node.slice.op, ast.USub) and isinstance(node.slice.operand, ast.Constant) and node.slice.operand.value in (1, 2):
                self.sites.append(("IDX", node, fn))
            if isinstance(node, ast.BinOp) and isinstance(node.op, (ast.Add, ast.Sub, ast.Mult, ast.Div)) and not (
                    isinstance(node.left, ast.Constant) and isinstance(node.left.value, str)):
                self.sites.append(("ARITH", node, fn))
            if isinstance(node, ast.Compare) and len(node.ops) == 1 and isinstance(
                    node.ops[0], (ast.Lt, ast.LtE, ast.Gt, ast.GtE, ast.Eq, ast.NotEq)):
                if not any(isinstance(c, ast.Constant) and c.value is None for c in [node.left] + node.comparators):
                    self.sites.append(("CMP", node, fn))
            if isinstance(node, ast.Call) and isinstance(node.func, ast.Attribute) and node.func.attr == "copy" \
                    and not node.args:
                self.sites.append(("COPY", node, fn))
            if isinstance(node, ast.Call) and isinstance(node.func, ast.Attribute) and node.func.attr == "array" \
                    and isinstance(node.func.value, ast.Name) and node.func.value.id in ("np", "xp") and node.args:
                self.sites.append(("COPY", node, fn))
            if isinstance(node, ast.Call) and len(node.args) >= 2:
                for i in range(len(node.args) - 1):
                    a, b = node.args[i], node.args[i + 1]
                    if isinstance(a, (ast.Name, ast.Attribute)) and isinstance(b, (ast.Name, ast.Attribute)) and \
                            ast.dump(a) != ast.dump(b):
                        self.sites.append((f"SWAP{i}", node, fn))
                        break
            if isinstance(node, ast.keyword) and isinstance(node.value, ast.Constant) and isinstance(node.value.value, bool):
                self.sites.append(("BOOL", node, fn))
            if isinstance(node, ast.keyword) and node.arg in ("axis", "axes"):
                v = node.value
                if (isinstance(v, ast.UnaryOp) and isinstance(v.operand, ast.Constant)) or (
                        isinstance(v, ast.Tuple) and len(v.elts) == 2):
                    self.sites.append(("AXIS", node, fn))
            if isinstance(node, ast.Expr) and isinstance(node.value, ast.Call) and not (
                    isinstance(node.value.func, ast.Attribute) and node.value.func.attr in ("warn", "update_if_exists",
                                                                                            "close_if_exists")):
                self.sites.append(("DROP", node, fn))
            if isinstance(node, ast.AugAssign):
                self.sites.append(("DROP", node, fn))
            if isinstance(node, ast.UnaryOp) and isinstance(node.op, ast.USub) and not isinstance(node.operand, ast.Constant):
                self.sites.append(("NEG", node, fn))
        super().generic_visit(node)


def mutate(tree: ast.Module, op: str, target_index: int, wanted: set[str]):
    """Return (new tree, description) with the target_index-th site mutated."""
    t = copy.deepcopy(tree)
    s = Sites(wanted)
    s.visit(t)
    op_, node, fn = s.sites[target_index]
    before = ast.unparse(node)[:90]
    if op_ == "IDX":
        sl = node.slice
        if isinstance(sl, ast.Constant):
            sl.value = 1 - sl.value
        else:
            sl.operand.value = 3 - sl.operand.value
    elif op_ == "ARITH":
        node.op = {ast.Add: ast.Sub, ast.Sub: ast.Add, ast.Mult: ast.Div, ast.Div: ast.Mult}[type(node.op)]()
    elif op_ == "CMP":
        node.ops = [{ast.Lt: ast.LtE, ast.LtE: ast.Lt, ast.Gt: ast.GtE, ast.GtE: ast.Gt, ast.Eq: ast.NotEq,
                     ast.NotEq: ast.Eq}[type(node.ops[0])]()]
    elif op_ == "COPY":
        if node.func.attr == "copy":
            new = node.func.value
            for parent in ast.walk(t):
                for field, val in ast.iter_fields(parent):
                    if val is node:
                        setattr(parent, field, new)
                    elif isinstance(val, list):
                        for i, x in enumerate(val):
                            if x is node:
                                val[i] = new
        else:
            node.func.attr = "asarray"
    elif op_.startswith("SWAP"):
        i = int(op_[4:])
        node.args[i], node.args[i + 1] = node.args[i + 1], node.args[i]
    elif op_ == "BOOL":
        node.value.value = not node.value.value
    elif op_ == "AXIS":
        v = node.value
        if isinstance(v, ast.Tuple):
            v.elts = v.elts[::-1]
        else:
            v.operand.value = 3 - v.operand.value if v.operand.value in (1, 2) else v.operand.value + 1
    elif op_ == "DROP":
        for parent in ast.walk(t):
            for field, val in ast.iter_fields(parent):
                if isinstance(val, list) and any(x is node for x in val):
                    idx = [k for k, x in enumerate(val) if x is node][0]
                    val[idx] = ast.copy_location(ast.Pass(), node)
    elif op_ == "NEG":
        new = node.operand
        for parent in ast.walk(t):
            for field, val in ast.iter_fields(parent):
                if val is node:
                    setattr(parent, field, new)
                elif isinstance(val, list):
                    for i, x in enumerate(val):
                        if x is node:
                            val[i] = new
    ast.fix_missing_locations(t)
    after = ast.unparse(node)[:90] if op_ not in ("COPY", "DROP", "NEG") else {"COPY": "(copy removed / asarray)",
                                                                              "DROP": "(statement dropped)",
                                                                              "NEG": "(minus removed)"}[op_]
    return t, {"op": op_, "function": fn, "line": getattr(node, "lineno", 0), "before": before, "after": after}


def _run(args):
    prop, rel, idx, wanted, src_root = args
    from sa import selftest

    src = (Path(src_root) / rel).read_text()
    tree = ast.parse(src)
    try:
        new_tree, desc = mutate(tree, "", idx, wanted)
        code = ast.unparse(new_tree)
        compile(code, rel, "exec")
    except Exception as e:  # noqa: BLE001
        return {"prop": prop, "file": rel, "idx": idx, "verdict": "BROKEN", "detail": str(e)[:100]}
    base_rc, base_keys, _ = selftest.baseline(prop, src_root)
    tmp = Path(tempfile.mkdtemp(prefix=f"ms-{prop}-"))
    try:
        shutil.copytree(Path(src_root) / "abtem", tmp / "abtem", ignore=shutil.ignore_patterns("__pycache__", "*.pyc"))
        (tmp / rel).write_text(code + "\n")
        rc, keys, out = selftest._analyse(prop, tmp, tmp / "evidence")
        new = sorted(keys - base_keys)
        if new:
            verdict = "KILLED"
            detail = new[0]
        elif rc == 2:
            verdict = "ERROR"
            detail = ([l for l in out.splitlines() if "ANALYSIS-ERROR" in l] or [""])[0][:160]
        else:
            verdict = "SURVIVED"
            detail = ""
        return dict(desc, prop=prop, file=rel, idx=idx, verdict=verdict, detail=detail)
    finally:
        shutil.rmtree(tmp, ignore_errors=True)


def main():
    ap = argparse.ArgumentParser()
    ap.add_argument("props", nargs="+")
    ap.add_argument("-j", type=int, default=16)
    ap.add_argument("--max", type=int, default=600, help="at most this many mutants per property (evenly sampled)")
    ap.add_argument("--out", default="/tmp/sweep")
    a = ap.parse_args()
    props = {json.loads(l)["id"]: json.loads(l) for l in (VERIF / "properties.jsonl").read_text().splitlines() if l.strip()}
    os.makedirs(a.out, exist_ok=True)
    for pid in a.props:
        targets = anchored_functions(props[pid])
        tasks = []
        for rel, wanted in targets.items():
            tree = ast.parse((Path("/repo") / rel).read_text())
            s = Sites(wanted)
            s.visit(tree)
            for i in range(len(s.sites)):
                tasks.append((pid, rel, i, wanted, "/repo"))
        if len(tasks) > a.max:
            step = len(tasks) / a.max
            tasks = [tasks[int(k * step)] for k in range(a.max)]
        with ProcessPoolExecutor(max_workers=a.j) as ex:
            res = list(ex.map(_run, tasks, chunksize=4))
        counts = {}
        for r in res:
            counts[r["verdict"]] = counts.get(r["verdict"], 0) + 1
        print(pid, "functions", {k: sorted(v) for k, v in targets.items()}, "mutants", len(res), counts, flush=True)
        json.dump(res, open(f"{a.out}/{pid}.json", "w"), indent=1)
        for r in res:
            if r["verdict"] == "SURVIVED":
                print(f"   SURVIVED {r['file']}:{r.get('line')} {r.get('function')} [{r.get('op')}] {r.get('before')}  ->  {r.get('after')}")


if __name__ == "__main__":
    main()
