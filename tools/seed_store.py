#!/usr/bin/env python3
"""Store a confirmed seeded change under /verif/seeded/<id>/.

  python3 tools/seed_store.py <seed dir> <PROP> <eval json from tools/seed_eval.py> [--note "..."]

Copies patch.diff, demo.py, notes.md; re-runs every check against a scratch copy with the patch applied (so that
`caught_by` reflects the checks as they are *now*) and writes meta.json:
  property, change, needs, ran (what was run to confirm it), caught_by (properties whose check reports a violation),
  rules (rule ids of the violations), own_check (does the check of the seeded property fire), note.
Refuses seeds whose evaluation does not show: demo passes at HEAD, demo fails with the patch, pinned suite passes.
"""
import json
import os
import re
import shutil
import subprocess
import sys
import tempfile
from pathlib import Path

VERIF = Path(__file__).resolve().parent.parent


def para(text: str, *heads: str) -> str:
    """First paragraph of notes.md that starts with one of the given heads (Change:, Needs:, ...)."""
    flat = re.sub(r"\*\*", "", text)
    for h in heads:
        m = re.search(rf"(?im)^[\s\-\*#]*{h}[^:\n]*:\s*(.+?)(?=\n\s*\n|\n[\s\-\*#]*(?:Change|Why|Needs?|Needed|Demo|demo\.py|Tests?|Effect)\b|\Z)",
                      flat, re.S)
        if m:
            return " ".join(m.group(1).split())
    return ""


def fire(patch: Path):
    tmp = Path(tempfile.mkdtemp(prefix="ss-"))
    try:
        shutil.copytree("/repo/abtem", tmp / "abtem", ignore=shutil.ignore_patterns("__pycache__"))
        r = subprocess.run(["patch", "-p1", "--batch", "--silent", "-i", str(patch)], cwd=tmp, capture_output=True,
                           text=True)
        if r.returncode != 0:
            raise SystemExit(f"patch does not apply: {r.stdout[:300]}")
        env = dict(os.environ, VERIF_REPO=str(tmp), VERIF_EVIDENCE_DIR=str(tmp / "ev"))
        o = subprocess.run(["python3", "-m", "sa.check", "all"], cwd=VERIF, env=env, capture_output=True,
                           text=True).stdout
        base = subprocess.run(["python3", "-m", "sa.check", "all"], cwd=VERIF,
                              env=dict(os.environ, VERIF_EVIDENCE_DIR=str(tmp / "ev0")), capture_output=True,
                              text=True).stdout
        def keys(out):
            cur, res = None, {}
            for line in out.splitlines():
                m = re.match(r"ANALYSED .* property=(C\d+)", line)
                if m:
                    cur = m.group(1)
                if "[VIOLATION" in line and cur:
                    rule = line.split("]", 1)[1].split()[0]
                    res.setdefault(cur, []).append((rule, line.strip()[:240]))
            return res
        k1, k0 = keys(o), keys(base)
        caught = {p: v for p, v in k1.items() if len(v) > len(k0.get(p, []))}
        return caught
    finally:
        shutil.rmtree(tmp, ignore_errors=True)


def main():
    seed, prop, evalj = Path(sys.argv[1]), sys.argv[2], Path(sys.argv[3])
    note = sys.argv[sys.argv.index("--note") + 1] if "--note" in sys.argv else ""
    ev = json.loads(evalj.read_text())
    ok = ev.get("demo_at_head") == 0 and ev.get("demo_with_patch") not in (0, None) and ev.get("baseline_ok") is True
    if not ok:
        raise SystemExit(f"{seed.name}: evaluation does not confirm the seed: {ev}")
    dst = VERIF / "seeded" / seed.name
    dst.mkdir(parents=True, exist_ok=True)
    for n in ("patch.diff", "demo.py", "notes.md"):
        if (seed / n).exists():
            shutil.copy(seed / n, dst / n)
    notes = (seed / "notes.md").read_text() if (seed / "notes.md").exists() else ""
    caught = fire(dst / "patch.diff")
    meta = {
        "property": prop,
        "change": para(notes, "Change"),
        "needs": para(notes, "Needs", "Needed"),
        "ran": (f"tools/seed_eval.py in a scratch worktree of /repo HEAD: demo.py exit {ev['demo_at_head']} at HEAD, exit "
                f"{ev['demo_with_patch']} with the patch; pinned suite with the patch: {ev.get('baseline')}; then "
                "`python3 -m sa.check all` against the patched tree"),
        "caught_by": sorted(caught),
        "rules": sorted({f"{p}:{r}" for p, v in caught.items() for r, _ in v}),
        "own_check": prop in caught,
        "example": (caught.get(prop) or next(iter(caught.values()), [("", "")]))[0][1],
        "note": note,
    }
    (dst / "meta.json").write_text(json.dumps(meta, indent=1) + "\n")
    print(seed.name, "caught_by", meta["caught_by"], "rules", meta["rules"], "| change:", meta["change"][:60], "| needs:",
          meta["needs"][:60])


if __name__ == "__main__":
    main()
