#!/usr/bin/env python3
"""Run the pinned test suite (command from /root/.vp/BASELINE.json) and compare with stable_pass.
Usage: baseline.py [repo_dir]   -- exit 0 iff every stable_pass test still passes."""
import json, os, subprocess, sys, tempfile, xml.etree.ElementTree as ET
repo = sys.argv[1] if len(sys.argv) > 1 else "/repo"
base = json.load(open("/root/.vp/BASELINE.json"))
fd, xml = tempfile.mkstemp(suffix=".xml"); os.close(fd)
cmd = ["/venv/bin/python", "-m", "pytest", "-ra", "-q", "-p", "no:cacheprovider", "--timeout=900",
       "--continue-on-collection-errors", "-n", os.environ.get("NJOBS", "8"), "--junitxml=" + xml]
env = dict(os.environ); env.pop("ABTEM_ABTEM_VERIF", None)
p = subprocess.run(cmd, cwd=repo, env=env, stdout=subprocess.PIPE, stderr=subprocess.STDOUT, text=True)
passed = set()
for tc in ET.parse(xml).getroot().iter("testcase"):
    if not any(c.tag in ("failure", "error", "skipped") for c in tc):
        passed.add(tc.get("classname") + "::" + tc.get("name"))
os.unlink(xml)
missing = sorted(set(base["stable_pass"]) - passed)
print(f"passed={len(passed)} stable_pass={len(base['stable_pass'])} missing={len(missing)}")
for m in missing[:40]: print("  MISSING", m)
sys.exit(1 if missing else 0)
