#!/usr/bin/env python3
"""Quick look: which checks fire on a seeded patch?  python3 tools/seed_fire.py <seed dir> [...]
Applies patch.diff to a scratch copy of /repo/abtem under /tmp and runs every check against it."""
import json, os, shutil, subprocess, sys, tempfile
from pathlib import Path
VERIF = Path(__file__).resolve().parent.parent
for seed in sys.argv[1:]:
    seed = Path(seed).resolve()
    tmp = Path(tempfile.mkdtemp(prefix="sf-"))
    try:
        shutil.copytree("/repo/abtem", tmp / "abtem", ignore=shutil.ignore_patterns("__pycache__"))
        r = subprocess.run(["patch", "-p1", "--batch", "--silent", "-i", str(seed / "patch.diff")], cwd=tmp, capture_output=True, text=True)
        if r.returncode != 0:
            print(seed.name, "PATCH-FAILED", r.stdout[:200]); continue
        env = dict(os.environ, VERIF_REPO=str(tmp), VERIF_EVIDENCE_DIR=str(tmp / "ev"))
        o = subprocess.run(["python3", "-m", "sa.check", "all"], cwd=VERIF, env=env, capture_output=True, text=True).stdout
        fired = [l.split("property=")[1].split()[0] for l in o.splitlines() if l.startswith("RESULT") and "violations=0" not in l]
        errs = [l[:160] for l in o.splitlines() if l.startswith("ANALYSIS-ERROR")]
        viol = [l.strip()[:260] for l in o.splitlines() if "[VIOLATION" in l][:3]
        print(seed.name, "FIRED", fired, "ERRORS", errs)
        for v in viol: print("    ", v)
    finally:
        shutil.rmtree(tmp, ignore_errors=True)
