#!/usr/bin/env python3
"""Evaluate a seeded change: python3 tools/seed_eval.py <seed dir> <PROP> [--no-baseline]

Steps (all in a scratch worktree under /tmp that is removed afterwards):
  1. demo.py at HEAD must exit 0;  2. patch applies;  3. demo.py with the patch must exit 1;
  4. the pinned test suite still passes (tools/baseline.py);  5. run every claimed check against the
  patched tree (VERIF_REPO) and record which fire.
Prints one JSON object.
"""
import json
import os
import shutil
import subprocess
import sys
import tempfile
from pathlib import Path

VERIF = Path(__file__).resolve().parent.parent


def sh(cmd, cwd=None, env=None, timeout=3600):
    p = subprocess.run(cmd, cwd=cwd, env=env, capture_output=True, text=True, timeout=timeout)
    return p.returncode, p.stdout + p.stderr


def main():
    seed = Path(sys.argv[1]).resolve()
    prop = sys.argv[2]
    do_baseline = "--no-baseline" not in sys.argv
    wt = Path(tempfile.mkdtemp(prefix="ev-"))
    shutil.rmtree(wt)
    out = {"seed": str(seed), "property": prop}
    try:
        rc, o = sh(["git", "-C", "/repo", "worktree", "add", "--detach", str(wt), "HEAD"])
        if rc != 0:
            out["error"] = "worktree: " + o[-300:]
            return out
        env = dict(os.environ, PYTHONPATH=str(wt))
        env.pop("ABTEM_ABTEM_VERIF", None)
        shutil.copy(seed / "demo.py", wt / "_demo.py")
        rc0, o0 = sh(["/venv/bin/python", "_demo.py"], cwd=wt, env=env, timeout=900)
        out["demo_at_head"] = rc0
        rc, o = sh(["git", "apply", str(seed / "patch.diff")], cwd=wt)
        out["patch_applies"] = rc == 0
        if rc != 0:
            out["error"] = o[-300:]
            return out
        rc1, o1 = sh(["/venv/bin/python", "_demo.py"], cwd=wt, env=env, timeout=900)
        out["demo_with_patch"] = rc1
        out["demo_output"] = o1[-400:]
        (wt / "_demo.py").unlink()
        if do_baseline:
            rcb, ob = sh(["python3", str(VERIF / "tools" / "baseline.py"), str(wt)], timeout=3600)
            out["baseline_ok"] = rcb == 0
            out["baseline"] = ob.strip().splitlines()[0] if ob.strip() else ""
            out["baseline_missing"] = [l.strip() for l in ob.splitlines() if "MISSING" in l][:10]
        ev = tempfile.mkdtemp(prefix="ev-evidence-")
        cenv = dict(os.environ, VERIF_REPO=str(wt), VERIF_EVIDENCE_DIR=ev)
        rcc, oc = sh(["python3", "-m", "sa.check", "all"], cwd=VERIF, env=cenv, timeout=1800)
        fired = {}
        for line in oc.splitlines():
            if line.startswith("RESULT"):
                parts = dict(kv.split("=") for kv in line.split()[1:] if "=" in kv)
                if int(parts.get("violations", "0")):
                    fired[parts["property"]] = int(parts["violations"])
            if line.startswith("ANALYSIS-ERROR"):
                fired.setdefault("ANALYSIS-ERROR", []).append(line[:200])
        out["checks_fired"] = fired
        out["own_check_fired"] = prop in fired
        out["violation_lines"] = [l.strip()[:300] for l in oc.splitlines() if "[VIOLATION" in l][:6]
        shutil.rmtree(ev, ignore_errors=True)
        return out
    finally:
        sh(["git", "-C", "/repo", "worktree", "remove", "--force", str(wt)])
        shutil.rmtree(wt, ignore_errors=True)


if __name__ == "__main__":
    print(json.dumps(main(), indent=1))
