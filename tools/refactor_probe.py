#!/usr/bin/env python3
"""Behaviour-preserving whole-package refactorings, to probe the checks for false alarms.

  python3 tools/refactor_probe.py rename    # rename every local variable of every simple function (x -> x_r)
  python3 tools/refactor_probe.py unparse   # only re-emit every module through ast.unparse (formatting, parentheses)
  python3 tools/refactor_probe.py swapif    # swap if/else arms of every `if a: .. else: ..` (negating the test)
  python3 tools/refactor_probe.py ifstmt    # `x = A if C else B` -> if C: x = A / else: x = B
  python3 tools/refactor_probe.py splitpairs # `a, b = E1, E2` -> `a = E1; b = E2` (when E2 does not mention a)
  python3 tools/refactor_probe.py flipcmp   # `a < b` -> `b > a`, `a == b` -> `b == a`
  python3 tools/refactor_probe.py kwcall    # `f(a, b)` -> `f(x=a, y=b)` for calls of module-level functions of the same module
  python3 tools/refactor_probe.py rettemp   # `return <expr>` -> `_returned = <expr>; return _returned` everywhere

Applies the transformation to a scratch copy of /repo/abtem under /tmp, checks that the result compiles, runs every
claimed check against it and prints which checks report violations (false alarms) or analysis errors.
"""
import ast
import os
import shutil
import subprocess
import sys
import tempfile
from pathlib import Path

VERIF = Path(__file__).resolve().parent.parent


class Rename(ast.NodeTransformer):
    def visit_FunctionDef(self, node: ast.FunctionDef):
        # only simple functions: no nested defs / lambdas / global / nonlocal
        for n in ast.walk(node):
            if n is not node and isinstance(n, (ast.FunctionDef, ast.AsyncFunctionDef, ast.Lambda, ast.ClassDef,
                                                 ast.Global, ast.Nonlocal)):
                self.generic_visit(node)
                return node
        a = node.args
        params = {x.arg for x in a.posonlyargs + a.args + a.kwonlyargs}
        if a.vararg:
            params.add(a.vararg.arg)
        if a.kwarg:
            params.add(a.kwarg.arg)
        comp_targets = set()
        for n in ast.walk(node):
            if isinstance(n, ast.comprehension):
                for m in ast.walk(n.target):
                    if isinstance(m, ast.Name):
                        comp_targets.add(m.id)
        assigned = set()
        for n in ast.walk(node):
            if isinstance(n, ast.Name) and isinstance(n.ctx, ast.Store):
                assigned.add(n.id)
            elif isinstance(n, ast.ExceptHandler) and n.name:
                params.add(n.name)
            elif isinstance(n, (ast.Import, ast.ImportFrom)):
                for al in n.names:
                    params.add((al.asname or al.name).split(".")[0])
        locals_ = assigned - params - comp_targets
        mapping = {v: v + "_r" for v in locals_ if not v.startswith("__")}

        class R(ast.NodeTransformer):
            def visit_Name(self, n: ast.Name):
                if n.id in mapping:
                    return ast.copy_location(ast.Name(id=mapping[n.id], ctx=n.ctx), n)
                return n

        return R().visit(node)


class SwapIf(ast.NodeTransformer):
    def visit_If(self, node: ast.If):
        self.generic_visit(node)
        if node.orelse and not (len(node.orelse) == 1 and isinstance(node.orelse[0], ast.If)):
            t = node.test
            if isinstance(t, ast.UnaryOp) and isinstance(t.op, ast.Not):
                nt = t.operand
            else:
                nt = ast.UnaryOp(op=ast.Not(), operand=t)
            return ast.copy_location(ast.If(test=nt, body=node.orelse, orelse=node.body), node)
        return node


class RetTemp(ast.NodeTransformer):
    """`return <expr>` -> `_returned = <expr>; return _returned` (not for plain names / constants)"""

    def _block(self, stmts):
        out = []
        for st in stmts:
            st = self.visit(st)
            if isinstance(st, ast.Return) and st.value is not None and not isinstance(st.value, (ast.Name, ast.Constant)):
                tmp = ast.Name(id="_returned", ctx=ast.Store())
                out.append(ast.copy_location(ast.Assign(targets=[tmp], value=st.value), st))
                out.append(ast.copy_location(ast.Return(value=ast.Name(id="_returned", ctx=ast.Load())), st))
            else:
                out.append(st)
        return out

    def generic_visit(self, node):
        for fld in ("body", "orelse", "finalbody"):
            blk = getattr(node, fld, None)
            if isinstance(blk, list) and blk and isinstance(blk[0], ast.stmt):
                setattr(node, fld, self._block(blk))
        for h in getattr(node, "handlers", []) or []:
            h.body = self._block(h.body)
        for fld, val in ast.iter_fields(node):
            if fld in ("body", "orelse", "finalbody", "handlers"):
                continue
            if isinstance(val, list):
                for i, v in enumerate(val):
                    if isinstance(v, ast.AST):
                        val[i] = self.visit(v)
            elif isinstance(val, ast.AST):
                setattr(node, fld, self.visit(val))
        return node

    def visit_Lambda(self, node):
        return node


class IfStmt(ast.NodeTransformer):
    """`x = A if C else B` -> `if C: x = A` / `else: x = B` (single plain target, statement level)"""

    def visit_Assign(self, node: ast.Assign):
        if len(node.targets) == 1 and isinstance(node.targets[0], ast.Name) and isinstance(node.value, ast.IfExp):
            t = node.targets[0]
            mk = lambda v: ast.copy_location(ast.Assign(targets=[ast.Name(id=t.id, ctx=ast.Store())], value=v), node)
            return ast.copy_location(ast.If(test=node.value.test, body=[mk(node.value.body)],
                                            orelse=[mk(node.value.orelse)]), node)
        return node


class SplitPairs(ast.NodeTransformer):
    """`a, b = E1, E2` -> `a = E1; b = E2` when no later right-hand side mentions an earlier target"""

    def _split(self, stmts):
        out = []
        for st in stmts:
            self.generic_visit(st) if not isinstance(st, (ast.FunctionDef, ast.ClassDef)) else self.visit(st)
            if isinstance(st, ast.Assign) and len(st.targets) == 1 and isinstance(st.targets[0], ast.Tuple) \
                    and isinstance(st.value, ast.Tuple) and len(st.targets[0].elts) == len(st.value.elts) \
                    and all(isinstance(t, ast.Name) for t in st.targets[0].elts) \
                    and not any(isinstance(v, ast.Starred) for v in st.value.elts):
                names = [t.id for t in st.targets[0].elts]
                safe = True
                for i, v in enumerate(st.value.elts):
                    used = {n.id for n in ast.walk(v) if isinstance(n, ast.Name)}
                    if used & set(names[:i]):
                        safe = False
                if safe:
                    for t, v in zip(st.targets[0].elts, st.value.elts):
                        out.append(ast.copy_location(ast.Assign(targets=[t], value=v), st))
                    continue
            out.append(st)
        return out

    def generic_visit(self, node):
        for fld in ("body", "orelse", "finalbody"):
            blk = getattr(node, fld, None)
            if isinstance(blk, list) and blk and isinstance(blk[0], ast.stmt):
                setattr(node, fld, self._split(blk))
        for h in getattr(node, "handlers", []) or []:
            h.body = self._split(h.body)
        return node

    def visit_FunctionDef(self, node):
        return self.generic_visit(node)

    visit_ClassDef = visit_FunctionDef
    visit_Module = visit_FunctionDef


class FlipCmp(ast.NodeTransformer):
    """`a < b` -> `b > a`, `a == b` -> `b == a` ... (single comparisons)"""
    MIRROR = {ast.Lt: ast.Gt, ast.Gt: ast.Lt, ast.LtE: ast.GtE, ast.GtE: ast.LtE, ast.Eq: ast.Eq, ast.NotEq: ast.NotEq}

    def visit_Compare(self, node: ast.Compare):
        self.generic_visit(node)
        if len(node.ops) == 1 and type(node.ops[0]) in self.MIRROR:
            return ast.copy_location(ast.Compare(left=node.comparators[0], ops=[self.MIRROR[type(node.ops[0])]()],
                                                 comparators=[node.left]), node)
        return node


class KwCall(ast.NodeTransformer):
    """`f(a, b)` -> `f(x=a, y=b)` for calls of undecorated module-level functions of the same module"""

    def __init__(self, tree: ast.Module):
        self.sigs = {}
        for st in tree.body:
            if isinstance(st, ast.FunctionDef) and not st.decorator_list and not st.args.posonlyargs \
                    and not st.args.vararg:
                self.sigs[st.name] = [a.arg for a in st.args.args]
        # a name that is rebound anywhere in the module is not safe
        for n in ast.walk(tree):
            if isinstance(n, ast.Name) and isinstance(n.ctx, ast.Store) and n.id in self.sigs:
                del self.sigs[n.id]
            if isinstance(n, ast.arg) and n.arg in self.sigs:
                del self.sigs[n.arg]

    def visit_Call(self, node: ast.Call):
        self.generic_visit(node)
        if isinstance(node.func, ast.Name) and node.func.id in self.sigs and node.args and not any(
                isinstance(a, ast.Starred) for a in node.args) and not any(k.arg is None for k in node.keywords):
            params = self.sigs[node.func.id]
            if len(node.args) <= len(params):
                new_kw = [ast.keyword(arg=p, value=a) for p, a in zip(params, node.args)]
                if not {k.arg for k in new_kw} & {k.arg for k in node.keywords}:
                    node.keywords = new_kw + node.keywords
                    node.args = []
        return node


def main():
    mode = sys.argv[1] if len(sys.argv) > 1 else "rename"
    tmp = Path(tempfile.mkdtemp(prefix="rp-"))
    try:
        shutil.copytree("/repo/abtem", tmp / "abtem", ignore=shutil.ignore_patterns("__pycache__"))
        nmod = 0
        for p in (tmp / "abtem").rglob("*.py"):
            src = p.read_text()
            tree = ast.parse(src)
            if mode == "rename":
                tree = Rename().visit(tree)
            elif mode == "swapif":
                tree = SwapIf().visit(tree)
            elif mode == "rettemp":
                tree = RetTemp().visit(tree)
            elif mode == "ifstmt":
                tree = IfStmt().visit(tree)
            elif mode == "splitpairs":
                tree = SplitPairs().visit(tree)
            elif mode == "flipcmp":
                tree = FlipCmp().visit(tree)
            elif mode == "kwcall":
                tree = KwCall(tree).visit(tree)
            ast.fix_missing_locations(tree)
            out = ast.unparse(tree)
            compile(out, str(p), "exec")
            p.write_text(out + "\n")
            nmod += 1
        env = dict(os.environ, VERIF_REPO=str(tmp), VERIF_EVIDENCE_DIR=str(tmp / "ev"))
        o = subprocess.run(["python3", "-m", "sa.check", "all"], cwd=VERIF, env=env, capture_output=True, text=True).stdout
        viol = [l for l in o.splitlines() if l.startswith("RESULT") and "violations=0" not in l]
        errs = [l[:200] for l in o.splitlines() if l.startswith("ANALYSIS-ERROR")]
        print(f"mode={mode} modules={nmod}")
        print("FALSE ALARMS:", len(viol))
        for v in viol:
            print("  ", v)
        for l in o.splitlines():
            if "[VIOLATION" in l:
                print("     ", l.strip()[:260])
        print("ANALYSIS-ERRORS:", len(errs))
        for e in errs:
            print("  ", e)
    finally:
        shutil.rmtree(tmp, ignore_errors=True)


if __name__ == "__main__":
    main()
