import json, subprocess, sys, os
from concurrent.futures import ThreadPoolExecutor
src, evd, notes = sys.argv[1], sys.argv[2], json.load(open(sys.argv[3]))
def one(d):
    p = d.split("-")[0]
    ej = f"{evd}/{d}.json"
    if not os.path.exists(ej):
        return f"{d}: no eval"
    r = subprocess.run(["python3", "tools/seed_store.py", f"{src}/{d}", p, ej, "--note", notes.get(d, notes.get(p, ""))], capture_output=True, text=True, cwd="/verif")
    return (r.stdout + r.stderr).strip()[:260]
ds = sorted(x for x in os.listdir(src) if x.startswith("C") and os.path.isdir(f"{src}/{x}"))
with ThreadPoolExecutor(8) as ex:
    for o in ex.map(one, ds): print(o)
