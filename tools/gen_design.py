#!/usr/bin/env python3
"""Regenerate /verif/DESIGN.md: hand-written head/tail + section 2 (per property, from evidence rule texts and the
registry), section 4 (findings, from known_findings.json) and section 6 (seeded changes, from seeded/*/meta.json)."""
import json
import sys
from pathlib import Path

VERIF = Path(__file__).resolve().parent.parent
sys.path.insert(0, str(VERIF))
from sa.registry import CHECKS, NOT_APPLICABLE  # noqa: E402


def main():
    props = [json.loads(l) for l in (VERIF / "properties.jsonl").read_text().splitlines() if l.strip()]
    out = [(VERIF / "tools" / "design_head.md").read_text()]
    out.append("\n---------------------------------------------------------------------------------------------\n")
    out.append("## 2. Property by property\n")
    out.append("For each claimed property: the technique, the rules the check applies (verbatim from the check), how "
               "many instances each rule examined on the current tree, what is *not* decided, and the trusted base.\n")
    for p in props:
        pid = p["id"]
        if pid not in CHECKS:
            out.append(f"### {pid} {p['title']} — *not applicable* (section 3)\n")
            continue
        tech, text, note = CHECKS[pid]
        ev_path = VERIF / "evidence" / f"{pid}.json"
        out.append(f"### {pid} {p['title']}\n")
        out.append(f"*Technique:* {tech}.\n")
        out.append(f"*Claim:* {text}\n")
        if ev_path.exists():
            ev = json.loads(ev_path.read_text())
            cov = ev["coverage"]
            per = cov.get("instances_per_rule", {})
            for r, t in cov.get("rules", {}).items():
                t = t if len(t) < 700 else t[:700] + " …"
                out.append(f"* **{r}** ({per.get(r, 0)} instances) — {t}")
            nd = cov.get("not_decided", [])
            if nd:
                out.append(f"\n*Not decided:* {'; '.join(nd)}")
            infos = cov.get("informational", [])
            if infos:
                out.append(f"\n*Informational observations on the current tree:* {len(infos)} "
                           f"(e.g. {infos[0][:220]})")
        out.append(f"\n*Trusted base:* {note}\n")
    out.append("\n---------------------------------------------------------------------------------------------\n")
    out.append("## 4. Genuine defects found on the pinned tree\n")
    out.append("Each was reproduced against the real code before it was repaired (one minimal unguarded `fix:` commit in "
               "`/repo`, suite still 509/509) or recorded. `fixed` entries are history: they suppress nothing, and "
               "every one has a revert variant in the self-test that makes the check fire again. `known` entries are "
               "printed as `KNOWN-FINDING` and any *other* violation of the same rule is still reported.\n")
    kf = json.loads((VERIF / "known_findings.json").read_text())["findings"]
    out.append("| property | status | commit | violation key | what failed |")
    out.append("|---|---|---|---|---|")
    for e in kf:
        what = e.get("what") or e.get("record", "").split(" ", 3)[-1]
        what = what.replace("|", "\\|")
        out.append(f"| {e['property']} | {e['status']} | {e.get('commit', '—')} | `{e['key'][:110]}` | {what[:420]} |")
    out.append("\nNo false alarm is listed here; section 7 records the false alarms met while building and how the "
               "rules were corrected.\n")
    # section 6: seeded
    out.append("\n---------------------------------------------------------------------------------------------\n")
    out.append("## 6. Seeded changes: which checks catch which\n")
    metas = sorted((VERIF / "seeded").glob("*/meta.json")) if (VERIF / "seeded").exists() else []
    if not metas:
        out.append("(no seeded changes kept yet)\n")
    else:
        out.append("| seed | property | change | needs to manifest | caught by | note |")
        out.append("|---|---|---|---|---|---|")
        for m in metas:
            d = json.loads(m.read_text())
            caught = ", ".join(d.get("caught_by", [])) or "**missed**"
            out.append(f"| {m.parent.name} | {d.get('property')} | {d.get('change', '')[:200]} | "
                       f"{d.get('needs', '')[:160]} | {caught} | {d.get('note', '')[:260]} |")
        out.append("")
    out.append((VERIF / "tools" / "design_tail.md").read_text())
    (VERIF / "DESIGN.md").write_text("\n".join(out))
    print("DESIGN.md written:", sum(len(x) for x in out), "chars")


if __name__ == "__main__":
    main()
