"""C23 — apertures and partial-coherence envelopes stay within physical bounds (abtem/transfer.py).

Interval / sign abstract interpretation (sa/rules/absdom.py) for the value ranges, term normal forms
(sa/rules/symx.py) for the half-pixel edge clause, and a path-enumerating symbolic execution of
CTF._evaluate_from_angular_grid for the composition clause.
"""
from __future__ import annotations

import ast
from fractions import Fraction

from ..cfg import DataFlow
from ..model import AnalysisError, bind_args, call_name, dotted, last_attr, norm_text, walk_no_nested
from ..rules.absdom import INF, IDENTITY, POSITIONAL_IDENTITY, UNIT, IntervalEval, fmt, within
from ..rules.symx import SymExec, cond_matches
from ..terms import Poly

MOD = "abtem.transfer"
INF_NAMES = ("np.inf", "xp.inf", "math.inf", "numpy.inf")


def _is_inf(node) -> bool:
    """`<module>.inf` for any module-like receiver name (np/xp/math/a local bound to get_array_module(...))."""
    import ast as _ast

    if dotted(node) in INF_NAMES:
        return True
    return isinstance(node, _ast.Attribute) and node.attr == "inf" and isinstance(node.value, _ast.Name)


# ---------------------------------------------------------------------------------------------
def peel(df: DataFlow, at: int, e: ast.AST, depth: int = 0):
    """Follow shape-only wrappers and single definitions: returns (expression, node)."""
    while depth < 40:
        depth += 1
        if isinstance(e, ast.Call):
            fn = last_attr(e)
            if fn == "astype" and isinstance(e.func, ast.Attribute):
                e = e.func.value
                continue
            if fn in IDENTITY and e.args:
                e = e.args[0]
                continue
            return e, at
        if isinstance(e, ast.Name):
            d = df.single_def(at, e.id)
            if d is None or d.kind not in ("assign", "walrus") or d.value is None:
                return e, at
            st = df.cfg.nodes[d.node].ast
            if isinstance(st, ast.Assign) and isinstance(st.targets[0], (ast.Tuple, ast.List)) and not isinstance(
                    st.value, (ast.Tuple, ast.List)):
                idx = [i for i, t in enumerate(st.targets[0].elts) if dotted(t) == e.id]
                v = st.value
                if len(idx) == 1 and isinstance(v, ast.Call) and last_attr(v) in POSITIONAL_IDENTITY and \
                        len(v.args) > idx[0]:
                    e, at = v.args[idx[0]], d.node
                    continue
                return e, at
            e, at = d.value, d.node
            continue
        return e, at
    raise AnalysisError("definition chain too long")


def origin_param(df: DataFlow, at: int, e: ast.AST):
    """Parameter name a value is a reshaped copy of, else None.  A variable with several reaching definitions
    (`if x.ndim == 1: x = x[:, None, None]`) is a reshaped copy of p when every definition is."""
    got = _origins(df, at, e, 0, set())
    return next(iter(got)) if len(got) == 1 and None not in got else None


def _shape_only_subscript(s: ast.Subscript) -> bool:
    idx = s.slice.elts if isinstance(s.slice, ast.Tuple) else [s.slice]
    for i in idx:
        if isinstance(i, ast.Constant) and (i.value is None or i.value is Ellipsis):
            continue
        if isinstance(i, ast.Slice) and i.lower is None and i.upper is None and i.step is None:
            continue
        return False
    return True


def _origins(df: DataFlow, at: int, e: ast.AST, depth: int, seen: set) -> set:
    if depth > 12:
        return {None}
    e2, at2 = peel(df, at, e)
    while isinstance(e2, ast.Subscript) and _shape_only_subscript(e2):
        e2, at2 = peel(df, at2, e2.value)
    if isinstance(e2, ast.Name):
        out = set()
        for d in df.reaching(at2, e2.id):
            if d.kind == "param":
                out.add(e2.id)
            elif d.kind in ("assign", "walrus") and d.value is not None and (d.node, e2.id) not in seen:
                seen.add((d.node, e2.id))
                st = df.cfg.nodes[d.node].ast
                v = d.value
                if isinstance(st, ast.Assign) and isinstance(st.targets[0], (ast.Tuple, ast.List)) and \
                        isinstance(v, ast.Call) and last_attr(v) in POSITIONAL_IDENTITY:
                    idx = [i for i, t in enumerate(st.targets[0].elts) if dotted(t) == e2.id]
                    if len(idx) == 1 and len(v.args) > idx[0]:
                        v = v.args[idx[0]]
                    else:
                        out.add(None)
                        continue
                out |= _origins(df, d.node, v, depth + 1, seen)
            elif d.strong:
                out.add(None)
        return out or {None}
    return {None}


def single_return(f):
    rets = [r for r in walk_no_nested(f.node) if isinstance(r, ast.Return) and r.value is not None]
    if len(rets) != 1:
        raise AnalysisError(f"{f.qualname}: expected exactly one return, found {len(rets)}")
    return rets[0]


def prove(ctx, rule, construct, where, ie: IntervalEval, got, bound, what: str, why: str, key: str) -> bool:
    ok = within(got, bound)
    if not ok and ie.unmodelled:
        raise AnalysisError(f"{construct}: cannot bound {what}: unmodelled {sorted(set(ie.unmodelled))[:4]}")
    return ctx.check(ok, rule, construct, where, f"{what} in {fmt(got)} within {fmt(bound)}",
                     f"{what} is only known to lie in {fmt(got)}, not within {fmt(bound)}: {why}", key_detail=key)


# ---------------------------------------------------------------------------------------------
def _soft(ctx, repo):
    f = repo.function(MOD, "soft_aperture")
    ps = f.positional_params
    ctx.require(len(ps) == 4, f"{f.qualname}: expected (alpha, phi, semiangle_cutoff, angular_sampling)")
    p_alpha, p_phi, p_cut, p_samp = ps
    df = DataFlow(f.node)
    ret = single_return(f)
    at = df.cfg.node_of(ret).idx
    ie = IntervalEval(df)
    prove(ctx, "R-INTERVAL", f"{f.qualname}:return", f.loc(ret), ie, ie.ev(ret.value, at), UNIT, "soft aperture value",
          "every definition reaching the return must be a clip to [0, 1] or a constant store inside [0, 1]", "range")

    # ---- the edge profile
    clips = []
    roots: dict[str, Poly] = {}

    def hook(nz, call):
        fn = last_attr(call)
        if fn == "clip" and call.args:
            lo = hi = None
            for k in call.keywords:
                if k.arg in ("a_min", "min"):
                    lo = k.value
                if k.arg in ("a_max", "max"):
                    hi = k.value
            rest = list(call.args[1:])
            if lo is None and rest:
                lo = rest.pop(0)
            if hi is None and rest:
                hi = rest.pop(0)
            clips.append((nz.norm(call.args[0]), nz.norm(lo) if lo is not None else None,
                          nz.norm(hi) if hi is not None else None, call))
            return Poly.atom("⟦clip⟧")
        if fn == "sqrt" and len(call.args) == 1:
            inner = nz.norm(call.args[0])
            if inner.is_monomial() or inner.is_zero():
                return None
            lead = sorted(inner.terms, key=lambda m: [(a, float(e)) for a, e in m])[0]
            g = inner.terms[lead]
            from ..terms import _frac_pow
            r = _frac_pow(g, Fraction(1, 2)) if g > 0 else None
            if r is None:
                return None
            prim = Poly({k: v / g for k, v in inner.terms.items()})
            name = f"√⟨{prim.key()}⟩"
            roots[name] = prim
            return Poly.const(r) * Poly.atom(name)
        return None

    sx = SymExec(f.node, call_hook=hook)
    res = sx.run()
    ctx.require(len(res) == 1, f"{f.qualname}: expected straight-line code")
    ctx.require(len(clips) == 1, f"{f.qualname}: expected exactly one clip(...) producing the aperture")
    arg, lo, hi, call = clips[0]
    where = f.loc(call)
    ctx.check(lo == Poly.const(0) and hi == Poly.const(1), "R-SOFTEDGE", f"{f.qualname}:clip-bounds", where,
              "clipped to exactly [0, 1]",
              f"the edge ramp is clipped to [{lo.key() if lo else None}, {hi.key() if hi else None}] instead of [0, 1]: the "
              "aperture is not 1 inside / 0 outside", key_detail="bounds")
    half = arg.terms.get((), Fraction(0))
    rest = arg - Poly.const(half)
    problems = []
    scale = None
    if half != Fraction(1, 2):
        problems.append(f"constant offset is {half}, expected 1/2 (the ramp must cross 1 and 0 half a pixel before/"
                        "after the cutoff)")
    monos = list(rest.terms.items())
    rootatom = None
    byvar = {}
    if len(monos) != 2:
        problems.append(f"ramp {rest.key()[:80]} is not (cutoff - alpha)/pixel")
    else:
        for mono, coef in monos:
            neg = [(a, e) for a, e in mono if e < 0]
            pos = [(a, e) for a, e in mono if e > 0]
            if len(neg) != 1 or neg[0][1] != -1 or len(pos) != 1 or pos[0][1] != 1:
                problems.append(f"ramp term {Poly({mono: coef}).key()[:60]} is not variable/pixel")
                continue
            if rootatom is None:
                rootatom = neg[0][0]
            elif rootatom != neg[0][0]:
                problems.append("cutoff and alpha are divided by different pixel sizes")
            byvar[pos[0][0]] = coef
        if not problems:
            if set(byvar) != {p_cut, p_alpha}:
                problems.append(f"ramp is built from {sorted(byvar)}, expected the cutoff `{p_cut}` and the angle "
                                f"`{p_alpha}`")
            elif not (byvar[p_cut] > 0 and byvar[p_cut] == -byvar[p_alpha]):
                problems.append(f"ramp is {byvar[p_cut]}*{p_cut} + {byvar[p_alpha]}*{p_alpha} over the pixel size; expected "
                                "+(cutoff - alpha): transmission must fall from 1 to 0 with increasing angle")
            else:
                scale = 1 / byvar[p_cut]
    if not problems:
        prim = roots.get(rootatom)
        if prim is None:
            problems.append(f"pixel size {rootatom} is not a square root of a sum of squares")
        else:
            want = {("cos", f"{p_samp}[0]"), ("sin", f"{p_samp}[1]")}
            got = set()
            coefs = set()
            for mono, coef in prim.terms.items():
                tr = [(a, e) for a, e in mono if a in sx.trig]
                sm = [(a, e) for a, e in mono if a not in sx.trig]
                if len(tr) == 1 and len(sm) == 1 and tr[0][1] == 2 and sm[0][1] == 2 and \
                        sx.trig[tr[0][0]][1] == Poly.atom(p_phi):
                    got.add((sx.trig[tr[0][0]][0], sm[0][0]))
                    coefs.add(coef)
                else:
                    got.add(("?", Poly({mono: coef}).key()[:40]))
            if got != want or len(coefs) != 1:
                problems.append(f"pixel size along the azimuth is sqrt of {sorted(got)} (weights {sorted(map(str, coefs))}), "
                                f"expected (cos(phi)*{p_samp}[0])**2 + (sin(phi)*{p_samp}[1])**2")
    ctx.check(not problems, "R-SOFTEDGE", f"{f.qualname}:ramp", where,
              f"clip argument = ({p_cut} - {p_alpha}) / ({scale} * pixel({p_phi}, {p_samp})) + 1/2",
              "; ".join(problems), key_detail="ramp")
    return scale


def _hard(ctx, repo):
    f = repo.function(MOD, "hard_aperture")
    ps = f.positional_params
    ctx.require(len(ps) == 2, f"{f.qualname}: expected (alpha, semiangle_cutoff)")
    df = DataFlow(f.node)
    ret = single_return(f)
    at = df.cfg.node_of(ret).idx
    ie = IntervalEval(df)
    prove(ctx, "R-INTERVAL", f"{f.qualname}:return", f.loc(ret), ie, ie.ev(ret.value, at), UNIT, "hard aperture value",
          "the value must be a comparison cast to a number", "range")
    e, at2 = peel(df, at, ret.value)
    good = False
    found = norm_text(e)[:60]
    if isinstance(e, ast.Compare) and len(e.ops) == 1:
        l, r = origin_param(df, at2, e.left), origin_param(df, at2, e.comparators[0])
        op = e.ops[0]
        good = (isinstance(op, ast.LtE) and (l, r) == (ps[0], ps[1])) or (
            isinstance(op, ast.GtE) and (l, r) == (ps[1], ps[0]))
    ctx.check(good, "R-HARDEDGE", f"{f.qualname}:edge", f.loc(ret), f"{ps[0]} <= {ps[1]}",
              f"the hard aperture is `{found}`, not `{ps[0]} <= {ps[1]}`: it must be 1 exactly up to the cutoff "
              "(inclusive) and 0 beyond", key_detail="edge")


def _aperture_dispatch(ctx, repo, soft_scale):
    f = repo.method(MOD, "Aperture", "_evaluate_from_angular_grid")
    ps = f.positional_params
    alpha, phi = ps[1], ps[2]
    soft = repo.function(MOD, "soft_aperture")
    hard = repo.function(MOD, "hard_aperture")
    calls = []

    def hook(nz, call):
        cn = call_name(call)
        if cn in ("soft_aperture", "hard_aperture"):
            callee = soft if cn == "soft_aperture" else hard
            b = {k: nz.norm(v) for k, v in bind_args(call, callee).items()}
            calls.append((cn, b, call))
            return Poly.atom(f"⟦{cn}⟧")
        return None

    sx = SymExec(f.node, call_hook=hook)
    res = sx.run()
    ctx.require(bool(res) and not sx.fallthrough, f"{f.qualname}: a path ends without returning a kernel")

    def is_inf_test(t):
        if isinstance(t, ast.Compare) and len(t.ops) == 1 and isinstance(t.ops[0], (ast.Eq, ast.NotEq)):
            for x, y in ((t.left, t.comparators[0]), (t.comparators[0], t.left)):
                if _is_inf(y) and dotted(x) in ("self.semiangle_cutoff", "self._semiangle_cutoff"):
                    return isinstance(t.ops[0], ast.Eq)
        return None

    for r in res:
        v = r.value
        if v == Poly.const(1):
            isinf = cond_matches(r.conds, is_inf_test)
            ctx.check(isinf is True, "R-DISPATCH", f"{f.qualname}:all-pass", f.loc(r.stmt),
                      "ones only for an infinite cutoff",
                      "a path returns an all-pass kernel although the cutoff may be finite", key_detail="ones")
        elif v in (Poly.atom("⟦soft_aperture⟧"), Poly.atom("⟦hard_aperture⟧")):
            ctx.ok("R-DISPATCH", f"{f.qualname}:return {v.key()[2:]}", f.loc(r.stmt), "kernel is an aperture function")
        else:
            ctx.violation("R-DISPATCH", f"{f.qualname}:return", f.loc(r.stmt),
                          f"returned kernel {v.key()[:80]} is not soft_aperture(...)/hard_aperture(...)/ones: its range "
                          "is not covered by the aperture bounds", key_detail="return")
    ctx.require(len(calls) >= 2, f"{f.qualname}: soft_aperture / hard_aperture calls not found")
    seen = set()
    for cn, b, call in calls:
        if id(call) in seen:
            continue
        seen.add(id(call))
        callee = soft if cn == "soft_aperture" else hard
        cps = callee.positional_params
        probs = []
        if b.get(cps[0]) != Poly.atom(alpha):
            probs.append(f"angle argument is {b.get(cps[0]).key() if cps[0] in b else None}, expected {alpha}")
        cut_name = cps[2] if cn == "soft_aperture" else cps[1]
        cut = b.get(cut_name)
        want_cut = [Poly.const(Fraction(1, 1000)) * Poly.atom(a) for a in ("self.semiangle_cutoff", "self._semiangle_cutoff")]
        if cut not in want_cut:
            probs.append(f"cutoff argument is {cut.key() if cut is not None else None}, expected 1/1000*self.semiangle_cutoff "
                         "(mrad -> rad, the unit of alpha)")
        if cn == "soft_aperture":
            if b.get(cps[1]) != Poly.atom(phi):
                probs.append(f"azimuth argument is {b.get(cps[1]).key() if cps[1] in b else None}, expected {phi}")
            samp = b.get(cps[3])
            if soft_scale is not None and samp is not None and samp * Poly.const(soft_scale) != \
                    Poly.const(Fraction(1, 1000)) * Poly.atom("self.angular_sampling"):
                probs.append(f"pixel size is {samp.key()} scaled by {soft_scale} inside soft_aperture; expected "
                             "self.angular_sampling [mrad] * 1/1000 in total so that cutoff, alpha and pixel share radians")
        ctx.check(not probs, "R-DISPATCH", f"{f.qualname}:call {cn}", f.loc(call),
                  "alpha, phi passed through; cutoff and pixel size converted mrad -> rad consistently",
                  "; ".join(probs), key_detail=f"args-{cn}")


# ---------------------------------------------------------------------------------------------
def _is_ensemble_weights(df: DataFlow, at: int, e: ast.AST) -> bool:
    """is `e` the weights component (second element) of the value of _unpack_distributions(...)?"""
    e, at = peel(df, at, e)
    if isinstance(e, ast.Subscript) and isinstance(e.value, ast.Call) and (call_name(e.value) or "").endswith(
            "_unpack_distributions"):
        i = e.slice
        return isinstance(i, ast.Constant) and i.value == 1 or (
            isinstance(i, ast.UnaryOp) and isinstance(i.op, ast.USub) and isinstance(i.operand, ast.Constant)
            and i.operand.value == 1)
    if isinstance(e, ast.Name):
        rd = df.reaching(at, e.id)
        if not rd:
            return False
        for d in rd:
            st = df.cfg.nodes[d.node].ast
            if not (d.kind == "assign" and isinstance(st, ast.Assign) and isinstance(st.value, ast.Call)
                    and (call_name(st.value) or "").endswith("_unpack_distributions")
                    and isinstance(st.targets[0], (ast.Tuple, ast.List)) and len(st.targets[0].elts) == 2
                    and dotted(st.targets[0].elts[1]) == e.id):
                return False
        return True
    return False


def _strip_ensemble_weights(df: DataFlow, at: int, e: ast.AST):
    """`weights * X` / `X * weights` (through temporaries) -> X: the member's own transfer function"""
    for _ in range(6):
        v, at_v = peel(df, at, e)
        if isinstance(v, ast.BinOp) and isinstance(v.op, ast.Mult):
            if _is_ensemble_weights(df, at_v, v.left):
                e, at = v.right, at_v
                continue
            if _is_ensemble_weights(df, at_v, v.right):
                e, at = v.left, at_v
                continue
        break
    return e, at


def _envelope(ctx, repo, cname: str, leaf_factory=None):
    f = repo.method(MOD, cname, "_evaluate_from_angular_grid")
    alpha = f.positional_params[1]
    df = DataFlow(f.node)
    ret = single_return(f)
    at = df.cfg.node_of(ret).idx
    leaf = leaf_factory(df, f) if leaf_factory else None
    ie = IntervalEval(df, leaf=leaf, zero_names=lambda name, node: name == alpha)
    # the ensemble weights of a distribution-valued spread multiply the member, they are not part of the envelope
    value, at = _strip_ensemble_weights(df, at, ret.value)
    prove(ctx, "R-INTERVAL", f"{f.qualname}:return", f.loc(ret), ie, ie.ev(value, at), UNIT, f"{cname} value",
          "the exponent must be minus a product of squares (and of sign(spread)*spread**2 for a non-negative spread)",
          "range")
    e, at2 = peel(df, at, value)
    ctx.require(isinstance(e, ast.Call) and last_attr(e) == "exp" and len(e.args) == 1,
                f"{f.qualname}: returned value `{norm_text(e)[:50]}` is not exp(...)")
    arg = e.args[0]
    iv = ie.ev(arg, at2)
    prove(ctx, "R-INTERVAL", f"{f.qualname}:exponent", f.loc(e), ie, iv, (-INF, 0.0), f"{cname} exponent",
          "a positive exponent makes the envelope amplify", "exponent")
    ctx.check(ie.vanishes(arg, at2), "R-ORIGIN", f"{f.qualname}:exponent", f.loc(e),
              f"every term of the exponent carries a positive power of {alpha}: envelope = 1 at zero angle",
              f"the exponent of {cname} does not vanish identically at {alpha} = 0 (some term lacks a positive power of "
              f"{alpha}): the envelope is not 1 at zero scattering angle", key_detail="origin")


def _spread_leaf(df: DataFlow, f):
    """Hypothesis of the property: the angular spread is non-negative.  Maps `self.angular_spread` and the
    element of the unpacked distribution tuple that corresponds to it to [0, +inf)."""
    names = ("self.angular_spread", "self._angular_spread")

    def leaf(e, at):
        if at < 0:
            return None
        if dotted(e) in names:
            return (0.0, INF)
        if isinstance(e, ast.Subscript) and isinstance(e.value, ast.Name) and not isinstance(e.slice, ast.Slice):
            d = df.single_def(at, e.value.id)
            if d is None:
                return None
            st = df.cfg.nodes[d.node].ast
            if not (isinstance(st, ast.Assign) and isinstance(st.value, ast.Call) and
                    last_attr(st.value) == "_unpack_distributions"):
                return None
            tgt = st.targets[0]
            if not (isinstance(tgt, (ast.Tuple, ast.List)) and dotted(tgt.elts[0]) == e.value.id):
                raise AnalysisError(f"{f.qualname}: `{e.value.id}` is not the value tuple of _unpack_distributions")
            idx = e.slice
            k = None
            if isinstance(idx, ast.UnaryOp) and isinstance(idx.op, ast.USub) and isinstance(idx.operand, ast.Constant):
                k = -idx.operand.value
            if k is None or k >= 0:
                raise AnalysisError(f"{f.qualname}: cannot tell which distribution `{norm_text(e)}` is")
            call = st.value
            seq = None
            if len(call.args) == 1 and isinstance(call.args[0], ast.Starred):
                seq, at3 = peel(df, d.node, call.args[0].value)
            if isinstance(seq, ast.BinOp) and isinstance(seq.op, ast.Add) and isinstance(seq.right, ast.Tuple) and \
                    -k <= len(seq.right.elts):
                el = seq.right.elts[k]
                if dotted(el) in names:
                    return (0.0, INF)
                return None
            raise AnalysisError(f"{f.qualname}: cannot tell which distribution `{norm_text(e)}` is")
        return None

    return leaf


# ---------------------------------------------------------------------------------------------
def _aberrations_unit(ctx, repo):
    f = repo.method(MOD, "Aberrations", "_evaluate_from_angular_grid")

    def hook(nz, call):
        if last_attr(call) == "complex_exponential" and len(call.args) == 1:
            return Poly.atom("⟦unit-phase⟧")
        return None

    sx = SymExec(f.node, call_hook=hook, policy=lambda st, env: "true" if (
        isinstance(st.test, ast.Call) and call_name(st.test) == "self._nonzero_coefficients") else "both")
    res = sx.run()
    ctx.require(bool(res) and not sx.fallthrough, f"{f.qualname}: a path ends without returning a kernel")
    weighted = 0
    reported = set()
    for r in res:
        v = r.value
        if v == Poly.const(1) or v == Poly.atom("⟦unit-phase⟧"):
            if v.key() not in reported:
                reported.add(v.key())
                ctx.ok("R-COMPOSE", f"{f.qualname}:return {'ones' if v.is_const() else 'phase'}", f.loc(r.stmt),
                       "unit modulus")
        elif v.is_monomial() and dict(next(iter(v.terms))).get("⟦unit-phase⟧") == 1:
            weighted += 1
        else:
            ctx.violation("R-COMPOSE", f"{f.qualname}:return", f.loc(r.stmt),
                          f"returned kernel {v.key()[:80]} is neither ones nor a complex exponential: the phase "
                          "factor does not have unit modulus", key_detail="unit")
    if weighted:
        ctx.info("R-COMPOSE", f"{f.qualname}:weights", f.where,
                 f"{weighted} path(s) multiply the phase factor by ensemble weights (distributions of coefficients); "
                 "not covered by the bound")


def _ctf(ctx, repo):
    f = repo.method(MOD, "CTF", "_evaluate_from_angular_grid")
    ps = f.positional_params
    alpha, phi = ps[1], ps[2]
    classes = {"_aberrations": "Aberrations", "_spatial_envelope": "SpatialEnvelope",
               "_temporal_envelope": "TemporalEnvelope", "_aperture": "Aperture"}
    passthrough = {"_aperture": ("semiangle_cutoff",), "_spatial_envelope": ("angular_spread", "aberration_coefficients"),
                   "_temporal_envelope": ("focal_spread",), "_aberrations": ("aberration_coefficients",)}
    for pname, cname in classes.items():
        p = repo.method(MOD, "CTF", pname)
        ret = single_return(p)
        v = ret.value
        good = isinstance(v, ast.Call) and call_name(v) == cname
        probs = []
        if not good:
            probs.append(f"returns `{norm_text(v)[:50]}`, not {cname}(...)")
        else:
            kws = {k.arg: k.value for k in v.keywords if k.arg}
            callee_init = repo.method(MOD, cname, "__init__")
            bound = bind_args(v, callee_init, skip_self=True)
            for kwn in passthrough[pname]:
                a = bound.get(kwn)
                if a is None or dotted(a) not in (f"self.{kwn}", f"self._{kwn}"):
                    probs.append(f"{kwn} = `{norm_text(a) if a is not None else 'default'}`, expected self.{kwn}")
        ctx.check(not probs, "R-COMPOSE", f"{p.qualname}:component", p.where,
                  f"{cname} built from the CTF's own {', '.join(passthrough[pname])}", "; ".join(probs),
                  key_detail="component")

    def hook(nz, call):
        if isinstance(call.func, ast.Attribute) and call.func.attr == "_evaluate_from_angular_grid":
            recv = dotted(call.func.value)
            if recv and recv.startswith("self.") and recv[5:] in classes:
                a = [nz.norm(x) for x in call.args]
                if a[:2] != [Poly.atom(alpha), Poly.atom(phi)]:
                    raise AnalysisError(f"{f.qualname}: component {recv} evaluated on other arguments than (alpha, phi)")
                return Poly.atom(f"⟦{recv[5:]}⟧")
        return None

    sx = SymExec(f.node, call_hook=hook)
    res = sx.run()
    ctx.require(bool(res) and not sx.fallthrough, f"{f.qualname}: a path ends without returning a kernel")

    def finite_test(t):
        if isinstance(t, ast.Compare) and len(t.ops) == 1 and isinstance(t.ops[0], (ast.Eq, ast.NotEq)):
            for x, y in ((t.left, t.comparators[0]), (t.comparators[0], t.left)):
                if _is_inf(y) and dotted(x) in ("self._aperture.semiangle_cutoff", "self.semiangle_cutoff",
                                                            "self._semiangle_cutoff"):
                    return isinstance(t.ops[0], ast.NotEq)
        return None

    def filter_active(conds):
        for test, taken in conds:
            t, neg = test, False
            while isinstance(t, ast.UnaryOp) and isinstance(t.op, ast.Not):
                t, neg = t.operand, not neg
            flag = None
            if dotted(t) in ("self._wiener_snr", "self.wiener_snr", "self._flip_phase", "self.flip_phase"):
                flag = True
            elif isinstance(t, ast.Compare) and len(t.ops) == 1 and isinstance(t.ops[0], (ast.Eq, ast.NotEq)) and any(
                    dotted(x) in ("self._wiener_snr", "self.wiener_snr") for x in (t.left, t.comparators[0])):
                flag = isinstance(t.ops[0], ast.NotEq)
            if flag is not None and ((flag != neg) == taken):
                return True
        return False

    n_default = 0
    n_filter = 0
    shapes = set()
    for r in res:
        v = r.value
        if filter_active(r.conds):
            n_filter += 1
            continue
        n_default += 1
        probs = []
        if not v.is_monomial():
            probs.append(f"kernel {v.key()[:80]} is not a pure product of component kernels")
        else:
            (mono, coef), = v.terms.items()
            if abs(coef) > 1:
                probs.append(f"kernel carries the constant factor {coef} > 1")
            exps = dict(mono)
            unknown = [a for a in exps if not (a.startswith("⟦") and a[1:-1] in classes)]
            if unknown:
                raise AnalysisError(f"{f.qualname}: unrecognised factor {unknown[:2]} in the kernel")
            neg = [a for a, e in exps.items() if e < 0 or e.denominator != 1]
            if neg:
                probs.append(f"kernel divides by {neg}: an envelope or aperture <= 1 in the denominator amplifies")
            finite = cond_matches(r.conds, finite_test)
            if finite is not False and exps.get("⟦_aperture⟧", 0) < 1:
                probs.append("the aperture kernel is not a factor on a path where the cutoff may be finite: the CTF "
                             "transmits beyond its aperture")
            shapes.add(v.key())
        if probs:
            ctx.violation("R-COMPOSE", f"{f.qualname}:kernel", f.loc(r.stmt), "; ".join(probs),
                          key_detail="kernel-" + v.key()[:60])
    ctx.require(n_default >= 1, f"{f.qualname}: no unfiltered return path found")
    for s in sorted(shapes):
        ctx.ok("R-COMPOSE", f"{f.qualname}:kernel {s}", f.where,
               "product of unit-modulus phase, envelopes <= 1 and the aperture")
    if n_filter:
        ctx.info("R-COMPOSE", f"{f.qualname}:post-filters", f.where,
                 f"{n_filter} path(s) apply the Wiener / phase-flip post-filters (flags outside the property's quantifier); "
                 "note (1+1/snr)*a**2/(a**2+1/snr) exceeds a soft-aperture value a for 1/snr < a < 1")


def run(ctx) -> None:
    repo = ctx.repo
    ctx.rule("R-INTERVAL", "interval abstract interpretation with flow-sensitive names: the values returned by "
             "soft_aperture, hard_aperture, TemporalEnvelope and SpatialEnvelope lie in [0, 1]; the envelope exponents "
             "lie in (-inf, 0] (SpatialEnvelope under the property's hypothesis angular_spread >= 0).  For a "
             "distribution-valued spread the kernel returns ensemble weight x envelope (C03); the envelope is the returned "
             "value with the weights factor — recognised by its origin, the second component of _unpack_distributions — "
             "taken off")
    ctx.rule("R-SOFTEDGE", "soft_aperture's ramp is clip((cutoff - alpha) / (s * pixel) + 1/2, 0, 1) with pixel = "
             "sqrt((cos(phi)*sampling[0])**2 + (sin(phi)*sampling[1])**2): 1 below cutoff - pixel/2, 0 above "
             "cutoff + pixel/2")
    ctx.rule("R-HARDEDGE", "hard_aperture is the cast of `alpha <= cutoff` (inclusive, in this orientation)")
    ctx.rule("R-DISPATCH", "Aperture._evaluate_from_angular_grid returns only soft_aperture(...), hard_aperture(...) or "
             "ones (the latter only for an infinite cutoff), passes alpha/phi through and converts cutoff and pixel "
             "size from mrad to rad with one common factor")
    ctx.rule("R-ORIGIN", "both envelope exponents vanish identically at alpha = 0 (every additive term carries a "
             "positive power of alpha), hence the envelopes equal 1 at zero scattering angle")
    ctx.rule("R-COMPOSE", "on every path of CTF._evaluate_from_angular_grid without post-filter the kernel is a pure "
             "product, with constant factor <= 1 and no division, of the Aberrations kernel (unit modulus: ones or "
             "complex_exponential), envelope kernels and - whenever the cutoff may be finite - the Aperture kernel; "
             "the components are built from the CTF's own parameters")
    ctx.assume("angular_spread >= 0 (hypothesis stated in the property)")
    ctx.undecided("Wiener filter and phase flipping (flags outside the property's quantifier)")
    ctx.undecided("ensemble weights multiplied onto the aberration phase factor")
    ctx.undecided("that alpha handed to the kernels is in radians and >= 0 (BaseTransferFunction._angular_grid)")

    scale = _soft(ctx, repo)
    _hard(ctx, repo)
    _aperture_dispatch(ctx, repo, scale)
    _envelope(ctx, repo, "TemporalEnvelope")
    _envelope(ctx, repo, "SpatialEnvelope", _spread_leaf)
    _aberrations_unit(ctx, repo)
    _ctf(ctx, repo)


# ---- added after the seeded change C23-seed1: CTF components receive every kernel parameter the CTF owns
_inner_run_c23 = run


def run(ctx) -> None:  # noqa: F811
    import ast as _ast

    from ..model import ClassInfo as _CI, dotted as _dotted, norm_text as _nt, walk_no_nested as _walk
    from ..rules import recon as _recon

    ctx.rule("R-COMPONENT-PARAMS", "each component a CTF builds (aperture, envelopes, aberrations) receives every "
             "constructor parameter that the component's kernel reads (self.<p> in its _evaluate_from_angular_grid) and "
             "that the CTF itself owns under the same name, from the CTF's own value: a CTF(soft=False) whose aperture "
             "component silently uses the default soft edge transmits more than Aperture(cutoff, soft=False)")
    repo = ctx.repo
    ctf = repo.cls("abtem.transfer", "CTF")
    ctf_params = set(_recon.ctor_params(repo, ctf) or [])
    n = 0
    for prop in ("_aperture", "_aberrations", "_spatial_envelope", "_temporal_envelope"):
        f = ctf.find_method(prop)
        ctx.require(f is not None, f"CTF.{prop} not found")
        rets = [r for r in _walk(f.node) if isinstance(r, _ast.Return) and isinstance(r.value, _ast.Call)]
        ctx.require(len(rets) == 1, f"CTF.{prop}: constructor call not found")
        call = rets[0].value
        comp = repo.resolve_name(f.module, _dotted(call.func) or "")
        ctx.require(isinstance(comp, _CI), f"CTF.{prop}: component class not resolved")
        kernel = comp.find_method("_evaluate_from_angular_grid")
        ctx.require(kernel is not None, f"{comp.name}: kernel not found")
        comp_params = set(_recon.ctor_params(repo, comp) or [])
        reads = {a.attr.lstrip("_") for a in _ast.walk(kernel.node) if isinstance(a, _ast.Attribute)
                 and isinstance(a.value, _ast.Name) and a.value.id == "self"}
        needed = sorted((reads & comp_params & ctf_params) - {"extent", "gpts", "sampling"})
        passed = {kw.arg: kw.value for kw in call.keywords if kw.arg}
        for p in needed:
            n += 1
            v = passed.get(p)
            ok = v is not None and _dotted(v) in (f"self.{p}", f"self._{p}")
            ctx.check(ok, "R-COMPONENT-PARAMS", f"{ctf.qualname}.{prop}:{p}", f.loc(call),
                      f"{comp.name} receives {p} from the CTF",
                      f"CTF.{prop} builds {comp.name}(...) without passing `{p}` from the CTF "
                      f"({'passes ' + _nt(v) if v is not None else 'not passed: the component uses its default'}), although "
                      f"{comp.name}'s kernel reads self.{p}", key_detail=p)
    ctx.require(n >= 4, f"R-COMPONENT-PARAMS matched only {n} parameters")
    _inner_run_c23(ctx)


# ---- added after the seeded change C23-r2seed6: kernels do not write the angular grids they are handed
_inner_run_c23b = run


def run(ctx) -> None:  # noqa: F811
    import ast as _ast

    from ..model import norm_text as _nt, walk_no_nested as _walk
    from ..rules.arrayown import Ownership

    ctx.rule("R-ARGPURE", "the kernels of abtem/transfer.py (_evaluate_from_angular_grid of every transfer-function "
             "class, soft_aperture, hard_aperture) never write the arrays they are handed: every in-place site "
             "(augmented assignment, subscript store, out= keyword, .fill/.sort/.put) operates on a buffer the "
             "function owns (ownership classes of sa/rules/arrayown.py: a copy, an allocation or the result of "
             "arithmetic), never on (a view of) a parameter — CTF._evaluate_from_angular_grid hands one and the same "
             "alpha/phi to the aperture, the envelopes and the aberrations, so a kernel that squares alpha in place "
             "changes what the next component sees")
    repo = ctx.repo
    own = Ownership(repo, max_candidates=20)  # all kernels named _evaluate_from_angular_grid are followed
    mod = repo.modules["abtem.transfer"]
    kernels = [f for c in mod.classes.values() for defs in c.methods.values() for f in defs
               if f.name == "_evaluate_from_angular_grid" and not f.is_abstract]
    kernels += [repo.function("abtem.transfer", n) for n in ("soft_aperture", "hard_aperture")]
    ctx.require(len(kernels) >= 6, f"R-ARGPURE found only {len(kernels)} kernels")
    for f in kernels:
        df = own.df_of(f)
        sites = []  # (stmt, root name, description)
        for node in df.cfg.nodes:
            st = node.ast
            if st is None or node.kind != "stmt":
                continue
            if isinstance(st, _ast.AugAssign):
                r = st.target
                while isinstance(r, (_ast.Subscript, _ast.Attribute)):
                    r = r.value
                if isinstance(r, _ast.Name):
                    sites.append((node.idx, st, r.id, _nt(st)[:60]))
            if isinstance(st, _ast.Assign):
                for t in st.targets:
                    if isinstance(t, _ast.Subscript):
                        r = t
                        while isinstance(r, (_ast.Subscript, _ast.Attribute)):
                            r = r.value
                        if isinstance(r, _ast.Name):
                            sites.append((node.idx, st, r.id, _nt(st)[:60]))
            for c in _walk(st):
                if isinstance(c, _ast.Call):
                    for k in c.keywords:
                        if k.arg == "out":
                            for nm in (x for x in _ast.walk(k.value) if isinstance(x, _ast.Name)):
                                sites.append((node.idx, st, nm.id, _nt(c)[:60]))
                    if isinstance(c.func, _ast.Attribute) and c.func.attr in ("fill", "sort", "put", "itemset", "resize") \
                            and isinstance(c.func.value, _ast.Name):
                        sites.append((node.idx, st, c.func.value.id, _nt(c)[:60]))
        bad = []
        for idx, st, name, text in sites:
            if name == "self":
                continue
            # ownership of the written variable just before the statement (an AugAssign re-defines it weakly)
            classes = own.classify(f, idx, name)
            params = sorted(c for c in classes if c.startswith("PARAM:") and c != "PARAM:self")
            if params:
                bad.append((st, text, params))
        ctx.check(not bad, "R-ARGPURE", f"{f.qualname}:arguments untouched", f.loc(bad[0][0]) if bad else f.where,
                  f"{len(sites)} in-place site(s), none on (a view of) a parameter",
                  f"`{bad[0][1]}` writes in place into (a view of) the argument {bad[0][2]}: the caller's angular grid is "
                  "changed, and the CTF passes the same grid on to its other components" if bad else "",
                  key_detail="argpure")
    _inner_run_c23b(ctx)


# ---- added: both aperture kernels give a distribution of cutoffs its own leading axis (found on the tree)
_inner_run_c23c = run


def run(ctx) -> None:  # noqa: F811
    import ast as _ast

    from ..cfg import DataFlow as _DF
    from ..model import call_name as _cn, norm_text as _nt, walk_no_nested as _walk

    ctx.rule("R-CUTOFFAXIS", "sibling agreement of soft_aperture and hard_aperture: the cutoff that is compared with / "
             "subtracted from alpha is the first result of expand_dims_to_broadcast(<cutoff>, <alpha>) — a 1-d array "
             "of cutoffs (a distribution) gets its own leading axis in front of the angular grid.  Comparing the raw "
             "cutoff array with the 2-d grid raises for most lengths and broadcasts along the last grid axis when the "
             "length happens to equal gpts[1]")
    repo = ctx.repo
    for name in ("soft_aperture", "hard_aperture"):
        f = repo.function("abtem.transfer", name)
        df = _DF(f.node)
        alpha = f.positional_params[0]
        cut = next((p for p in f.positional_params if "cutoff" in p), None)
        ctx.require(cut is not None, f"{f.qualname}: cutoff parameter not found")
        calls = [c for c in _walk(f.node) if isinstance(c, _ast.Call) and _cn(c) == "expand_dims_to_broadcast"
                 and len(c.args) >= 2]
        ok = False
        for c in calls:
            st = next(s for s in _walk(f.node) if isinstance(s, _ast.stmt) and any(x is c for x in _ast.walk(s))
                      and not isinstance(s, (_ast.If, _ast.For, _ast.With, _ast.Try, _ast.FunctionDef)))
            at = df.cfg.node_of(st).idx
            s0 = df.backward_slice(at, c.args[0])
            s1 = df.backward_slice(at, c.args[1])
            if cut in s0.params and alpha in s1.params and phi_free(s1, f):
                ok = True
        # equivalent idioms: cutoff[:, None, None], xp.expand_dims(cutoff, ...), cutoff.reshape(-1, 1, 1)
        for n_ in _walk(f.node):
            tgt = None
            if isinstance(n_, _ast.Subscript):
                idx = n_.slice.elts if isinstance(n_.slice, _ast.Tuple) else [n_.slice]
                if any(isinstance(i_, _ast.Constant) and i_.value is None for i_ in idx):
                    tgt = n_.value
            elif isinstance(n_, _ast.Call) and (_cn(n_) or "").split(".")[-1] in ("expand_dims", "reshape") and (
                    n_.args or isinstance(n_.func, _ast.Attribute)):
                tgt = n_.args[0] if (_cn(n_) or "").split(".")[-1] == "expand_dims" or not isinstance(
                    n_.func, _ast.Attribute) or (_cn(n_) or "").split(".")[0] in ("np", "xp") else n_.func.value
            if tgt is not None:
                st_ = next((s_ for s_ in _walk(f.node) if isinstance(s_, _ast.stmt) and any(x is n_ for x in _ast.walk(s_))
                            and not isinstance(s_, (_ast.If, _ast.For, _ast.With, _ast.Try, _ast.FunctionDef))), None)
                if st_ is not None and cut in df.backward_slice(df.cfg.node_of(st_).idx, tgt).params:
                    ok = True
        ctx.check(ok, "R-CUTOFFAXIS", f"{f.qualname}:cutoff broadcast against alpha", f.where,
                  "the cutoff is expanded against the angular grid with expand_dims_to_broadcast",
                  f"{name} never calls expand_dims_to_broadcast(<{cut}>, <{alpha}>): an array of cutoffs is compared "
                  "with the 2-d angular grid as it is — a distribution of cutoffs raises or, for len == gpts[1], is "
                  "broadcast along a grid axis", key_detail="cutoff-axis")
    _inner_run_c23c(ctx)


def phi_free(sl, f) -> bool:
    """the second operand is the radial grid (alpha), not the azimuth"""
    return not any(p.startswith("phi") for p in sl.params)


# ---- added after the mutation sweep: no kernel divides by a quantity that can vanish
_inner_run_c23d = run

_FINITE_EXCLUDED = {"Bullseye": "nested helper functions and loops; its divisors are constructor parameters whose "
                                "domains are not stated", "CTF": "divides only inside the Wiener post-filter (outside "
                                "the property's quantifier)"}


def run(ctx) -> None:  # noqa: F811
    from ..rules.divisors import NONZERO, VANISHES, DivisorAnalysis

    ctx.rule("R-FINITE", "the envelope, aberration and aperture kernels of abtem/transfer.py never divide by a quantity "
             "that can vanish for a legitimate input: every divisor (of /, //, %, /=, divide(), reciprocal(), **-k) is "
             "provably non-zero — a non-zero constant, the electron wavelength (positive, C24), exp(...), a value range "
             "excluding 0, a value guarded by a dominating test — and never one for which a zero is exhibited: a value "
             "that is 0 at the optical axis alpha = phi = 0 with all distribution parameters (aberration coefficients "
             "and angles, focal and angular spread) at their default 0, a sine / cosine of a free argument, or a boolean "
             "array.  A division by zero yields inf or nan, which is neither inside [0, 1] nor bounded by the aperture; "
             "the interval rule R-INTERVAL cannot see it because inf**2 and nan are absorbed by the squares")
    ctx.assume("the electron wavelength is positive (property C24)")
    repo = ctx.repo
    mod = repo.modules["abtem.transfer"]
    kernels = []
    for c in mod.classes.values():
        for defs in c.methods.values():
            for f in defs:
                if f.name == "_evaluate_from_angular_grid" and not f.is_abstract and c.name not in _FINITE_EXCLUDED:
                    kernels.append(f)
    kernels.append(repo.function("abtem.transfer", "hard_aperture"))
    ctx.require(len(kernels) >= 8, f"R-FINITE found only {len(kernels)} kernels")
    undecided = []
    n_div = 0
    for f in kernels:
        ps = f.positional_params
        grid = set(ps[1:3]) if ps and ps[0] == "self" else set(ps[:1])
        df = DataFlow(f.node)
        da = DivisorAnalysis(df, grid, lambda e: dotted(e) in ("self.wavelength", "self._wavelength"))
        sites, lost = da.sites()
        if lost:
            undecided.append(f"{f.qualname}: {lost} division(s) inside a nested function / lambda")
        bad = []
        for at, d, whole in sites:
            n_div += 1
            verdict, why = da.classify(at, d)
            if verdict == VANISHES and _patched_afterwards(f, df, at, whole):
                # divide-then-repair idioms (x / alpha followed by x[origin] = 1, where(mask, a / b, c), nan_to_num)
                # are correct alternative implementations this rule cannot judge
                undecided.append(f"{f.qualname}: `{norm_text(whole)[:50]}` divides by a vanishing quantity but the result "
                                 "is repaired afterwards (masked store / where / nan_to_num)")
            elif verdict == VANISHES:
                bad.append((whole, why))
            elif verdict != NONZERO:
                undecided.append(f"{f.qualname}: cannot decide whether the divisor `{why}` can vanish")
        ctx.check(not bad, "R-FINITE", f"{f.qualname}:divisors", f.loc(bad[0][0]) if bad else f.where,
                  f"{len(sites)} division(s), every divisor provably non-zero",
                  (f"`{norm_text(bad[0][0])[:70]}` divides by a quantity that can vanish: {bad[0][1]} — the kernel becomes "
                   "inf / nan there") if bad else "", key_detail="finite")
    ctx.require(n_div >= 8, f"R-FINITE examined only {n_div} divisions")
    # an undecided divisor must not pre-empt a violation found by the rules below: raised after they have run
    _inner_run_c23d(ctx)
    if undecided:
        raise AnalysisError("R-FINITE: " + "; ".join(undecided[:3]))


# ---- added after the mutation sweep: every aperture kernel compares alpha [rad] with its cutoffs in rad
_inner_run_c23e = run


def run(ctx) -> None:  # noqa: F811
    from ..model import ClassInfo
    from ..terms import FlowNormalizer

    ctx.rule("R-CUTOFFUNIT", "sibling agreement of the aperture kernels (every non-abstract _evaluate_from_angular_grid of "
             "a BaseAperture subclass): the angular grid alpha is in radians while the aperture parameters "
             "(semiangle_cutoff, inner / hole cutoffs, central shift) are in mrad, so wherever a value derived from a "
             "parameter `self.<p>` meets a value derived from alpha — as the other operand of a comparison, or as the "
             "cutoff argument of soft_aperture / hard_aperture — it must be exactly 1/1000 * self.<p> (term normal form "
             "with single definitions inlined).  A cutoff left in mrad or multiplied by 1000 keeps every value inside "
             "[0, 1] but the aperture is no longer 0 beyond its cutoff")
    repo = ctx.repo
    base = repo.cls(MOD, "BaseAperture")
    soft = repo.function(MOD, "soft_aperture")
    hard = repo.function(MOD, "hard_aperture")
    kernels = []
    for c in repo.modules[MOD].classes.values():
        if isinstance(c, ClassInfo) and c is not base and base in c.mro() and c.name != "CTF":
            f = c.own_method("_evaluate_from_angular_grid")
            if f is not None and not f.is_abstract:
                kernels.append(f)
    ctx.require(len(kernels) >= 5, f"R-CUTOFFUNIT found only {len(kernels)} aperture kernels")
    milli = Fraction(1, 1000)
    n_sinks = 0
    pending = []
    for f in kernels:
        alpha = f.positional_params[1]
        df = DataFlow(f.node)
        sinks = []  # (node idx, parameter-side expression, description)
        for node in df.cfg.nodes:
            st = node.ast
            if st is None or node.kind not in ("stmt", "test"):
                continue
            root = st.test if node.kind == "test" else st
            if isinstance(root, (ast.FunctionDef, ast.ClassDef)):
                continue
            for n in walk_no_nested(root):
                if isinstance(n, ast.Compare) and len(n.ops) == 1:
                    l, r = n.left, n.comparators[0]
                    for a, b in ((l, r), (r, l)):
                        if _value_depends(df, node.idx, a, alpha) and not _value_depends(df, node.idx, b, alpha):
                            sinks.append((node.idx, b, "compared with the angular grid"))
                elif isinstance(n, ast.Call) and call_name(n) in ("soft_aperture", "hard_aperture"):
                    callee = soft if call_name(n) == "soft_aperture" else hard
                    bound = bind_args(n, callee)
                    cut = next((p for p in callee.positional_params if "cutoff" in p), None)
                    if cut is None or cut not in bound:
                        raise AnalysisError(f"{f.qualname}: cutoff argument of {call_name(n)} not found")
                    sinks.append((node.idx, bound[cut], f"passed as the cutoff of {call_name(n)}"))
        bad = []
        n_here = 0
        for at, e, what in sinks:
            poly = FlowNormalizer(df, at).norm(e)
            attrs = {a for m in poly.terms for a, _ in m if a.startswith("self.")}
            if not attrs:
                continue  # a constant (`... < 0.0`) or a value without a parameter in it
            n_here += 1
            shape_ok = all(len(m) == 1 and m[0][0].startswith("self.") and m[0][1] == 1 for m in poly.terms)
            if not shape_ok:
                pending.append(f"{f.qualname}: `{norm_text(e)[:40]}` ({what}) normalises to {poly.key()[:60]}, not to a "
                               "multiple of one parameter")
                continue
            for m, coef in poly.terms.items():
                if coef != milli:
                    bad.append((e, what, m[0][0], coef))
        n_sinks += n_here
        if not sinks or not n_here:
            ctx.info("R-CUTOFFUNIT", f"{f.qualname}:cutoffs", f.where,
                     "no parameter meets the angular grid in a comparison or an aperture call; not decided here")
            continue
        ctx.check(not bad, "R-CUTOFFUNIT", f"{f.qualname}:cutoffs in rad", f.loc(bad[0][0]) if bad else f.where,
                  f"{n_here} parameter value(s) meeting alpha, each exactly 1/1000 * self.<p>",
                  (f"`{norm_text(bad[0][0])[:40]}`, {bad[0][1]}, is {bad[0][3]} * {bad[0][2]} instead of 1/1000 * "
                   f"{bad[0][2]}: alpha is in rad and {bad[0][2]} in mrad, the aperture edge sits at the wrong angle") if bad else "",
                  key_detail="mrad-" + (bad[0][2].split(".")[-1].lstrip("_") if bad else ""))
    ctx.require(n_sinks >= 6, f"R-CUTOFFUNIT examined only {n_sinks} parameter values")
    _inner_run_c23e(ctx)
    if pending:
        raise AnalysisError("R-CUTOFFUNIT: " + "; ".join(pending[:2]))


def _value_depends(df: DataFlow, at: int, e: ast.AST, param: str) -> bool:
    """Does the VALUE of `e` depend on the parameter?  Like a backward slice, except that a local bound to
    get_array_module(...) (the array-module handle `xp`) carries no value of its argument: `xp.inf` and
    `xp.zeros(3)` do not depend on alpha although `xp = get_array_module(alpha)`."""
    from ..cfg import uses_of

    seen: set = set()

    def var(v: str, node: int) -> bool:
        if (v, node) in seen:
            return False
        seen.add((v, node))
        rd = df.reaching(node, v)
        for d in rd:
            if d.kind == "param":
                if v == param:
                    return True
                continue
            if isinstance(d.value, ast.Call) and (call_name(d.value) or "").split(".")[-1] == "get_array_module":
                continue
            for u in df.def_value_uses(d):
                if var(u, d.node):
                    return True
            if not d.strong and var(v, d.node):
                return True
        return False

    return any(var(v, at) for v in uses_of(e, df.selfname))


def _patched_afterwards(f, df: DataFlow, at: int, division: ast.AST) -> bool:
    """The quotient is an argument of where()/nan_to_num(), or the variable it is assigned to (or one computed from
    it) later receives a subscript store: the inf / nan may be repaired before the kernel is returned."""
    st = df.cfg.nodes[at].ast
    for c in walk_no_nested(st):
        if isinstance(c, ast.Call) and last_attr(c) in ("where", "nan_to_num", "select", "piecewise") and any(
                x is division for a in list(c.args) + [k.value for k in c.keywords] for x in ast.walk(a)):
            return True
    targets = set()
    if isinstance(st, ast.Assign):
        targets = {n.id for t in st.targets for n in ast.walk(t) if isinstance(n, ast.Name)}
    elif isinstance(st, ast.AugAssign):
        targets = {n.id for n in ast.walk(st.target) if isinstance(n, ast.Name)}
    if not targets:
        return False
    for d in df.defs:
        if d.kind != "store" or not df.cfg.dominates(at, d.node):
            continue
        if d.var in targets or targets & df.backward_slice(d.node, ast.Name(id=d.var, ctx=ast.Load())).visited:
            return True
    for c in walk_no_nested(f.node):
        if isinstance(c, ast.Call) and last_attr(c) == "nan_to_num" and targets & {
                n.id for a in c.args for n in ast.walk(a) if isinstance(n, ast.Name)}:
            return True
    return False


# ---- added after the seeded change C23-r6seed1: the angular grid is computed from the state of the waves
_inner_run_c23f = run

_KERNEL = "_evaluate_from_angular_grid"


def run(ctx) -> None:  # noqa: F811
    from ..rules import deferred

    ctx.rule("R-ENERGYMATCH", "the angular grid a transfer function is evaluated on belongs to the waves it is applied to. "
             "The slots of the component objects (Accelerator.energy; Grid.gpts / sampling / extent) that the computation "
             "of alpha and the kernels transitively read are derived from the code (properties followed through the "
             "MRO and into the components).  In the method of BaseTransferFunction that evaluates the kernel for given "
             "waves (the one calling self._evaluate_from_angular_grid), (1) on every path on which waves are given, a "
             "synchroniser call (`<component>.match(<waves>)`, directly or through a delegating method) covering each "
             "such slot is executed before the statement that computes alpha (path-sensitive forward analysis; a branch "
             "on `waves is None` needs none); (2) the synchroniser establishes its post-condition: executed on the "
             "typestate receiver-slot unset/set x argument-slot unset/set x equal/different (sa/rules/syncmatch.py, all "
             "slots jointly, options as bound at the call site), every normally returning path leaves both objects with "
             "the same value whenever at least one was set — a path on which both are set, differ, and nothing is "
             "assigned or raised leaves a transfer function that was used before with its old energy: the cutoff in "
             "mrad is converted with the wrong wavelength and the aperture blocks angles inside / passes angles beyond "
             "its cutoff; (3) composed with the roles at the call site, the value both hold after a mismatch is the "
             "waves' one (the transfer function follows the waves, never the reverse)")
    ctx.assume("the waves object exposes its accelerator / grid under the same component names and classes as the "
               "transfer function (shared mixins HasAcceleratorMixin / HasGrid2DMixin); the coupled adjustments inside "
               "the Grid setters are not modelled by R-ENERGYMATCH (C17)")
    deferred.run(ctx, lambda: _energymatch(ctx), _inner_run_c23f)


def _none_facts(test: ast.AST, label: str, params: set) -> list:
    """[(param, is None?)] established by leaving `test` along the edge `label` ('T' / 'F')"""
    out = []
    if isinstance(test, ast.BoolOp):
        if isinstance(test.op, ast.And) and label == "T" or isinstance(test.op, ast.Or) and label == "F":
            for v in test.values:
                out += _none_facts(v, label, params)
        return out
    if isinstance(test, ast.UnaryOp) and isinstance(test.op, ast.Not):
        return _none_facts(test.operand, "F" if label == "T" else "T", params)
    if isinstance(test, ast.Name) and test.id in params:
        return [(test.id, label == "F")]
    if isinstance(test, ast.Compare) and len(test.ops) == 1 and isinstance(test.ops[0], (ast.Is, ast.IsNot, ast.Eq, ast.NotEq)):
        a, b = test.left, test.comparators[0]
        for x, y in ((a, b), (b, a)):
            if isinstance(x, ast.Name) and x.id in params and isinstance(y, ast.Constant) and y.value is None:
                positive = isinstance(test.ops[0], (ast.Is, ast.Eq))
                return [(x.id, positive == (label == "T"))]
    return out


def _node_exprs(df: DataFlow):
    """(node idx, expression root) for the statement and test nodes of a function"""
    for node in df.cfg.nodes:
        st = node.ast
        if st is None:
            continue
        if node.kind == "test" and isinstance(st, ast.If):
            yield node.idx, st.test
        elif node.kind == "stmt" and not isinstance(st, (ast.FunctionDef, ast.ClassDef, ast.AsyncFunctionDef)):
            yield node.idx, st
        elif node.kind in ("loop", "with"):
            raise AnalysisError("R-ENERGYMATCH: loops / with blocks in the kernel evaluation are not modelled")


def _sync_calls(repo, base, fn, tf_param: str, depth: int = 0):
    """Synchroniser calls between the transfer function (`tf_param`) and another parameter of `fn`.
    -> (records, opaque): records are dicts node / method / interp / tf_is ('recv'|'peer') / wroots / flags / call."""
    from ..rules import syncmatch as sm

    if depth > 2:
        raise AnalysisError(f"{fn.qualname}: delegation of the synchronisation is too deep")
    df = DataFlow(fn.node)
    params = set(fn.params)
    recs, opaque = [], []

    def roots(at, e):
        return set(df.backward_slice(at, e).params)

    def resolved(at, e):
        for _ in range(10):
            if isinstance(e, ast.Name):
                d = df.single_def(at, e.id)
                if d is not None and d.kind == "assign" and d.value is not None and isinstance(
                        df.cfg.nodes[d.node].ast, ast.Assign) and not isinstance(
                        df.cfg.nodes[d.node].ast.targets[0], (ast.Tuple, ast.List)):
                    e, at = d.value, d.node
                    continue
            break
        return e

    def flag_value(at, e, env):
        e = resolved(at, e)
        if isinstance(e, ast.Constant) and isinstance(e.value, bool):
            return e.value
        if isinstance(e, ast.Name) and e.id in params and df.single_def(at, e.id) is not None and \
                df.single_def(at, e.id).kind == "param":
            return ("param", e.id)
        raise AnalysisError(f"{fn.qualname}: cannot fold the option `{norm_text(e)[:40]}` of a synchroniser call")

    for at, root in _node_exprs(df):
        for c in walk_no_nested(root):
            if not (isinstance(c, ast.Call) and isinstance(c.func, ast.Attribute)):
                continue
            cargs = [a for a in c.args if not isinstance(a, ast.Starred)] + [k.value for k in c.keywords if k.arg]
            if not cargs:
                continue
            rr = roots(at, c.func.value)
            tf_args = [a for a in cargs if roots(at, a) == {tf_param}]
            w_args = [a for a in cargs if roots(at, a) and tf_param not in roots(at, a)]
            if rr == {tf_param} and w_args:
                tf_is, wroots = "recv", set().union(*[roots(at, a) for a in w_args])
            elif rr and tf_param not in rr and tf_args:
                tf_is, wroots = "peer", set(rr)
            else:
                continue
            rexpr = resolved(at, c.func.value)
            text = norm_text(c)[:60]
            if isinstance(rexpr, ast.Name):
                # a method of the object itself: follow one level of delegation (shared mixin methods)
                g = base.find_method(c.func.attr)
                if g is None or g.is_abstract or g.has_vararg or g.has_varkw or not g.positional_params:
                    opaque.append((at, text))
                    continue
                bound = bind_args(c, g, skip_self=True)
                g_self = g.positional_params[0]
                if tf_is == "recv":
                    g_tf = g_self
                else:
                    cand = [p for p, a in bound.items() if roots(at, a) == {tf_param}]
                    if len(cand) != 1:
                        opaque.append((at, text))
                        continue
                    g_tf = cand[0]
                inner, inner_opaque = _sync_calls(repo, base, g, g_tf, depth + 1)
                if inner_opaque or not inner:
                    # a callee that stores attributes might synchronise in a way that is not recognised
                    if inner_opaque or any(isinstance(s, ast.Attribute) and isinstance(s.ctx, ast.Store)
                                           for s in ast.walk(g.node)):
                        opaque.append((at, text))
                    continue
                for r in inner:
                    wr = set()
                    for q in r["wroots"]:
                        if q == g_self:
                            wr |= rr
                        elif q in bound:
                            wr |= roots(at, bound[q])
                    flags = {}
                    for k, v in r["flags"].items():
                        if isinstance(v, tuple):
                            if v[1] in bound:
                                v = flag_value(at, bound[v[1]], None)
                            elif isinstance(g.defaults().get(v[1]), ast.Constant) and isinstance(
                                    g.defaults()[v[1]].value, bool):
                                v = g.defaults()[v[1]].value
                            else:
                                raise AnalysisError(f"{g.qualname}: option `{v[1]}` of the synchroniser is not bound")
                        flags[k] = v
                    if wr and tf_param not in wr:
                        recs.append(dict(r, node=at, wroots=wr, flags=flags, call=c, via=g.qualname))
                continue
            comp = None
            for e in [rexpr] + [resolved(at, a) for a in cargs]:
                if isinstance(e, ast.Attribute):
                    comp = sm.component_class(repo, base, e.attr)
                    if comp is not None:
                        break
            if comp is None:
                opaque.append((at, text))
                continue
            m = comp.find_method(c.func.attr)
            if m is None:
                opaque.append((at, text))
                continue
            try:
                it = sm.SyncInterp(m)
            except AnalysisError:
                opaque.append((at, text))
                continue
            if it.n_store_sites == 0:
                continue  # a comparison of the two objects (check_match), not a synchroniser
            flags = {}
            for p, a in bind_args(c, m, skip_self=True).items():
                if p in it.flag_defaults:
                    flags[p] = flag_value(at, a, None)
            recs.append(dict(node=at, method=m, interp=it, comp=comp, tf_is=tf_is, wroots=wroots, flags=flags, call=c,
                             via=None))
    return recs, opaque


def _energymatch(ctx) -> None:
    from ..cfg import forward_states
    from ..model import ClassInfo
    from ..rules import syncmatch as sm

    repo = ctx.repo
    base = repo.cls(MOD, "BaseTransferFunction")
    own = {c.qualname for c in base.mro()}
    # slots of the transfer functions themselves (cutoffs, spreads, the CTF's component transfer functions) are
    # parameters of the kernel, not state shared with the waves
    tf_classes = own | {c.qualname for c in repo.all_classes() if base in c.mro()}
    entries = []
    for defs in base.methods.values():
        for f in defs:
            if f.is_abstract or not f.positional_params:
                continue
            sn = f.positional_params[0]
            if any(isinstance(c, ast.Call) and isinstance(c.func, ast.Attribute) and c.func.attr == _KERNEL
                   and dotted(c.func.value) == sn for c in walk_no_nested(f.node)):
                entries.append(f)
    ctx.require(bool(entries), f"{base.qualname}: no method evaluates {_KERNEL} on the object itself")
    # state the concrete kernels read (self.wavelength, self.angular_sampling ...)
    kernel_reads = set()
    for c in repo.modules[MOD].classes.values():
        if isinstance(c, ClassInfo) and base in c.mro():
            k = c.own_method(_KERNEL)
            if k is not None and not k.is_abstract:
                kernel_reads |= {s for s in sm.state_reads(repo, c, _KERNEL) if s[0] not in tf_classes}
    n_slots = 0
    for f in entries:
        sn = f.positional_params[0]
        df = DataFlow(f.node)
        cfg = df.cfg
        node_expr = dict(_node_exprs(df))
        # ---- consumers: the statements the angular grid handed to the kernel is computed in, and the kernel call
        consumers: dict[int, set] = {}
        role_of: dict[int, str] = {}
        for at, root in node_expr.items():
            for c in walk_no_nested(root):
                if isinstance(c, ast.Call) and isinstance(c.func, ast.Attribute) and c.func.attr == _KERNEL and \
                        dotted(c.func.value) == sn:
                    grid_args = ast.Tuple(elts=list(c.args) + [k.value for k in c.keywords], ctx=ast.Load())
                    here = {s for s in sm.expr_reads(repo, base, grid_args, sn) if s[0] not in own} | kernel_reads
                    consumers.setdefault(at, set()).update(here)
                    role_of[at] = "kernel"
                    for m in df.backward_slice(at, grid_args).def_nodes:
                        if m in node_expr:
                            got = {s for s in sm.expr_reads(repo, base, node_expr[m], sn) if s[0] not in own}
                            if got:
                                consumers.setdefault(m, set()).update(got)
                                role_of.setdefault(m, "angular-grid")
        needed = set().union(*consumers.values()) if consumers else set()
        ctx.require(bool(needed), f"{f.qualname}: the angular grid reads no component state (energy / grid)")

        recs, opaque = _sync_calls(repo, base, f, sn)
        applied = set().union(*[r["wroots"] for r in recs]) if recs else set()
        if not applied:
            for n in walk_no_nested(f.node):
                if isinstance(n, ast.Attribute) and isinstance(n.value, ast.Name) and n.value.id in f.params and \
                        n.value.id != sn:
                    applied.add(n.value.id)
        ctx.require(bool(applied), f"{f.qualname}: no parameter stands for the waves the kernel is evaluated for")

        # ---- (2) + (3): post-condition and direction of every synchroniser called
        decided = {}
        for r in recs:
            m, key = r["method"], (r["method"].qualname, tuple(sorted(r["flags"].items())), r["tf_is"])
            if key in decided:
                continue
            decided[key] = verdicts = sm.decide(m, r["flags"])
            for slot, v in sorted(verdicts.items()):
                if (r["comp"].qualname, slot) not in needed:
                    continue
                n_slots += 1
                bad = v.broken[0] if v.broken else None
                ctx.check(bad is None, "R-ENERGYMATCH", f"{m.qualname}:{slot}:post-condition", m.where,
                          f"{v.n_paths} scenario(s): both objects hold the same {slot} after the call whenever one was set"
                          + (" (a mismatch raises)" if v.ne_raises else ""),
                          (f"{m.short} called from {f.short} does not synchronise `{slot}` — {sm.describe(*bad)}: a "
                           f"transfer function whose {slot} was set by an earlier use keeps it when it is applied to "
                           f"waves with another {slot}, and the angular grid (alpha = k * wavelength, the pixel size of "
                           "the soft edge) is computed for the wrong waves: the aperture is not 1 up to / 0 beyond its "
                           "cutoff in the angles of the waves it multiplies") if bad else "",
                          key_detail=f"{slot}-{bad[0] if bad else ''}")
                if v.ne_raises or not v.winner:
                    continue
                want = "b" if r["tf_is"] == "recv" else "a"
                role = {"a": "receiver", "b": "argument"}
                ctx.check(v.winner == {want}, "R-ENERGYMATCH", f"{f.qualname}:{r['comp'].name}.{slot}:follows-waves",
                          f.loc(r["call"]),
                          f"after a mismatch both hold the {role[want]}'s {slot}, and the {role[want]} of "
                          f"`{norm_text(r['call'])[:50]}` is the waves",
                          f"`{norm_text(r['call'])[:50]}`: when both objects have a {slot} and they differ, {m.short} "
                          f"keeps the {' / '.join(role[w] for w in sorted(v.winner))}'s value, which here is the transfer "
                          f"function's: the waves are re-labelled with the {slot} of the transfer function instead of the "
                          "kernel being evaluated for the waves", key_detail=f"direction-{slot}")

        # ---- (1) every needed slot is synchronised with the waves before it is read
        effects: dict[int, set] = {}
        for r in recs:
            for p in r["wroots"]:
                for slot in r["interp"].fields:
                    effects.setdefault(r["node"], set()).add((p, r["comp"].qualname, slot))
        params = set(f.params)

        def transfer(node, st, label, succ):
            synced, facts = st
            if node.idx in effects:
                synced = synced | frozenset(effects[node.idx])
            if node.kind == "test" and label in ("T", "F") and isinstance(node.ast, ast.If):
                new = _none_facts(node.ast.test, label, params)
                for p, isnone in new:
                    if (p, not isnone) in facts:
                        return None
                facts = facts | frozenset(new)
            return (synced, facts)

        states = forward_states(cfg, (frozenset(), frozenset()), transfer, max_states=256)
        for at in sorted(consumers):
            for cq, slot in sorted(consumers[at]):
                missing = []
                for synced, facts in states[at]:
                    for p in sorted(applied):
                        if (p, True) in facts:
                            continue
                        if (p, cq, slot) not in synced:
                            missing.append(p)
                n_slots += 1
                cname = cq.split(".")[-1]
                construct = f"{f.qualname}:{cname}.{slot}:synchronised-before-{role_of[at]}"
                if missing and opaque:
                    raise AnalysisError(f"{f.qualname}: `{opaque[0][1]}` involves the transfer function and the waves "
                                        "and cannot be resolved to a synchroniser")
                if missing and not any(r["comp"].qualname == cq and slot in r["interp"].fields for r in recs):
                    _presynced_by_callers(repo, f, cq, slot)
                stmt = cfg.nodes[at].ast
                ctx.check(not missing, "R-ENERGYMATCH", construct, f.loc(stmt),
                          f"on every path with {', '.join(sorted(applied))} given, {cname}.{slot} is synchronised with "
                          f"it before `{norm_text(node_expr[at])[:50]}`",
                          f"a path on which `{missing[0] if missing else ''}` is given reaches "
                          f"`{norm_text(node_expr[at])[:60]}`, which reads {cname}.{slot}, without a preceding "
                          f"synchronisation of the transfer function's {cname.lower()} with it: the angular grid is "
                          "computed from whatever the transfer function held before, not for the waves the kernel "
                          "multiplies", key_detail=f"unsynced-{slot}")
    ctx.require(n_slots >= 3, f"R-ENERGYMATCH examined only {n_slots} slot(s)")


def _presynced_by_callers(repo, f, cq: str, slot: str) -> None:
    """The entry does not synchronise the slot at all.  If every caller that hands it waves calls a synchroniser of the
    component itself, the synchronisation was moved, which this rule cannot follow: AnalysisError."""
    from ..rules import syncmatch as sm

    comp = next((c for c in repo.all_classes() if c.qualname == cq), None)
    names = set()
    if comp is not None:
        for name, defs in comp.methods.items():
            for m in defs:
                try:
                    it = sm.SyncInterp(m)
                except AnalysisError:
                    continue
                if slot in it.fields and it.n_store_sites:
                    names.add(name)
    callers = []
    for g in repo.all_functions():
        if g.node is f.node:
            continue
        for c in walk_no_nested(g.node):
            if isinstance(c, ast.Call) and isinstance(c.func, ast.Attribute) and c.func.attr == f.name and (
                    c.args or c.keywords):
                callers.append(g)
                break
    if callers and names and all(any(isinstance(c, ast.Call) and isinstance(c.func, ast.Attribute) and c.func.attr in names
                                     for c in walk_no_nested(g.node)) for g in callers):
        raise AnalysisError(f"{f.qualname}: `{slot}` is not synchronised here but every caller calls "
                            f"{sorted(names)}: synchronisation moved to the callers, not followed")


# ---- added after the seeded change C23-r8seed2: the axes of the CTF kernel are in the order of their metadata
_inner_run_c23_r8 = run


def run(ctx) -> None:  # noqa: F811
    from ..report import OnlyConstructs
    from . import c03

    class _Borrow(OnlyConstructs):
        """keeps the borrowed rule's instances for the CTF composition only and does not import its other rule texts"""

        def rule(self, name, text):
            return None

        def assume(self, text):
            return None

        def require(self, cond, what):
            if not cond:
                raise AnalysisError(what)

    ctx.rule("R-ORDER", "(shared with C03; the rule lives in c03) CTF._evaluate_from_angular_grid multiplies its components "
             "in the order in which CTF.ensemble_axes_metadata lists their distributions (aberrations, angular spread, "
             "focal spread, aperture cutoff): the multiplication order fixes the order of the ensemble axes of the "
             "kernel.  With two distributions whose axes are exchanged, the member the metadata labels with cutoff c "
             "carries another member's cutoff and transmits outside its own aperture")
    pending = None
    try:
        proxy = _Borrow(ctx, ("abtem.transfer.CTF:composition", "abtem.transfer.CTF._"))
        before = len(ctx.instances)
        c03._prev_run(proxy)
        ctx.require(len(ctx.instances) > before, "R-ORDER: the CTF composition was not examined")
    except AnalysisError as e:
        pending = e
    _inner_run_c23_r8(ctx)
    if pending is not None:
        raise pending
