"""C07 — thickness series are consistent with truncated simulations (bookkeeping clauses)."""
from __future__ import annotations

import ast
from fractions import Fraction

from ..cfg import DataFlow
from ..model import AnalysisError, call_name, dotted, norm_text, walk_no_nested
from ..rules import loopstate
from ..terms import FlowNormalizer, Normalizer, Poly

MS = "abtem.multislice"
IAM = "abtem.potentials.iam"
COUNTER = "exit_plane_index"
VALIDATE = "_validate_potential_ensemble_indices"
UPDATE = "_update_measurements"


def _is_increment(st: ast.stmt, var: str) -> bool:
    if isinstance(st, ast.AugAssign) and isinstance(st.target, ast.Name) and st.target.id == var and isinstance(
            st.op, ast.Add):
        return isinstance(st.value, ast.Constant) and st.value.value == 1
    if isinstance(st, ast.Assign) and len(st.targets) == 1 and isinstance(st.targets[0], ast.Name) and \
            st.targets[0].id == var:
        p = Normalizer().norm(st.value)
        return p == Poly.atom(var) + Poly.const(1)
    return False


def _count_paths(body: list[ast.stmt], pred) -> set[int]:
    """Possible numbers (capped at 2) of statements satisfying `pred` executed on a path through `body`."""
    cur = {0}
    for st in body:
        if pred(st):
            step = {1}
        elif isinstance(st, ast.If):
            step = _count_paths(st.body, pred) | _count_paths(st.orelse, pred)
        elif isinstance(st, (ast.For, ast.While)):
            inner = _count_paths(st.body, pred)
            step = {0} if inner == {0} else {0, 1, 2}
        elif isinstance(st, ast.With):
            step = _count_paths(st.body, pred)
        elif isinstance(st, ast.Try):
            step = _count_paths(st.body, pred) | {c for h in st.handlers for c in _count_paths(h.body, pred)}
        else:
            step = {0}
        cur = {min(a + b, 2) for a in cur for b in step}
    return cur


def _reads_exit_planes(test: ast.expr) -> bool:
    return any(isinstance(n, ast.Attribute) and n.attr == "exit_planes" for n in ast.walk(test))


def run(ctx) -> None:
    repo = ctx.repo
    ctx.rule("R-LOOPSTATE", loopstate.__doc__.split("\n\n", 1)[1])
    ctx.rule("R-PAIR", "in multislice_and_detect the exit-plane counter is reset per configuration; every increment "
             "lies in the true arm of a test on `exit_planes` (entrance plane or the slice's exit_planes) and every "
             "path through such an arm increments exactly once; every _update_measurements uses a measurement index "
             "computed by _validate_potential_ensemble_indices(potential_index, <counter>, potential) earlier in the "
             "same arm and before the increment")
    ctx.rule("R-INDEXORDER", "_validate_potential_ensemble_indices returns potential_index + exit_plane_index (in "
             "that order) and _potential_ensemble_shape_and_metadata appends the exit-plane axis after the potential's "
             "ensemble axes, for the shape and for the metadata, under complementary conditions on len(exit_planes)")
    ctx.rule("R-EXITPLANES", "_validate_exit_planes(int n): planes are range(n-1, num_slices, n), the last slice "
             "num_slices-1 is appended when missing, -1 (entrance plane) is prepended; None and n>=num_slices give "
             "(num_slices-1,)")
    ctx.rule("R-THICKNESS", "exit_thicknesses = cumulative sum of slice_thickness taken at the exit-plane indices "
             "with the entrance plane (-1) mapped to 0.0; _exit_plane_after, exit_thicknesses and multislice_and_detect "
             "recognise the entrance plane by the same test exit_planes[0] == -1; generate_slices windows the "
             "exit-plane flags with the same [start:stop] as the slice thicknesses")
    ctx.undecided("numerical equality with truncated simulations")

    mad = repo.function(MS, "multislice_and_detect")
    loopstate.check(ctx, mad)

    # ---------------- R-PAIR
    df = DataFlow(mad.node)
    loops = [n for n in walk_no_nested(mad.node) if isinstance(n, ast.For) and isinstance(n.iter, ast.Call)
             and call_name(n.iter) == loopstate.GENERATOR]
    ctx.require(len(loops) == 1, "multislice_and_detect: configuration loop not found")
    cloop = loops[0]
    header = df.cfg.node_of(cloop).idx
    carried = df.loop_carried(header, COUNTER)
    ctx.check(not carried, "R-PAIR", f"{mad.qualname}:counter-reset", mad.loc(cloop),
              "exit-plane counter is reset at the start of every configuration",
              "the exit-plane counter keeps its value from the previous configuration", "reset")
    # parents map
    parent_arm: dict[int, tuple[ast.If, bool]] = {}

    def index(body, ctxt):
        for st in body:
            parent_arm[id(st)] = ctxt
            if isinstance(st, ast.If):
                index(st.body, ctxt + [(st, True)])
                index(st.orelse, ctxt + [(st, False)])
            elif isinstance(st, (ast.For, ast.While, ast.With)):
                index(st.body, ctxt)
                index(getattr(st, "orelse", []) or [], ctxt)
            elif isinstance(st, ast.Try):
                index(st.body, ctxt)
                for h in st.handlers:
                    index(h.body, ctxt)
    index(cloop.body, [])
    incs = [st for st in ast.walk(cloop) if isinstance(st, ast.stmt) and _is_increment(st, COUNTER)]
    arms: list[ast.If] = []
    for inc in incs:
        encl = [(i, pol) for i, pol in parent_arm.get(id(inc), []) if _reads_exit_planes(i.test)]
        good = bool(encl) and encl[-1][1] is True
        ctx.check(good, "R-PAIR", f"{mad.qualname}:increment-guard", mad.loc(inc),
                  f"increment guarded by `{norm_text(encl[-1][0].test)}`" if encl else "",
                  f"`{norm_text(inc)}` is not inside the true arm of a test on exit_planes: the counter advances on "
                  "slices that are not exit planes (or the entrance plane is counted unconditionally)",
                  key_detail="guard")
        if good and encl[-1][0] not in arms:
            arms.append(encl[-1][0])
    for i in [n for n in ast.walk(cloop) if isinstance(n, ast.If) and _reads_exit_planes(n.test)]:
        if i not in arms:
            arms.append(i)
    arms = [a for a in arms if any(isinstance(c, ast.Call) and call_name(c) in (VALIDATE, UPDATE)
                                    for st in a.body for c in ast.walk(st))]
    # every index computation / measurement update of the series must happen per configuration
    in_loop = {id(n) for n in ast.walk(cloop)}
    after_loop = {id(n) for st in mad.node.body[mad.node.body.index(cloop) + 1:] for n in ast.walk(st)} \
        if cloop in mad.node.body else set()
    hoisted = [c for c in walk_no_nested(mad.node) if isinstance(c, ast.Call) and call_name(c) in (VALIDATE, UPDATE)
               and id(c) not in in_loop and id(c) not in after_loop]
    for c in hoisted:
        ctx.violation("R-PAIR", f"{mad.qualname}:outside-configuration-loop {call_name(c)}", mad.loc(c),
                      f"`{norm_text(c)[:80]}` runs once, outside the loop over potential configurations: the plane it "
                      "records is written for one configuration only (the others keep the allocated zeros, an "
                      "ensemble mean is off by 1/N)", key_detail="hoisted")
    entrance_arms = [a for a in arms if "[0]" in norm_text(a.test) and "-1" in norm_text(a.test)]
    if not entrance_arms and not hoisted:
        ctx.violation("R-PAIR", f"{mad.qualname}:entrance-plane", mad.loc(cloop),
                      "no per-configuration handling of the entrance plane (exit_planes[0] == -1) was found inside the "
                      "configuration loop", key_detail="entrance")
    ctx.require(len(arms) >= 1, "multislice_and_detect: exit-plane arm not found")
    for arm in arms:
        counts = _count_paths(arm.body, lambda st: _is_increment(st, COUNTER))
        ctx.check(counts == {1}, "R-PAIR", f"{mad.qualname}:once-per-exit-plane `{norm_text(arm.test)[:40]}`",
                  mad.loc(arm), "every path through the exit-plane arm increments the counter exactly once",
                  f"paths through `if {norm_text(arm.test)}` increment the counter {sorted(counts)} times "
                  "(2 = twice or more): results land in the wrong exit-plane slot", key_detail="once")
        # ordering V < U < I at the top level of the arm
        def top_index(pred):
            out = []
            for k, st in enumerate(arm.body):
                if any(pred(n) for n in ast.walk(st)):
                    out.append(k)
            return out
        vi = top_index(lambda n: isinstance(n, ast.Call) and call_name(n) == VALIDATE)
        ui = top_index(lambda n: isinstance(n, ast.Call) and call_name(n) == UPDATE)
        ii = top_index(lambda n: isinstance(n, ast.stmt) and _is_increment(n, COUNTER))
        order_ok = bool(vi) and bool(ui) and bool(ii) and max(vi) <= min(ui) and max(ui) < min(ii)
        ctx.check(order_ok, "R-PAIR", f"{mad.qualname}:order `{norm_text(arm.test)[:40]}`", mad.loc(arm),
                  "index computed, then measurements updated, then counter incremented",
                  f"in `if {norm_text(arm.test)}` the order of index computation / update / increment is "
                  f"{vi}/{ui}/{ii} (statement positions): measurements are written with a stale or advanced index",
                  key_detail="order")
    # arguments of V and U
    ploop_target = cloop.target.elts[0].id if isinstance(cloop.target, ast.Tuple) else None
    ctx.require(ploop_target is not None, "configuration loop target is not a tuple")
    vcalls = [c for c in ast.walk(cloop) if isinstance(c, ast.Call) and call_name(c) == VALIDATE]
    ctx.require(len(vcalls) >= 1, "multislice_and_detect: index computations not found")
    for c in vcalls:
        good = (len(c.args) >= 3 and dotted(c.args[0]) == ploop_target and dotted(c.args[1]) == COUNTER
                and dotted(c.args[2]) == mad.positional_params[1])
        ctx.check(good, "R-PAIR", f"{mad.qualname}:index-args", mad.loc(c),
                  "index = (configuration index, exit-plane counter)",
                  f"`{norm_text(c)}` does not combine the configuration index with the exit-plane counter",
                  key_detail="vargs")
    ucalls = [c for c in ast.walk(cloop) if isinstance(c, ast.Call) and call_name(c) == UPDATE]
    ctx.require(len(ucalls) >= 1, "multislice_and_detect: measurement updates not found")
    for c in ucalls:
        ctx.require(len(c.args) >= 4, "unexpected _update_measurements signature use")
        idx = c.args[3]
        st = _stmt_of(mad.node, c)
        rd = df.reaching(df.cfg.node_of(st).idx, dotted(idx) or "?") if isinstance(idx, ast.Name) else []
        good = bool(rd) and all(isinstance(d.value, ast.Call) and call_name(d.value) == VALIDATE for d in rd)
        ctx.check(good, "R-PAIR", f"{mad.qualname}:update-index", mad.loc(c),
                  "update uses an index computed by _validate_potential_ensemble_indices",
                  f"`{norm_text(c)[:70]}` writes at an index not computed from (configuration, exit plane)",
                  key_detail="uargs")

    # ---------------- R-INDEXORDER
    vf = repo.function(MS, VALIDATE)
    rets = [r for r in walk_no_nested(vf.node) if isinstance(r, ast.Return) and r.value is not None]
    ctx.require(len(rets) == 1, f"{VALIDATE}: expected one return")
    dfv = DataFlow(vf.node)
    rv = rets[0].value
    if isinstance(rv, ast.Name):
        d = dfv.single_def(dfv.cfg.node_of(rets[0]).idx, rv.id)
        rv = d.value if d is not None else rv
    good = (isinstance(rv, ast.BinOp) and isinstance(rv.op, ast.Add) and dotted(rv.left) == vf.positional_params[0]
            and dotted(rv.right) == vf.positional_params[1])
    ctx.check(good, "R-INDEXORDER", f"{vf.qualname}:concat", vf.loc(rets[0]),
              "measurement index = potential_index + exit_plane_index",
              f"measurement index is {norm_text(rv)}: configuration and exit-plane indices are not concatenated in "
              "the order of the allocated axes", key_detail="concat")
    sm = repo.function(MS, "_potential_ensemble_shape_and_metadata")
    conds = [n for n in walk_no_nested(sm.node) if isinstance(n, ast.If)]
    ctx.require(len(conds) == 1, "_potential_ensemble_shape_and_metadata: expected one condition")
    cond = conds[0]
    from ..model import ordered_compare

    COUNTS = ("len(potential.exit_planes)", "potential.num_exit_planes")

    def _is_one(e):
        return isinstance(e, ast.Constant) and e.value == 1 and not isinstance(e.value, bool)

    oc = ordered_compare(cond.test)  # `1 < count` in either orientation
    okc = oc is not None and oc[1] and _is_one(oc[0]) and norm_text(oc[2]).replace(" ", "") in COUNTS
    vconds = [n for n in walk_no_nested(vf.node) if isinstance(n, ast.If) and "exit_planes" in norm_text(n.test)]
    okv = False
    if vconds and isinstance(vconds[0].test, ast.Compare) and len(vconds[0].test.ops) == 1 and isinstance(
            vconds[0].test.ops[0], ast.Eq):  # `count == 1` in either orientation
        a_, b_ = vconds[0].test.left, vconds[0].test.comparators[0]
        okv = any(_is_one(x) and norm_text(y).replace(" ", "") in COUNTS for x, y in ((a_, b_), (b_, a_)))
    ctx.check(okc and okv, "R-INDEXORDER", f"{sm.qualname}:conditions", sm.loc(cond),
              "exit-plane axis allocated iff exit-plane index is kept (len(exit_planes) > 1 vs == 1)",
              f"axis allocated under `{norm_text(cond.test)}` but index dropped under "
              f"`{norm_text(vconds[0].test) if vconds else '?'}`", key_detail="conds")
    for st in cond.body:
        if isinstance(st, ast.Assign) and isinstance(st.value, (ast.Tuple, ast.List)):
            elts = st.value.elts
            good = (len(elts) == 2 and isinstance(elts[0], ast.Starred) and dotted(elts[0].value) == dotted(
                st.targets[0]) and "exit_planes" in norm_text(elts[1]))
            ctx.check(good, "R-INDEXORDER", f"{sm.qualname}:{dotted(st.targets[0])}", sm.loc(st),
                      "exit-plane axis appended after the ensemble axes",
                      f"`{norm_text(st)[:80]}` does not append the exit-plane axis after the ensemble axes",
                      key_detail=dotted(st.targets[0]) or "?")

    # ---------------- R-EXITPLANES
    ve = repo.function(IAM, "_validate_exit_planes")
    p_ep, p_ns = ve.positional_params[:2]
    nz = Normalizer()
    NS1 = nz.norm(ast.parse(f"{p_ns} - 1", mode="eval").body)
    EP = nz.norm(ast.Name(id=p_ep, ctx=ast.Load()))
    NSp = nz.norm(ast.Name(id=p_ns, ctx=ast.Load()))
    # --- the regular planes of the integer arm: an arithmetic progression, written as range(a, stop, d) or as a
    #     generator/list comprehension `f(i) for i in range(m)` with f affine in i
    seq = None  # (first, step, count-or-None, stop-or-None, node, text)
    for c in walk_no_nested(ve.node):
        if isinstance(c, ast.Call) and call_name(c) == "range" and len(c.args) == 3:
            seq = (nz.norm(c.args[0]), nz.norm(c.args[2]), None, nz.norm(c.args[1]), c, norm_text(c))
    if seq is None:
        dfv = DataFlow(ve.node)
        for c in walk_no_nested(ve.node):
            if isinstance(c, (ast.GeneratorExp, ast.ListComp)) and len(c.generators) == 1 and not c.generators[0].ifs \
                    and isinstance(c.generators[0].target, ast.Name) and isinstance(c.generators[0].iter, ast.Call) \
                    and call_name(c.generators[0].iter) == "range" and len(c.generators[0].iter.args) == 1:
                ivar = c.generators[0].target.id
                st_c = _stmt_of(ve.node, c)
                fz = FlowNormalizer(dfv, dfv.cfg.node_of(st_c).idx)
                fz.no_inline.add(ivar)
                elt = fz.norm(c.elt)
                I = Poly.atom(ivar)
                first = elt.subst({ivar: Poly.const(0)})
                step = elt.subst({ivar: Poly.const(1)}) - first
                if elt == first + step * I:  # affine in the loop variable
                    seq = (first, step, fz.norm(c.generators[0].iter.args[0]), None, c, norm_text(c))
    ctx.require(seq is not None, "_validate_exit_planes: the regular exit planes are neither range(a, stop, d) nor an "
                "affine generator over range(m)")
    first, step, count, stop, seq_node, seq_text = seq
    good = first == EP - Poly.const(1) and step == EP and (stop is None or stop == NSp)
    ctx.check(good, "R-EXITPLANES", f"{ve.qualname}:range", ve.loc(seq_node),
              f"planes start at n-1 and advance by n ({seq_text[:50]})",
              f"exit planes generated by {seq_text[:70]} (first {first.key()}, step {step.key()}): not every n-th slice "
              "counted from the first n slices", key_detail="range")
    # --- the final slice is an exit plane: either the progression provably ends at num_slices-1, or num_slices-1 is
    #     added (append / tuple or list concatenation / set union), unconditionally or under `planes[-1] != num_slices-1`
    last_elem = None
    if count is not None:
        last_elem = first + step * (count - Poly.const(1))
    ends_exactly = last_elem is not None and last_elem == NS1
    adds = []
    for c in walk_no_nested(ve.node):
        if isinstance(c, ast.Call) and isinstance(c.func, ast.Attribute) and c.func.attr in ("append", "add") and \
                len(c.args) == 1 and nz.norm(c.args[0]) == NS1:
            adds.append(c)
        if isinstance(c, ast.BinOp) and isinstance(c.op, (ast.Add, ast.BitOr)) and isinstance(
                c.right, (ast.Tuple, ast.List, ast.Set)) and len(c.right.elts) == 1 and nz.norm(c.right.elts[0]) == NS1:
            adds.append(c)
    okadd = False
    for a in adds:
        guards = [i for i in walk_no_nested(ve.node) if isinstance(i, ast.If) and any(x is a for x in ast.walk(i))
                  and not any(x is seq_node for x in ast.walk(i.test))]
        inner = [g for g in guards if any(x is a for b in g.body for x in ast.walk(b))
                 and not any(x is seq_node for b in g.body for x in ast.walk(b))]
        if not inner:
            okadd = True  # unconditional (a duplicate is possible, reported by the guard rule below if un-guarded)
        for g in inner:
            t = g.test
            if isinstance(t, ast.Compare) and len(t.ops) == 1 and isinstance(t.ops[0], ast.NotEq):
                sides = [t.left, t.comparators[0]]
                okadd |= any(isinstance(x, ast.Subscript) and norm_text(x.slice) == "-1" for x in sides) and \
                    any(nz.norm(x) == NS1 for x in sides if not isinstance(x, ast.Subscript))
    ctx.check(ends_exactly or okadd, "R-EXITPLANES", f"{ve.qualname}:last-plane", ve.where,
              "last slice appended iff missing" if okadd else "the progression ends at num_slices-1",
              "the last slice (num_slices-1) is not guaranteed to be the final exit plane: the regular planes "
              f"{seq_text[:60]} end at {last_elem.key() if last_elem is not None else 'the last multiple below the stop'}"
              " and num_slices-1 is not added when it is missing — the last output is then not the full simulation",
              key_detail="last")
    prep = [b for b in walk_no_nested(ve.node) if isinstance(b, ast.BinOp) and isinstance(b.op, ast.Add)
            and isinstance(b.left, ast.Tuple) and len(b.left.elts) == 1 and nz.norm(b.left.elts[0]) == Poly.const(-1)]
    ctx.check(len(prep) == 1, "R-EXITPLANES", f"{ve.qualname}:entrance", ve.where, "(-1,) prepended",
              "the entrance plane -1 is not prepended for integer exit_planes", key_detail="entrance")
    simple = [rt for rt in walk_no_nested(ve.node) if isinstance(rt, ast.Return) and isinstance(rt.value, ast.Tuple)]
    simple += [st for st in walk_no_nested(ve.node) if isinstance(st, ast.Assign) and isinstance(st.value, ast.Tuple)
               and len(st.value.elts) == 1]
    for s in simple:
        v = s.value
        ctx.check(len(v.elts) == 1 and nz.norm(v.elts[0]) == NS1, "R-EXITPLANES", f"{ve.qualname}:single-plane",
                  ve.loc(s), "single exit plane = last slice",
                  f"`{norm_text(s)}`: the single exit plane is not the last slice num_slices-1", key_detail="single")
    ctx.require(len(simple) >= 2, "_validate_exit_planes: single-plane arms not found")

    # ---------------- R-THICKNESS
    et = repo.method(IAM, "BaseField", "exit_thicknesses")
    src = {norm_text(st) for st in walk_no_nested(et.node) if isinstance(st, ast.Assign)}
    cums = [c for c in walk_no_nested(et.node) if isinstance(c, ast.Call) and (call_name(c) or "").endswith("cumsum")]
    good = len(cums) == 1 and norm_text(cums[0].args[0]) == "self.slice_thickness"
    ctx.check(good, "R-THICKNESS", f"{et.qualname}:cumsum", et.where, "thickness = cumsum(slice_thickness)",
              "exit thicknesses are not taken from the cumulative sum of slice_thickness", key_detail="cumsum")
    ents = [i for i in walk_no_nested(et.node) if isinstance(i, ast.If)]
    oke = False
    if len(ents) == 1:
        rets2 = [x for x in ents[0].body if isinstance(x, ast.Return)]
        if rets2 and isinstance(rets2[0].value, ast.BinOp) and isinstance(rets2[0].value.left, ast.Tuple):
            l = rets2[0].value.left
            rgt = rets2[0].value.right
            oke = (len(l.elts) == 1 and nz.norm(l.elts[0]) == Poly.const(0) and isinstance(rgt, ast.Subscript)
                   and norm_text(rgt.slice) == "1:")
    ctx.check(oke, "R-THICKNESS", f"{et.qualname}:entrance", et.where, "entrance plane reported at thickness 0.0",
              "the entrance plane is not reported at thickness 0.0 followed by the remaining planes", key_detail="zero")
    epa = repo.method(IAM, "BaseField", "_exit_plane_after")
    tests = {}
    for name, fn in (("exit_thicknesses", et), ("_exit_plane_after", epa), ("multislice_and_detect", mad)):
        # locals that alias `<obj>.exit_planes` are spelled canonically
        alias = {st.targets[0].id for st in walk_no_nested(fn.node) if isinstance(st, ast.Assign)
                 and len(st.targets) == 1 and isinstance(st.targets[0], ast.Name)
                 and isinstance(st.value, ast.Attribute) and st.value.attr == "exit_planes"}
        ts = []
        for i in walk_no_nested(fn.node):
            if not isinstance(i, (ast.If, ast.IfExp)):
                continue
            t = norm_text(i.test).replace("self.", "").replace("potential.", "")
            for a in alias:
                t = t.replace(f"{a}[0]", "exit_planes[0]")
            if "exit_planes[0]" in t:
                ts.append(t)
        tests[name] = ts
    allsame = all(ts == ["exit_planes[0] == -1"] for ts in tests.values())
    ctx.check(allsame, "R-THICKNESS", "entrance-plane convention (3 sites)", et.where,
              "all three sites test exit_planes[0] == -1", f"entrance-plane tests disagree: {tests}", key_detail="conv")
    # windows in generate_slices implementations
    nwin = 0
    for f in repo.all_functions():
        if f.name != "generate_slices" or f.module.name != IAM:
            continue
        epa_names = {st.targets[0].id for st in walk_no_nested(f.node) if isinstance(st, ast.Assign)
                     and len(st.targets) == 1 and isinstance(st.targets[0], ast.Name)
                     and isinstance(st.value, ast.Attribute) and st.value.attr == "_exit_plane_after"}
        for st in walk_no_nested(f.node):
            if isinstance(st, ast.Assign) and any(f"{nm}[" in norm_text(st.value) for nm in epa_names):
                sub = [s for s in ast.walk(st.value) if isinstance(s, ast.Subscript) and dotted(s.value) in epa_names]
                thick = [s for s in ast.walk(f.node) if isinstance(s, ast.Subscript) and dotted(s.value) in (
                    "self.slice_thickness", "self._slice_thickness") and isinstance(s.slice, ast.Slice)]
                if not sub or not isinstance(sub[0].slice, ast.Slice):
                    continue
                nwin += 1
                wnames = {x.id for x in ast.walk(sub[0].slice) if isinstance(x, ast.Name)}
                comparable = [t for t in thick if {x.id for x in ast.walk(t.slice) if isinstance(x, ast.Name)} & wnames]
                if not comparable:
                    ctx.info("R-THICKNESS", f"{f.qualname}:window", f.loc(st),
                             f"flags windowed with [{norm_text(sub[0].slice)}], thicknesses with "
                             f"{[norm_text(t.slice) for t in thick]}: different index variables, not compared")
                    continue
                thick = comparable
                same = any(norm_text(t.slice) == norm_text(sub[0].slice) for t in thick)
                ctx.check(same, "R-THICKNESS", f"{f.qualname}:window", f.loc(st),
                          f"exit-plane flags windowed with [{norm_text(sub[0].slice)}] like the slice thicknesses",
                          f"exit-plane flags windowed with [{norm_text(sub[0].slice)}] but slice thicknesses with "
                          f"{[norm_text(t.slice) for t in thick]}", key_detail="window")
    ctx.require(nwin >= 2, f"generate_slices exit-plane windows: found {nwin}")


def _stmt_of(func: ast.FunctionDef, node: ast.AST) -> ast.stmt:
    best = None
    for st in ast.walk(func):
        if isinstance(st, ast.stmt) and not isinstance(st, (ast.FunctionDef, ast.If, ast.For, ast.While, ast.With,
                                                           ast.Try)):
            if any(n is node for n in ast.walk(st)):
                best = st
    if best is None:
        raise AnalysisError("statement of call not found")
    return best


# ---- added: the "detect only the final wave" shortcut (found on the tree: one configuration, one non-final plane)
_inner_run_c07b = run


def run(ctx) -> None:  # noqa: F811
    ctx.rule("R-FINALONLY", "multislice_and_detect may skip the per-plane bookkeeping (`measurements = None`, detection "
             "of the final wave after the loops) only when the single exit plane is the last slice: the guard of that "
             "shortcut must contain a conjunct comparing potential.exit_planes (an element of it) with num_slices - 1. "
             "A guard on the size of the ensemble alone also takes the shortcut for exit_planes=(k,) with k before "
             "the last slice, or for the entrance plane (-1,), and returns the full exit wave instead of plane k — "
             "for every lazily evaluated frozen-phonon run, whose blocks hold one configuration each")
    repo = ctx.repo
    f = repo.function(MS, "multislice_and_detect")
    nz = Normalizer()
    sites = []
    for i in walk_no_nested(f.node):
        if isinstance(i, ast.If):
            for arm, pol in ((i.body, True), (i.orelse, False)):
                for st in arm:
                    if isinstance(st, ast.Assign) and any(dotted(t) == "measurements" for t in st.targets) and \
                            isinstance(st.value, ast.Constant) and st.value.value is None:
                        sites.append((i, pol, st))
    uses = [i for i in walk_no_nested(f.node) if isinstance(i, ast.If) and "measurements is None" in norm_text(i.test)
            and any(isinstance(c, ast.Call) and isinstance(c.func, ast.Attribute) and c.func.attr == "detect"
                    for st in i.body for c in ast.walk(st))]
    if not sites and not uses:
        ctx.ok("R-FINALONLY", f"{f.qualname}:no shortcut", f.where, "every run allocates per-plane measurements")
    for i, pol, st in sites:
        conj = i.test.values if isinstance(i.test, ast.BoolOp) and isinstance(i.test.op, ast.And) else [i.test]
        guarded = False
        if pol:
            for c in conj:
                if isinstance(c, ast.Compare) and len(c.ops) == 1 and isinstance(c.ops[0], ast.Eq):
                    sides = [c.left, c.comparators[0]]
                    has_ep = [s for s in sides if "exit_planes" in norm_text(s)]
                    other = [s for s in sides if "exit_planes" not in norm_text(s)]
                    if has_ep and other:
                        o = other[0]
                        last = o.elts[0] if isinstance(o, ast.Tuple) and len(o.elts) == 1 else o
                        p = nz.norm(last)
                        guarded = any(p == nz.norm(ast.parse(e, mode="eval").body) for e in (
                            "potential.num_slices - 1", "len(potential) - 1", "potential.num_slices - 1.0",
                            "num_slices - 1"))
        ctx.check(guarded, "R-FINALONLY", f"{f.qualname}:final-wave shortcut", f.loc(i),
                  f"shortcut taken under `{norm_text(i.test)[:90]}`: the single exit plane is the last slice",
                  f"`measurements = None` (detect only the final wave) is taken under `{norm_text(i.test)[:90]}`, which "
                  "does not require the exit plane to be the last slice: a potential with one configuration and "
                  "exit_planes=(k,), k < num_slices-1 (every block of a lazy frozen-phonon run) yields the full exit "
                  "wave instead of the wave at plane k", key_detail="finalonly")
    _inner_run_c07b(ctx)


# ---- added after the mutation sweep: the slice flags are the indicator of the exit planes (R-FLAGS), every exit
# ---- plane that is reached is recorded for every detector (R-UPDATECOVER / R-UPDATEARGS), the final-wave shortcut
# ---- needs a single configuration (R-FINALONLY, second conjunct), the entrance thickness is a concatenation
_inner_run_c07c = run


def _exit_arms(f, cloop):
    return [a for a in ast.walk(cloop) if isinstance(a, ast.If) and _reads_exit_planes(a.test)
            and any(isinstance(c, ast.Call) and call_name(c) in (VALIDATE, UPDATE) for st in a.body for c in ast.walk(st))]


def _none_test(t: ast.expr, var: str):
    """True for `var is not None`, False for `var is None`, None otherwise."""
    if isinstance(t, ast.Compare) and len(t.ops) == 1 and isinstance(t.left, ast.Name) and t.left.id == var and \
            isinstance(t.comparators[0], ast.Constant) and t.comparators[0].value is None:
        if isinstance(t.ops[0], ast.IsNot):
            return True
        if isinstance(t.ops[0], ast.Is):
            return False
    return None


def _update_paths(body, mvar: str):
    """All paths through `body` on which `mvar` is not None: each a list of _update_measurements calls."""
    paths = [[]]
    for st in body:
        if isinstance(st, ast.If):
            pol = _none_test(st.test, mvar)
            arms = [st.body] if pol is True else [st.orelse] if pol is False else [st.body, st.orelse]
            # `a and b` with a conjunct on mvar: the true arm is only taken when mvar is not None
            sub = []
            for arm in arms:
                sub += _update_paths(arm, mvar)
            paths = [p + s for p in paths for s in sub]
        elif isinstance(st, (ast.For, ast.While, ast.Try, ast.With)):
            if any(isinstance(c, ast.Call) and call_name(c) == UPDATE for c in ast.walk(st)):
                raise AnalysisError("measurement update inside a nested loop / try / with of an exit-plane arm")
        else:
            calls = [c for c in ast.walk(st) if isinstance(c, ast.Call) and call_name(c) == UPDATE]
            paths = [p + calls for p in paths]
        if len(paths) > 256:
            raise AnalysisError("too many paths through an exit-plane arm")
    return paths


def _inline(e: ast.expr, df, node: int, keep: tuple = ()) -> ast.expr:
    """Follow plain single-definition temporaries (`t = <expr>`) back to the expression they hold."""
    hops = 0
    while isinstance(e, ast.Name) and e.id not in keep and hops < 8:
        d = df.single_def(node, e.id)
        st = df.cfg.nodes[d.node].ast if d is not None else None
        if d is None or d.kind != "assign" or d.value is None or not (
                isinstance(st, ast.Assign) and len(st.targets) == 1 and isinstance(st.targets[0], ast.Name)):
            break
        e, node, hops = d.value, d.node, hops + 1
    return e


def _sel(e: ast.expr, base: str, df=None, node: int = 0):
    """'all' for the name `base`, (lower key, upper key) for `base[lo:hi]`, None for anything else."""
    nz = Normalizer() if df is None else FlowNormalizer(df, node)
    if df is not None:
        e = _inline(e, df, node, keep=(base,))
    if isinstance(e, ast.Name) and e.id == base:
        return "all"
    if isinstance(e, ast.Subscript) and isinstance(e.value, ast.Name) and e.value.id == base and \
            isinstance(e.slice, ast.Slice) and e.slice.step is None:
        k = lambda x: None if x is None else nz.norm(x).key()
        return (k(e.slice.lower), k(e.slice.upper))
    return None


def run(ctx) -> None:  # noqa: F811
    from ..rules import c07_mergewalk

    repo = ctx.repo
    ctx.rule("R-FLAGS", c07_mergewalk.__doc__.split("\n\n", 1)[1])
    ctx.rule("R-UPDATECOVER", "in multislice_and_detect, on every path through an exit-plane arm (entrance plane or "
             "`potential_slice.exit_planes`) on which the measurement buffers exist (`measurements is not None`) every "
             "detector is updated exactly once: the updates on the path take either the whole detector list or "
             "consecutive slices of it that chain from its start to its end ([:k] then [k:]). A path without an update "
             "(or one that leaves part of the detectors out) keeps the allocated zeros at that exit plane, which is "
             "not what the truncated simulation gives")
    ctx.rule("R-UPDATEARGS", "every _update_measurements(w, d, m, index) of the series pairs detectors with their own "
             "buffers: d is the detector list of the function or a slice of it, m is the measurement list or THE SAME "
             "slice of it, and w is a wave that derives from the propagated state (the function's wave parameter)")
    mad = repo.function(MS, "multislice_and_detect")
    epa = repo.method(IAM, "BaseField", "_exit_plane_after")
    pending = None
    try:
        c07_mergewalk.check(ctx, epa, "R-FLAGS")
    except AnalysisError as e:  # the older rules still get their say first (a violation decides the run)
        pending = e

    # ---------------- R-UPDATECOVER / R-UPDATEARGS
    loops = [n for n in walk_no_nested(mad.node) if isinstance(n, ast.For) and isinstance(n.iter, ast.Call)
             and call_name(n.iter) == loopstate.GENERATOR]
    ctx.require(len(loops) == 1, "multislice_and_detect: configuration loop not found")
    cloop = loops[0]
    rets = [r for r in walk_no_nested(mad.node) if isinstance(r, ast.Return) and r.value is not None]
    ctx.require(len(rets) == 1 and isinstance(rets[0].value, ast.Name), "multislice_and_detect: `return <measurements>`")
    mvar = rets[0].value.id
    ctx.require(len(mad.positional_params) >= 3, "multislice_and_detect: signature")
    wvar, dvar = mad.positional_params[0], mad.positional_params[2]
    df = DataFlow(mad.node)
    arms = _exit_arms(mad, cloop)
    ctx.require(len(arms) >= 1, "multislice_and_detect: exit-plane arms not found")
    for arm in arms:
        role = "entrance" if any(isinstance(n, ast.Compare) for n in ast.walk(arm.test)) else "slice"
        paths = _update_paths(arm.body, mvar)
        bad = None
        for p in paths:
            sels = [_sel(c.args[1], dvar, df, df.cfg.node_of(_stmt_of(mad.node, c)).idx) if len(c.args) >= 2 else None
                    for c in p]
            if any(s is None for s in sels):
                continue  # reported by R-UPDATEARGS
            if not p:
                bad = "a path with the buffers allocated performs no update"
                break
            if "all" in sels:
                if len(sels) != 1:
                    bad = "a path updates the whole detector list and a part of it again"
                    break
                continue
            # slices must chain None -> ... -> None
            pos, left = None, list(sels)
            ok_chain = True
            while left:
                nxt = [s for s in left if s[0] == pos]
                if len(nxt) != 1:
                    ok_chain = False
                    break
                left.remove(nxt[0])
                pos = nxt[0][1]
                if pos is None:
                    break
            if not ok_chain or left or pos is not None:
                bad = (f"a path updates only the detector slices {[f'[{a or str()}:{b or str()}]' for a, b in sels]}, "
                       "which do not cover the detector list")
                break
        ctx.check(bad is None, "R-UPDATECOVER", f"{mad.qualname}:{role}-plane arm", mad.loc(arm),
                  f"{len(paths)} path(s) with allocated buffers, each updates every detector once",
                  f"in `if {norm_text(arm.test)[:50]}`: {bad}: the exit plane keeps the allocated zeros for those "
                  "detectors", key_detail="cover")
    ucalls = [c for c in ast.walk(cloop) if isinstance(c, ast.Call) and call_name(c) == UPDATE]
    ctx.require(len(ucalls) >= 1, "multislice_and_detect: measurement updates not found")
    seen: dict[str, int] = {}
    for c in ucalls:
        ctx.require(len(c.args) >= 4 and not c.keywords, "unexpected _update_measurements signature use")
        st = _stmt_of(mad.node, c)
        at = df.cfg.node_of(st).idx
        sd, sm = _sel(c.args[1], dvar, df, at), _sel(c.args[2], mvar, df, at)
        sl = df.backward_slice(df.cfg.node_of(st).idx, c.args[0])
        from_state = wvar in sl.params or wvar in sl.visited
        good = sd is not None and sm is not None and sd == sm and from_state
        what = "all" if sd == "all" else "part" if sd is not None else "?"
        n = seen[what] = seen.get(what, 0) + 1
        why = ("the detectors argument is not the detector list (or a slice of it)" if sd is None else
               "the buffers argument is not the measurement list (or a slice of it)" if sm is None else
               "detectors and buffers are sliced differently" if sd != sm else
               "the recorded wave does not derive from the propagated state")
        ctx.check(good, "R-UPDATEARGS", f"{mad.qualname}:update({what})#{n}", mad.loc(c),
                  "update(wave from the propagated state, detectors[s], measurements[s], index)",
                  f"`{norm_text(c)[:90]}`: {why}", key_detail="pairing")

    # ---------------- R-FINALONLY, second conjunct: one configuration
    ctx.rule("R-FINALONLY-ONE", "the final-wave shortcut of multislice_and_detect (`measurements = None`, detect the "
             "wave left after the loops) returns the exit wave of the LAST configuration only, so its guard must also "
             "bound the ensemble to a single configuration: a conjunct `sum/prod(<ensemble shape>) == 1` (or "
             "num_configurations == 1, <= 1, < 2). A guard that admits several configurations drops all but one of "
             "them — the truncated simulation used as the reference of a thickness series is then wrong")
    sites = []
    for i in walk_no_nested(mad.node):
        if isinstance(i, ast.If):
            for arm_, pol in ((i.body, True), (i.orelse, False)):
                for st in arm_:
                    if isinstance(st, ast.Assign) and any(dotted(t) == mvar for t in st.targets) and \
                            isinstance(st.value, ast.Constant) and st.value.value is None:
                        sites.append((i, pol))
    if not sites:
        ctx.ok("R-FINALONLY-ONE", f"{mad.qualname}:no shortcut", mad.where, "every run allocates per-plane measurements")
    for i, pol in sites:
        ctx.require(pol, "final-wave shortcut in an else arm: not read")
        node = df.cfg.node_of(i).idx
        conj = i.test.values if isinstance(i.test, ast.BoolOp) and isinstance(i.test.op, ast.And) else [i.test]

        def about_ensemble(e: ast.expr) -> bool:
            if any(isinstance(n, ast.Attribute) and n.attr in ("ensemble_shape", "num_configurations",
                                                               "num_frozen_phonons") for n in ast.walk(e)):
                return True
            sl_ = df.backward_slice(node, e)
            for dn in sl_.def_nodes:
                v = getattr(df.cfg.nodes[dn].ast, "value", None)
                if v is not None and any(
                        (isinstance(n, ast.Call) and call_name(n) == "_potential_ensemble_shape_and_metadata") or
                        (isinstance(n, ast.Attribute) and n.attr in ("ensemble_shape", "num_configurations",
                                                                     "num_frozen_phonons")) for n in ast.walk(v)):
                    return True
            return False
        conj = [_inline(c, df, node) for c in conj]
        conj = [x for c in conj for x in (c.values if isinstance(c, ast.BoolOp) and isinstance(c.op, ast.And) else [c])]
        verdict = None  # True ok, False bad
        shown = ""
        for c in conj:
            if not about_ensemble(c):
                continue
            shown = norm_text(c)
            if not (isinstance(c, ast.Compare) and len(c.ops) == 1):
                raise AnalysisError(f"final-wave shortcut: cannot read the ensemble condition `{shown[:60]}`")
            a, b, op = c.left, c.comparators[0], c.ops[0]
            if not about_ensemble(a):
                a, b = b, a
                op = {ast.Lt: ast.Gt, ast.Gt: ast.Lt, ast.LtE: ast.GtE, ast.GtE: ast.LtE}.get(type(op), type(op))()
            kb = Normalizer().norm(b).const_value()
            if kb is None or about_ensemble(b):
                raise AnalysisError(f"final-wave shortcut: cannot read the ensemble condition `{shown[:60]}`")
            a = _inline(a, df, node)
            counted = (isinstance(a, ast.Call) and (call_name(a) or "").split(".")[-1] in ("sum", "prod") and
                       len(a.args) == 1) or (isinstance(a, ast.Attribute) and a.attr in ("num_configurations",
                                                                                         "num_frozen_phonons"))
            if not counted:
                raise AnalysisError(f"final-wave shortcut: cannot read the ensemble condition `{shown[:60]}`")
            single = (isinstance(op, ast.Eq) and kb == 1) or (isinstance(op, ast.LtE) and kb == 1) or \
                (isinstance(op, ast.Lt) and kb == 2)
            verdict = single if verdict is None else (verdict or single)
        ctx.check(bool(verdict), "R-FINALONLY-ONE", f"{mad.qualname}:final-wave shortcut", mad.loc(i),
                  f"shortcut taken only for a single configuration (`{shown[:60]}`)",
                  (f"the shortcut is taken under `{shown[:60]}`, which admits several configurations" if shown else
                   f"the guard `{norm_text(i.test)[:80]}` of the shortcut does not bound the number of configurations")
                  + ": only the exit wave of the last configuration is detected, the others are dropped",
                  key_detail="one-configuration")

    # ---------------- R-THICKNESS: the entrance plane is *concatenated* in front of the remaining thicknesses
    et = repo.method(IAM, "BaseField", "exit_thicknesses")
    for i in walk_no_nested(et.node):
        if isinstance(i, ast.If) and "exit_planes" in norm_text(i.test):
            for r in [x for x in i.body if isinstance(x, ast.Return) and isinstance(x.value, ast.BinOp)
                      and isinstance(x.value.left, ast.Tuple)]:
                ctx.check(isinstance(r.value.op, ast.Add), "R-THICKNESS", f"{et.qualname}:entrance-concat", et.loc(r),
                          "(0.0,) is concatenated with the remaining thicknesses",
                          f"`{norm_text(r.value)}` is not a concatenation of the entrance thickness with the remaining "
                          "thicknesses", key_detail="concat")
    _inner_run_c07c(ctx)
    if pending is not None:
        raise pending


# ---- added after the seeded change C07-r7seed2: detection at an exit plane leaves the propagated waves untouched
_inner_run_c07d = run


def _detect_pure(ctx) -> None:
    from ..rules import detectpure

    repo = ctx.repo
    um = repo.function(MS, UPDATE)
    base = repo.cls("abtem.detectors", "BaseDetector")
    wcls = repo.cls("abtem.waves", "Waves")
    # premise 1: the series records `<detector>.detect(<the wave it was handed>)`
    wpar = um.positional_params[0]
    dcalls = [c for c in walk_no_nested(um.node) if isinstance(c, ast.Call) and isinstance(c.func, ast.Attribute)
              and len(c.args) == 1 and dotted(c.args[0]) == wpar]
    ctx.require(len(dcalls) >= 1, f"{um.qualname}: no `<detector>.<method>(waves)` call found")
    entry = {c.func.attr for c in dcalls}
    ctx.require(len(entry) == 1, f"{um.qualname}: several detector methods receive the waves")
    entry_name = entry.pop()
    # premise 2: that method evaluates the transform through <waves>.apply_transform(self) -> _calculate_new_array
    bd = base.find_method(entry_name)
    ctx.require(bd is not None, f"BaseDetector has no {entry_name}")
    reach, todo = [], [bd]
    while todo:
        m = todo.pop()
        if m in reach:
            continue
        reach.append(m)
        for c in walk_no_nested(m.node):
            if isinstance(c, ast.Call) and (dotted(c.func) or "").startswith("self.") and base.find_method(c.func.attr):
                todo.append(base.find_method(c.func.attr))
    handoff = [c for m in reach for c in walk_no_nested(m.node) if isinstance(c, ast.Call) and isinstance(
        c.func, ast.Attribute) and wcls.find_method(c.func.attr) is not None and len(c.args) >= 1 and dotted(
        c.args[0]) == "self" and isinstance(c.func.value, ast.Name) and c.func.value.id in m.params]
    ctx.require(len(handoff) == 1, f"BaseDetector.{entry_name}: the hand-off `<waves>.apply_transform(self)` was not found")
    boundary = handoff[0].func.attr
    kernel = "_calculate_new_array"
    dets = [c for c in repo.all_classes() if base in c.mro()]
    entries = []
    for c in dets:
        for name in (entry_name, kernel):
            for m in c.methods.get(name, []):
                if not m.is_abstract and len(m.positional_params) >= 2:
                    entries.append(m)
    ctx.require(sum(1 for m in entries if m.name == kernel) >= 4, "detector kernels (_calculate_new_array) not found")
    pur = detectpure.Purity(repo, wcls, boundary=(boundary,))
    for m in entries:
        pur.analyse(m, {m.positional_params[1]: detectpure.W}, {}, ())
    for key, fd in sorted(pur.findings.items()):
        via = " <- ".join(reversed(fd.chain[-3:])) if fd.chain else "the detector"
        ctx.violation("R-DETECTPURE", f"{fd.func.qualname}:{fd.text}", fd.func.loc(fd.node),
                      f"{fd.why}; reached from {via}. multislice_and_detect detects at every exit plane and keeps "
                      "propagating the same waves, so every exit plane after the first is computed from a destroyed "
                      "wave function and differs from the truncated simulation", key_detail=fd.kind)
    bad = {(k[0], k[2]) for k in pur.findings}
    nflag = 0
    for key, (f, node, txt) in sorted(pur.examined.items(), key=lambda kv: (kv[0][0], kv[0][1], str(kv[0][2]))):
        if key[2] != "flag":
            continue
        nflag += 1
        if (f.qualname, txt) not in bad:
            ctx.ok("R-DETECTPURE", f"{f.qualname}:{txt}", f.loc(node),
                   "the flag is false on every path on which the array is still the one the wave object holds")
    ctx.require(nflag >= 1, "R-DETECTPURE: no in-place capable call on the array of the detected waves was examined")
    ctx.extra["detectpure_entries"] = sorted(m.qualname for m in entries)
    ctx.extra["detectpure_external_callees"] = sorted(pur.external)


def run(ctx) -> None:  # noqa: F811
    from ..rules import deferred

    ctx.rule("R-DETECTPURE", "detection is pure: nothing reached from <detector>.detect(waves) — the detector kernels "
             "_calculate_new_array of every detector class, the methods of the wave class they call on the waves "
             "(diffraction_patterns, intensity, ensure_real_space ...) and the package functions that receive the "
             "array of the waves — writes the array the wave object holds: no `op=`, subscript store, out=, mutator "
             "method on it, and no call of an in-place capable routine (a parameter overwrite_x / in_place / "
             "overwrite) with that array unless the flag is false on every path on which the array is still the "
             "receiver's (the flag is evaluated per path in three-valued logic; arithmetic, copies and allocators end "
             "the ownership, views and functions that may return their argument keep it). multislice_and_detect "
             "hands the same waves to the detectors at every exit plane and propagates them further, so a write "
             "makes every later exit plane differ from the truncated simulation")
    ctx.assume("C38 R-INPLACE / R-FLAG: an FFT routine with an overwrite flag writes its array argument only when the "
               "flag is true")
    deferred.run(ctx, lambda: _detect_pure(ctx), _inner_run_c07d)
