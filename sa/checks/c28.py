"""C28 — ptychographic operators honour their mathematical contracts (abtem/reconstruct.py).

  R-CARD      symbolic cardinality: _calculate_scan_positions_in_pixels returns (J, 2) for explicit (J, 2)
              positions and (nx*ny, 2) for a raster scan.
  R-PROJECTION  RegularizedPtychographicOperator._fourier_projection returns ifft2(dp * unit-phase(fft2(psi))):
              the measured amplitude enters with exponent one, the phase is that of the Fourier transform of
              the exit wave, nothing else multiplies the result.
  R-FIXEDPOINT-ERR  every contribution to the returned error vanishes identically when |fft2(psi)| == dp.
  R-FACTOR    every increment that _update_function applies to a returned estimate vanishes identically
              when the modified exit wave equals the exit wave.
  R-PAIRING   the reconstruction loop reads position and diffraction pattern with the same index, feeds the
              overlap projection's exit wave to the Fourier projection and both to the update, and stores
              the updated position back under that index.
"""
from __future__ import annotations

import ast
import re
from fractions import Fraction

from ..cfg import DataFlow
from ..model import AnalysisError, call_name, dotted, kw, last_attr, norm_text, walk_no_nested
from ..rules.absint import PathInterp
from ..rules.shapes import NONE, SCALAR, UNKNOWN, Arr, DictV, IntV, ShapeDomain, Tup, dim, shape_text
from ..rules import roundform as _rf
from ..rules.versioned import CanonNormalizer
from ..terms import Poly

MOD = "abtem.reconstruct"
ANCHOR = "RegularizedPtychographicOperator"
OPERATORS = ["RegularizedPtychographicOperator", "SimultaneousPtychographicOperator",
             "MixedStatePtychographicOperator", "MultislicePtychographicOperator"]
I_ATOM = "𝑖"
VOCAB = {"exp", "angle", "abs", "absolute", "fft2", "ifft2", "conj", "conjugate", "sqrt", "real", "imag",
         # guards around the modulus: recognised so that a regularised division is classified (as not exact)
         "maximum", "minimum", "clip", "where", "finfo", "eps", "dtype", "tiny", "float32", "float64",
         # comparison operators as they appear in normal forms of masks (where(d > 0, ...)): a masked projection is
         # classified (as not the exact projection), not unreadable
         "Lt", "LtE", "Gt", "GtE", "Eq", "NotEq", "logical_and", "logical_or", "logical_not", "isfinite", "isclose"}


def _k(p: Poly) -> str:
    k = p.key()
    return k[2:] if k.startswith("1*") and " + " not in k else k


def run(ctx) -> None:
    repo = ctx.repo
    ctx.rule("R-CARD", "_calculate_scan_positions_in_pixels returns an array of shape (J, 2) for explicit positions of "
             "shape (J, 2) and (nx*ny, 2) for a raster scan of shape (nx, ny), for every combination of rotation "
             "angle and padding (symbolic shape domain)")
    ctx.rule("R-PROJECTION", "_fourier_projection returns ifft2(dp * u) where u is the unit-modulus phase factor of "
             "fft2(exit_waves) (exp(1j*angle(F)) or F/|F|): amplitude exponent one, phase of the transform of the exit "
             "wave, no further factor")
    ctx.rule("R-FIXEDPOINT-ERR", "every contribution _fourier_projection adds to the returned error estimate "
             "normalises to zero under |fft2(exit_waves)| == diffraction_patterns")
    ctx.rule("R-FACTOR", "every increment _update_function applies to an estimate it returns normalises to zero under "
             "modified_exit_waves == exit_waves (the difference of exit waves is a factor of the increment)")
    ctx.rule("R-PAIRING", "in reconstruct() position and diffraction pattern are read with the same index, the exit "
             "wave of the overlap projection is the input of the Fourier projection, exit wave / modified exit wave "
             "/ pattern reach the update in their parameter positions and the updated position is stored under the "
             "same index")
    ctx.undecided("that explicit positions keep their order (implied by element-wise arithmetic once R-CARD holds)")
    ctx.undecided("idempotence of the Fourier projection and invariance under the r-PIE update as numerical statements; "
                  "the position-correction callable; the Simultaneous/MixedState/Multislice operators' update rules "
                  "beyond the factor rule where their shape allows it")

    _card(ctx, repo)
    _projection(ctx, repo)
    _factor(ctx, repo)
    _pairing(ctx, repo)


# ---------------------------------------------------------------------- R-CARD
def _card(ctx, repo) -> None:
    f = repo.method(MOD, "AbstractPtychographicOperator", "_calculate_scan_positions_in_pixels")
    p = f.positional_params
    ctx.require(p[:4] == ["positions", "sampling", "region_of_interest_shape", "experimental_parameters"],
                f"{f.qualname}: signature changed")
    J, nx, ny = dim("J"), dim("nx"), dim("ny")
    cases = {
        "explicit positions (J, 2)": (Arr((J, dim(2))), (J, dim(2)), None),
        "raster scan (nx, ny)": (NONE, (nx * ny, dim(2)), Tup((IntV(nx), IntV(ny)))),
    }
    for label, (pos, want, grid) in cases.items():
        got: dict[str, list[str]] = {}
        errors: list[str] = []
        where = f.where
        n_paths = 0
        for rot_label, rot in (("rotation_angle=None", NONE), ("rotation_angle=float", SCALAR)):
            for pad_label, pad in (("padding=None", NONE), ("padding=(2,)", Arr((dim(2),)))):
                exp = DictV((("grid_scan_shape", grid if grid is not None else UNKNOWN),
                             ("scan_step_sizes", Tup((SCALAR, SCALAR))),
                             ("rotation_angle", rot), ("object_px_padding", pad)))
                env = {"positions": pos, "sampling": Tup((SCALAR, SCALAR)),
                       "region_of_interest_shape": Tup((IntV(dim("rx")), IntV(dim("ry")))),
                       "experimental_parameters": exp}
                for r in PathInterp(ShapeDomain()).run(f.node.body, env):
                    if r.kind == "raise":
                        continue
                    n_paths += 1
                    if r.kind == "error":
                        errors.append(f"{rot_label}, {pad_label}: {r.message}")
                        where = f.loc(r.node)
                        continue
                    if r.kind != "return" or not isinstance(r.value, Tup) or not r.value.items:
                        raise AnalysisError(f"{f.qualname}: a path does not return (positions, parameters)")
                    v = r.value.items[0]
                    if not isinstance(v, Arr):
                        raise AnalysisError(f"{f.qualname}: shape of the returned positions is not determined "
                                            f"({rot_label}, {pad_label})")
                    where = f.loc(r.node)
                    got.setdefault(shape_text(v.shape), []).append(f"{rot_label}, {pad_label}")
        ctx.require(n_paths >= 4, f"{f.qualname}: fewer than four returning paths for {label}")
        wanted = shape_text(want)
        good = not errors and set(got) == {wanted}
        bad = "; ".join(f"{s} on {len(v)} of {n_paths} paths" for s, v in sorted(got.items()) if s != wanted)
        ctx.check(good, "R-CARD", f"{f.qualname}:{label}", where,
                  f"returns positions of shape {wanted} on all {n_paths} paths",
                  f"{label}: returns positions of shape {bad or '?'} instead of {wanted}"
                  + (f"; abstract execution fails: {errors[0]}" if errors else "")
                  + (" — the number of scan positions no longer equals the number of diffraction patterns"),
                  key_detail="card")


# ---------------------------------------------------------------------- R-PROJECTION / R-FIXEDPOINT-ERR
def _parse(expr: str) -> ast.expr:
    return ast.parse(expr, mode="eval").body


def _projection(ctx, repo) -> None:
    f = repo.method(MOD, ANCHOR, "_fourier_projection")
    base = repo.method(MOD, "AbstractPtychographicOperator", "_fourier_projection")
    ctx.require(base.positional_params[:3] == f.positional_params[:3],
                "_fourier_projection: parameter order differs from the abstract operator")
    ew, dp, sse = f.positional_params[:3]
    df = DataFlow(f.node)
    rets = [n for n in walk_no_nested(f.node) if isinstance(n, ast.Return)]
    ctx.require(len(rets) == 1 and isinstance(rets[0].value, ast.Tuple) and len(rets[0].value.elts) == 2,
                "_fourier_projection: expected a single `return modified_exit_wave, sse`")
    ret = rets[0]
    rnode = df.cfg.node_of(ret).idx
    nz = CanonNormalizer(df, rnode)
    # resolve the returned wave to its defining call
    wave = ret.value.elts[0]
    expr = wave
    hops = 0
    at = rnode
    while isinstance(expr, ast.Name) and hops < 6:
        d = df.single_def(at, expr.id)
        if d is None or d.kind != "assign" or d.value is None:
            raise AnalysisError("_fourier_projection: the returned wave has no single defining assignment")
        expr, at = d.value, d.node
        hops += 1
    ctx.require(isinstance(expr, ast.Call) and nz.canon_callee(expr.func) in ("ifft2",) and len(expr.args) >= 1,
                "_fourier_projection: the returned wave is not the result of an inverse 2D FFT")
    inner = CanonNormalizer(df, at).norm(expr.args[0])
    entry = CanonNormalizer(df, df.cfg.entry + 0)
    # expected forms, normalised with the same machinery (names are the function's own parameters)
    F = f"fft2({ew})"
    forms = {
        "dp*exp(1j*angle(F))": _parse(f"{dp} * exp(1j * angle({F}))"),
        "dp*F/|F|": _parse(f"{dp} * {F} / abs({F})"),
    }
    want = {k: CanonNormalizer(df, rnode, ).norm(v) for k, v in forms.items()}
    # the expected terms must be expressed over parameter atoms: re-normalise the actual term with parameters kept
    match = [k for k, v in want.items() if _same(inner, v, df, ew, dp)]
    construct = f"{f.qualname}:projected wave"
    if match:
        ctx.ok("R-PROJECTION", construct, f.loc(ret), f"ifft2({_k(inner)}) has the form {match[0]}")
    else:
        idents = set(re.findall(r"[A-Za-z_]\w*", inner.key())) - {"param", "L1", "L2", "L3"}
        idents = {i for i in idents if not re.fullmatch(r"L\d+", i)}
        if not idents <= VOCAB | {ew, dp}:
            raise AnalysisError(f"_fourier_projection: cannot classify the projected term {_k(inner)}")
        ctx.violation("R-PROJECTION", construct, f.loc(ret),
                      f"the projected wave is ifft2({_k(inner)}); the Fourier projection must be "
                      f"ifft2({dp} * exp(1j*angle(fft2({ew})))) — measured amplitude (exponent one) times the "
                      "unit-modulus phase of the transformed exit wave", key_detail="form")

    # error term: contributions vanish at |F| == dp
    serr = ret.value.elts[1]
    ctx.require(isinstance(serr, ast.Name), "_fourier_projection: the returned error is not a variable")
    absF = CanonNormalizer(df, rnode).norm(_parse(f"abs({F})"))
    ctx.require(len(absF.terms) == 1, "internal: |F| atom")
    absF_atom = next(iter(absF.atoms()))
    rewrite = {absF_atom: Poly.atom(_atom_name(df, dp))}
    incs = []
    for st in walk_no_nested(f.node):
        if isinstance(st, ast.AugAssign) and isinstance(st.target, ast.Name) and st.target.id == serr.id:
            ctx.require(isinstance(st.op, (ast.Add, ast.Sub)), "_fourier_projection: error is not accumulated additively")
            incs.append((st, st.value, None))
        elif isinstance(st, ast.Assign) and any(isinstance(t, ast.Name) and t.id == serr.id for t in st.targets):
            incs.append((st, st.value, serr.id))
    ctx.require(len(incs) >= 1, "_fourier_projection: no contribution to the returned error found")
    for st, val, minus in incs:
        node = df.cfg.node_of(st).idx
        z = CanonNormalizer(df, node, rewrite=rewrite)
        z.no_inline.add(serr.id)
        p = z.norm(val)
        if minus:
            p = p - z.norm(ast.Name(id=minus, ctx=ast.Load()))
        plain = CanonNormalizer(df, node)
        plain.no_inline.add(serr.id)
        shown = plain.norm(val)
        depends = any(absF_atom in a for a in shown.atoms())
        ctx.check(p.is_zero() and depends, "R-FIXEDPOINT-ERR", f"{f.qualname}:error contribution {norm_text(st)[:40]}",
                  f.loc(st), f"{_k(shown)[:110]} vanishes at |F| == {dp}",
                  f"the error contribution {_k(shown)[:140]} does not vanish when |fft2({ew})| == {dp} "
                  f"(residual {_k(p)[:100]}): a perfect reconstruction reports a non-zero error"
                  if not p.is_zero() else
                  f"the error contribution {_k(shown)[:140]} does not measure the Fourier amplitude of {ew}",
                  key_detail="sse")


def _atom_name(df, name: str) -> str:
    nz = CanonNormalizer(df, df.cfg.exit)
    # version of a parameter as seen where it has not been reassigned
    has_versions = sum(1 for d in df.defs if d.var == name and d.strong) > 1
    return f"{name}@param" if has_versions else name


def _same(actual: Poly, want: Poly, df, ew: str, dp: str) -> bool:
    if actual == want:
        return True
    # parameters that are re-assigned get version tags; compare modulo `@param`
    strip = lambda p: re.sub(r"@param", "", p.key())
    return strip(actual) == strip(want)


# ---------------------------------------------------------------------- R-FACTOR
def _pair_params(repo, cls_name: str):
    """(exit param, modified param, dp param) of cls._update_function from the reconstruct() call site."""
    rec = repo.method(MOD, cls_name, "reconstruct")
    upd = repo.method(MOD, cls_name, "_update_function")
    alias = _step_aliases(repo, cls_name, rec)
    calls = {n: [c for c in walk_no_nested(rec.node) if isinstance(c, ast.Call)
                 and alias.get(call_name(c), call_name(c)) == n]
             for n in ("_overlap_projection", "_fourier_projection", "_update_function")}
    if any(len(v) != 1 for v in calls.values()):
        raise AnalysisError(f"{rec.qualname}: expected exactly one call each of the three operator steps")
    fp, uf = calls["_fourier_projection"][0], calls["_update_function"][0]
    fstmt = _stmt_of(rec.node, fp)
    if not (isinstance(fstmt, ast.Assign) and isinstance(fstmt.targets[0], ast.Tuple) and fstmt.value is fp
            and isinstance(fstmt.targets[0].elts[0], ast.Name) and fp.args and isinstance(fp.args[0], ast.Name)):
        raise AnalysisError(f"{rec.qualname}: cannot read `modified, sse = _fourier_projection(exit, dp, sse)`")
    modified, exit_ = fstmt.targets[0].elts[0].id, fp.args[0].id
    names = [a.id if isinstance(a, ast.Name) else None for a in uf.args]
    if modified not in names or exit_ not in names:
        raise AnalysisError(f"{rec.qualname}: the update is not called with the exit wave and the modified exit wave")
    params = upd.positional_params
    return rec, upd, params[names.index(exit_)], params[names.index(modified)], (calls, fstmt, modified, exit_)


ROLES = ("_overlap_projection", "_fourier_projection", "_update_function")


def _step_aliases(repo, cls_name: str, rec) -> dict:
    """local name -> operator step, for `a, b, c, d = update_step` in reconstruct().

    The queue holds tuples `(self._overlap_projection, self._fourier_projection, self._update_function, ...)` built in
    the class's other methods; position i of the unpacking is the step whose bound methods sit at position i of every
    such tuple literal (warm-up / alternative variants carry the step's name as a suffix)."""
    cls = repo.cls(MOD, cls_name)
    by_pos: dict[int, set] = {}
    for klass in cls.mro():
        for m in (f for fs in klass.methods.values() for f in fs):
            for t in ast.walk(m.node):
                if isinstance(t, ast.Tuple) and isinstance(t.ctx, ast.Load) and len(t.elts) >= 3:
                    roles = []
                    for e in t.elts:
                        d = dotted(e) or ""
                        r = next((r for r in ROLES if d.startswith("self.") and d.endswith(r[1:])), None)
                        roles.append(r)
                    if sum(r is not None for r in roles) >= 3:
                        for i, r in enumerate(roles):
                            if r:
                                by_pos.setdefault(i, set()).add(r)
    out = {}
    for st in walk_no_nested(rec.node):
        if isinstance(st, ast.Assign) and isinstance(st.targets[0], ast.Tuple) and isinstance(st.value, ast.Name) \
                and len(st.targets[0].elts) >= 3 and all(isinstance(e, ast.Name) for e in st.targets[0].elts):
            for i, e in enumerate(st.targets[0].elts):
                if len(by_pos.get(i, ())) == 1:
                    out[e.id] = next(iter(by_pos[i]))
    return out


def _stmt_of(func: ast.FunctionDef, target: ast.AST) -> ast.stmt:
    best = None
    for st in walk_no_nested(func):
        if isinstance(st, ast.stmt) and not isinstance(st, (ast.If, ast.For, ast.While, ast.With, ast.Try,
                                                            ast.FunctionDef)):
            if any(n is target for n in ast.walk(st)):
                best = st
    if best is None:
        raise AnalysisError(f"{func.name}: statement of `{norm_text(target)[:40]}` not found")
    return best


def _factor(ctx, repo) -> None:
    for cls_name in OPERATORS:
        mandatory = cls_name == ANCHOR
        try:
            _factor_one(ctx, repo, cls_name)
        except AnalysisError as e:
            if mandatory:
                raise
            ctx.info("R-FACTOR", f"{MOD}.{cls_name}._update_function", repo.cls(MOD, cls_name).where,
                     f"not analysed: {e}")


def _factor_one(ctx, repo, cls_name: str) -> None:
    rec, upd, p_exit, p_mod, _ = _pair_params(repo, cls_name)
    df = DataFlow(upd.node)
    rets = [n for n in walk_no_nested(upd.node) if isinstance(n, ast.Return) and n.value is not None]
    if len(rets) != 1:
        raise AnalysisError(f"{upd.qualname}: expected one return")
    returned = {n.id for n in ast.walk(rets[0].value) if isinstance(n, ast.Name)}
    # components of sequence-valued exit waves: `a, b = exit_waves` / `ma, mb = modified_exit_waves`
    comp: dict[str, list[str]] = {}
    for st in walk_no_nested(upd.node):
        if isinstance(st, ast.Assign) and isinstance(st.value, ast.Name) and st.value.id in (p_exit, p_mod) \
                and isinstance(st.targets[0], ast.Tuple) and all(isinstance(e, ast.Name) for e in st.targets[0].elts):
            comp[st.value.id] = [e.id for e in st.targets[0].elts]
    pairs = [(p_mod, p_exit)]
    if p_mod in comp and p_exit in comp and len(comp[p_mod]) == len(comp[p_exit]):
        pairs += list(zip(comp[p_mod], comp[p_exit]))
    incs = []
    for st in walk_no_nested(upd.node):
        if isinstance(st, ast.AugAssign) and isinstance(st.op, (ast.Add, ast.Sub)):
            root = st.target
            while isinstance(root, (ast.Subscript, ast.Attribute)):
                root = root.value
            if isinstance(root, ast.Name) and root.id in returned:
                incs.append((st, root.id))
    if not incs:
        raise AnalysisError(f"{upd.qualname}: no additive in-place update of a returned estimate found")
    for st, tgt in incs:
        node = df.cfg.node_of(st).idx
        p = CanonNormalizer(df, node).norm(st.value)
        nz = CanonNormalizer(df, node)
        for m, e in pairs:
            nz.extra[m] = ast.Name(id=e, ctx=ast.Load())  # evaluate the increment at modified == exit
        q = nz.norm(st.value)
        if not q.is_zero() and df.cfg.node_of(st).loops:
            raise AnalysisError(f"{upd.qualname}: increment inside a loop is outside the term language")
        ctx.check(q.is_zero(), "R-FACTOR", f"{upd.qualname}:increment of {norm_text(st.target)}", upd.loc(st),
                  f"vanishes identically at {p_mod} == {p_exit}",
                  f"the increment `{norm_text(st)[:90]}` ({_k(p)[:140]}) does not vanish when {p_mod} == {p_exit}: "
                  "with the true object and probe the update still changes the estimate", key_detail="factor")


# ---------------------------------------------------------------------- R-PAIRING
def _pairing(ctx, repo) -> None:
    rec, upd, p_exit, p_mod, (calls, fstmt, modified, exit_) = _pair_params(repo, ANCHOR)
    df = DataFlow(rec.node)
    ov, fp, uf = calls["_overlap_projection"][0], calls["_fourier_projection"][0], calls["_update_function"][0]
    ostmt = _stmt_of(rec.node, ov)
    ustmt = _stmt_of(rec.node, uf)
    onode, fnode, unode = (df.cfg.node_of(s).idx for s in (ostmt, fstmt, ustmt))
    # exit wave of the overlap projection is the Fourier projection's input
    d = df.single_def(fnode, exit_)
    ctx.check(d is not None and d.node == onode, "R-PAIRING", f"{rec.qualname}:overlap->fourier", rec.loc(fstmt),
              f"`{exit_}` comes from the overlap projection",
              f"the Fourier projection's input `{exit_}` is not the exit wave of the overlap projection",
              key_detail="exit")
    d1, d2 = df.single_def(unode, exit_), df.single_def(unode, modified)
    ctx.check(d1 is not None and d1.node == onode and d2 is not None and d2.node == fnode, "R-PAIRING",
              f"{rec.qualname}:fourier->update", rec.loc(ustmt),
              "the update receives this step's exit wave and modified exit wave",
              "the update does not receive the exit wave / modified exit wave produced in this step", key_detail="upd")
    # parameter positions (exit before modified, as in the abstract operator)
    base = repo.method(MOD, "AbstractPtychographicOperator", "_update_function")
    names = [a.id if isinstance(a, ast.Name) else None for a in uf.args]
    bp = base.positional_params
    ok = "exit_waves" in bp and "modified_exit_waves" in bp and names.index(exit_) == bp.index("exit_waves") \
        and names.index(modified) == bp.index("modified_exit_waves") \
        and upd.positional_params[:len(bp)] == bp[:len(upd.positional_params)]
    ctx.check(ok, "R-PAIRING", f"{rec.qualname}:update-argument-order", rec.loc(uf),
              f"({exit_}, {modified}) bound to ({p_exit}, {p_mod})",
              f"exit wave and modified exit wave are bound to ({p_exit}, {p_mod}), not to (exit_waves, "
              "modified_exit_waves) of the operator interface", key_detail="order")
    # same index for position and diffraction pattern, store-back under that index
    dp_arg = fp.args[1] if len(fp.args) > 1 else None
    pos_arg = ov.args[2] if len(ov.args) > 2 else None
    ctx.require(isinstance(dp_arg, ast.Name) and isinstance(pos_arg, ast.Name),
                f"{rec.qualname}: pattern / position arguments are not local variables")
    ddp, dpos = df.single_def(fnode, dp_arg.id), df.single_def(onode, pos_arg.id)
    ctx.require(ddp is not None and dpos is not None and isinstance(ddp.value, ast.Subscript)
                and isinstance(dpos.value, ast.Subscript),
                f"{rec.qualname}: pattern / position are not read by indexing")
    nzp, nzd = CanonNormalizer(df, dpos.node), CanonNormalizer(df, ddp.node)
    ip, idp = nzp.norm(dpos.value.slice), nzd.norm(ddp.value.slice)
    ctx.check(ip == idp, "R-PAIRING", f"{rec.qualname}:same-index", rec.loc(fstmt),
              f"{norm_text(dpos.value)} and {norm_text(ddp.value)} use the same index",
              f"position is read as {norm_text(dpos.value)} but the diffraction pattern as {norm_text(ddp.value)}: "
              "position j is reconstructed against the pattern of another scan point", key_detail="index")
    back = None
    if isinstance(ustmt, ast.Assign) and isinstance(ustmt.targets[0], ast.Tuple):
        for t in ustmt.targets[0].elts:
            if isinstance(t, ast.Subscript) and dotted(t.value) == dotted(dpos.value.value):
                back = t
    if back is None:
        ctx.info("R-PAIRING", f"{rec.qualname}:store-back", rec.loc(ustmt), "updated position is not stored back by index")
    else:
        ib = CanonNormalizer(df, unode).norm(back.slice)
        ctx.check(ib == ip, "R-PAIRING", f"{rec.qualname}:store-back", rec.loc(ustmt),
                  f"updated position stored at {norm_text(back)}",
                  f"updated position stored at {norm_text(back)} but read from {norm_text(dpos.value)}",
                  key_detail="back")


# ---- added after the seeded change C28-r3seed2: the probe is re-positioned by the *difference* of sub-pixel offsets
_inner_run_c28 = run


def run(ctx) -> None:  # noqa: F811
    from ..cfg import DataFlow as _DF

    ctx.rule("R-RESHIFT", "in every _overlap_projection the probe(s) carried over from the previous scan position are "
             "re-positioned with fft_shift by a shift that depends on both the new and the old position (the difference "
             "of their sub-pixel parts), and that call is unconditional — or its guard depends on both positions as "
             "well.  A guard on the new position alone (`if any(fractional_position != 0)`) skips the shift when an "
             "on-pixel position follows a sub-pixel one: the probe keeps the old offset, the true object and probe are "
             "no longer a fixed point and the reported error is non-zero")
    repo = ctx.repo
    mod = repo.modules[MOD]
    n = 0
    for c in mod.classes.values():
        f = c.own_method("_overlap_projection") or c.own_method("_warmup_overlap_projection")
        for f in [m for name in ("_overlap_projection", "_warmup_overlap_projection", "_alternative_overlap_projection")
                  for m in ([c.own_method(name)] if c.own_method(name) is not None else [])]:
            ps = f.positional_params
            pos = next((p for p in ps if p == "position"), None)
            old = next((p for p in ps if p == "old_position"), None)
            if pos is None or old is None:
                continue
            df = _DF(f.node)
            calls = [k for k in walk_no_nested(f.node) if isinstance(k, ast.Call) and call_name(k) == "fft_shift"
                     and len(k.args) >= 2]
            for k in calls:
                st = _stmt_of(f.node, k)
                at = df.cfg.node_of(st).idx
                sl = df.backward_slice(at, k.args[1])
                if not ({pos, old} <= sl.params):
                    continue  # some other shift (centring by the centre of mass ...)
                n += 1
                guards = [i for i in walk_no_nested(f.node) if isinstance(i, ast.If) and any(
                    x is st for b in (i.body + i.orelse) for x in ast.walk(b))]
                bad = None
                for g in guards:
                    gs = df.backward_slice(df.cfg.node_of(g).idx, g.test)
                    touches = {pos, old} & gs.params
                    if touches and touches != {pos, old}:
                        bad = (g, sorted(touches))
                ctx.check(bad is None, "R-RESHIFT", f"{f.qualname}:probe re-positioned", f.loc(k),
                          f"`{norm_text(k)[:60]}` is applied for every pair of old and new position",
                          f"`{norm_text(k)[:60]}` is skipped under `{norm_text(bad[0].test)[:50]}`, a condition on "
                          f"{bad[1]} alone: when that position is on the pixel grid the probe keeps the sub-pixel "
                          "offset of the previous position" if bad else "", key_detail="reshift")
    ctx.require(n >= 2, f"R-RESHIFT found only {n} position-difference shifts")
    _inner_run_c28(ctx)


# ======================================================================================================================
# rules added after the mutation sweep (tools/mutation_sweep.py C28): window geometry, sub-pixel bookkeeping of the
# probe, argument roles of the window helper
# ======================================================================================================================
_inner_run_c28_sweep1 = run

WINDOW_FN = "_wrapped_indices_2D_window"
ROUNDERS = {"round", "around", "rint", "round_"}
_VALUE_PRESERVING = {"asnumpy", "asarray", "array", "asanyarray", "ascontiguousarray", "copy_to_device"}
_OVERLAP_NAMES = ("_overlap_projection", "_warmup_overlap_projection", "_alternative_overlap_projection")


def _short_callee(call: ast.Call) -> str:
    return (call_name(call) or "").split(".")[-1]


def _peel(expr: ast.AST) -> tuple[ast.AST, list[str]]:
    """Strip value-preserving wrappers and integer casts; returns (core expression, names of rounding calls met)."""
    rounders: list[str] = []
    while True:
        if isinstance(expr, ast.Call) and isinstance(expr.func, ast.Attribute) and expr.func.attr in ("astype", "get") \
                and not isinstance(expr.func.value, ast.Name):
            expr = expr.func.value
        elif isinstance(expr, ast.Call) and isinstance(expr.func, ast.Attribute) and expr.func.attr == "astype":
            expr = expr.func.value
        elif isinstance(expr, ast.Call) and _short_callee(expr) in _VALUE_PRESERVING and expr.args:
            expr = expr.args[0]
        elif isinstance(expr, ast.Call) and _short_callee(expr) in ROUNDERS and len(expr.args) == 1 and not expr.keywords:
            rounders.append(_short_callee(expr))
            expr = expr.args[0]
        else:
            return expr, rounders


class _WindowEval:
    """Reads the arithmetic of the window helper into the componentwise normal form of sa/rules/roundform.py.

    Leaves are the components of the three parameters (centre: real-valued, window / array extents: integers); vector
    expressions (`np.array((nx, ny))`, wrappers, casts of whole numbers, tuple unpacking, temporaries) are evaluated
    component by component with ROUND(.) and FLOORDIV(., d) atoms.  Code outside that language is an AnalysisError."""

    def __init__(self, f, df):
        self.f, self.df = f, df
        self.center, self.window, self.array = f.positional_params[:3]
        self.roles = _rf.Roles({"center": False, "window": True, "array": True})
        self.sym = _rf.RoundEval(f, df, {self.center: "center", self.window: "window", self.array: "array"},
                                 self.roles)

    def form(self, e: ast.AST, at: int):
        """Normal form of a single component."""
        return self.sym.scalar(self.sym.ev(e, at), e)

    def resolve_expr(self, e: ast.AST, at: int) -> tuple[ast.AST, int]:
        hops = 0
        while isinstance(e, ast.Name) and hops < 8:
            d = self.df.single_def(at, e.id)
            if d is None or d.kind != "assign" or d.value is None:
                break
            st = self.df.cfg.nodes[d.node].ast
            if isinstance(st, ast.Assign) and d.value is st.value and isinstance(st.targets[0], (ast.Tuple, ast.List)):
                break
            e, at = d.value, d.node
            hops += 1
        return e, at


_WINDOW_ENVS = [  # (window extents, array extents, centres)
    ((5, 8), (31, 47), (100, 200)),
    ((4, 7), (29, 53), (3, 11)),
    ((1, 2), (17, 19), (40, 9)),
    ((6, 3), (23, 13), (-7, 64)),
    ((9, 10), (37, 41), (0, 1)),
]

# extents of both parities on both axes; centres on the grid, off the grid, exactly between two pixels (numpy rounds
# half to even: the parity of the neighbouring pixel matters), negative, and with both components varying independently
_ROUND_EXTENTS = [((5, 8), (31, 47)), ((8, 5), (47, 31)), ((4, 7), (29, 53)), ((7, 4), (53, 29)), ((1, 2), (17, 19)),
                  ((6, 3), (23, 13)), ((16, 15), (64, 64)), ((15, 16), (64, 64))]
_F = Fraction
_ROUND_CENTRES = [(_F(20), _F(7)), (_F(21), _F(15, 2)), (_F(203, 10), _F(43, 5)), (_F(41, 2), _F(19, 2)),
                  (_F(43, 2), _F(21, 2)), (_F(207, 10), _F(-7, 2)), (_F(-7, 2), _F(20)), (_F(-9, 2), _F(21)),
                  (_F(-16, 5), _F(0)), (_F(0), _F(1, 2)), (_F(1, 2), _F(100)), (_F(20), _F(101)), (_F(7), _F(203, 10))]


def _env(we, win, arr, cen) -> dict:
    env = {}
    for role, vals in (("window", win), ("array", arr), ("center", cen)):
        env[(role, 0)], env[(role, 1)] = vals
    return env


def _num(q) -> str:
    q = Fraction(q)
    return str(q.numerator) if q.denominator == 1 else str(float(q))


def _window_round(ctx, f, we, k: int, lo, where) -> None:
    """R-WINDOWROUND for axis k: lo == ROUND(centre[k]) + (something the centre does not enter)."""
    construct = f"{f.qualname}:axis {k}"
    target = _rf.mk_round(_rf.Lin.leaf("center", k), we.roles)
    rest = lo - target
    if not _rf.has_role(rest, "center"):
        ctx.ok("R-WINDOWROUND", construct, where,
               f"first index = ROUND(centre[{k}]) + ({rest.text()}): the window follows the rounded position rigidly")
        return
    raw = [1 for role, _, depth in _rf.leaves(lo) if role == "center" and depth == 0]
    if raw or not _rf.is_integer(lo, we.roles):
        raise AnalysisError(f"{f.qualname}: the centre position is not rounded to a pixel by a recognised function")
    # the centre enters through some other rounding: look for two centres whose windows sit differently relative to
    # the pixel the position rounds to
    for win, arr in _ROUND_EXTENTS:
        seen = None
        for cen in _ROUND_CENTRES:
            env = _env(we, win, arr, cen)
            r = Fraction(round(cen[k]))
            off = r - _rf.value(lo, env)
            if seen is None:
                seen = (cen, r, off)
            elif off != seen[2]:
                c0, r0, off0 = seen
                ctx.violation(
                    "R-WINDOWROUND", construct, where,
                    f"the first index of the window is {lo.text()}, which is not ROUND(centre[{k}]) plus a term "
                    f"independent of the centre: with a window extent of {win[k]} the position "
                    f"({_num(c0[0])}, {_num(c0[1])}) rounds to pixel {_num(r0)}, which becomes window pixel {_num(off0)}, "
                    f"but the position ({_num(cen[0])}, {_num(cen[1])}) rounds to pixel {_num(r)}, which becomes window "
                    f"pixel {_num(off)}.  The probe is shifted by position - round(position) relative to one fixed "
                    "window pixel, so for such positions the object window is a pixel off the pixel the probe sits on: "
                    "the exit wave of the true object and probe does not reproduce the measured amplitudes (non-zero "
                    "error, object and probe are modified)", key_detail="rigid")
                return
    raise AnalysisError(f"{f.qualname}: cannot decide whether the first index {lo.text()[:80]} of axis {k} follows the "
                        "rounded centre")


def _window(ctx, repo) -> set:
    """R-WINDOWROUND / R-WINDOW; returns the set of rounding functions that place the window."""
    f = repo.function(MOD, WINDOW_FN)
    ctx.require(len(f.positional_params) == 3, f"{f.qualname}: signature changed")
    df = DataFlow(f.node)
    rets = [n for n in walk_no_nested(f.node) if isinstance(n, ast.Return) and n.value is not None]
    ctx.require(len(rets) == 1, f"{f.qualname}: expected one return")
    we = _WindowEval(f, df)
    rnode = df.cfg.node_of(rets[0]).idx
    grid, gat = we.resolve_expr(rets[0].value, rnode)
    ctx.require(isinstance(grid, ast.Call) and _short_callee(grid) == "ix_" and len(grid.args) == 2,
                f"{f.qualname}: the result is not an open mesh np.ix_(rows, columns)")
    for k, arg in enumerate(grid.args):
        a, aat = we.resolve_expr(arg, gat)
        ctx.require(isinstance(a, ast.BinOp) and isinstance(a.op, ast.Mod),
                    f"{f.qualname}: index vector {k} is not wrapped with a modulus")
        rng, rat = we.resolve_expr(a.left, aat)
        ctx.require(isinstance(rng, ast.Call) and _short_callee(rng) == "arange" and len(rng.args) == 2
                    and not rng.keywords, f"{f.qualname}: index vector {k} is not arange(lo, hi) % extent")
        lo_f, hi_f, m_f = we.form(rng.args[0], rat), we.form(rng.args[1], rat), we.form(a.right, aat)
        _window_round(ctx, f, we, k, lo_f, f.loc(rets[0]))
        problems = []
        for win, arr, cen in _WINDOW_ENVS:
            env = _env(we, win, arr, cen)
            lo, hi, m = (_rf.value(x, env) for x in (lo_f, hi_f, m_f))
            n, s, c = win[k], arr[k], cen[k]
            if hi - lo != n:
                problems.append(f"the window has {_num(hi - lo)} entries for a window extent of {n}")
            elif m != s:
                problems.append(f"indices are wrapped modulo {_num(m)} in an array of extent {s}")
            elif c - lo not in (n // 2, (n - 1) // 2):
                problems.append(f"a window of {n} pixels centred at pixel {c} starts at pixel {_num(lo)}: the centre is "
                                f"{'outside the window' if not 0 <= c - lo < n else 'not in the middle of the window'}")
            if problems:
                break
        ctx.check(not problems, "R-WINDOW", f"{f.qualname}:axis {k}", f.loc(rets[0]),
                  f"arange(lo, hi) % extent: hi - lo is the window extent, the rounded centre sits in the middle and the "
                  f"modulus is the array extent of the same axis",
                  (problems[0] if problems else "") + " — the exit wave is formed with the wrong part of the object: "
                  "the true object and probe are not a fixed point of the update", key_detail=f"axis{k}")
    return {"round"}


def _overlap_methods(repo):
    mod = repo.modules[MOD]
    for c in mod.classes.values():
        for name in _OVERLAP_NAMES:
            m = c.own_method(name)
            if m is not None and "position" in m.positional_params and "old_position" in m.positional_params \
                    and any(isinstance(r, ast.Return) and r.value is not None for r in walk_no_nested(m.node)):
                yield c, m  # (the abstract operator's stub returns nothing)


def _strip_versions(p: Poly) -> str:
    return re.sub(r"@(?:param|L\d+)(?:\|(?:param|L\d+))*", "", p.key())


def _one_rounding(text: str) -> str:
    """np.round / np.around / np.round_ / np.rint all round half to even: one function under several names."""
    return re.sub(r"\b(?:around|rint|round_)\(", "round(", text)


def _fracshift(ctx, repo, rounders: set) -> None:
    n = 0
    for c, f in _overlap_methods(repo):
        pos, old = "position", "old_position"
        df = DataFlow(f.node)
        for k in [k for k in walk_no_nested(f.node) if isinstance(k, ast.Call) and _short_callee(k) == "fft_shift"
                  and len(k.args) >= 2]:
            st = _stmt_of(f.node, k)
            at = df.cfg.node_of(st).idx
            sl = df.backward_slice(at, k.args[1])
            if not ({pos, old} & sl.params):
                continue
            n += 1
            _check_shift(ctx, f, df, at, k, pos, old, rounders, f"{f.qualname}:probe shift")
    ctx.require(n >= 2, f"R-FRACSHIFT found only {n} probe shifts in the overlap projections")
    # after the sweep over the scan positions the probe is brought back onto the pixel grid
    m = 0
    for cls_name in OPERATORS:
        rec = repo.method(MOD, cls_name, "reconstruct")
        alias = _step_aliases(repo, cls_name, rec)
        ov = [k for k in walk_no_nested(rec.node) if isinstance(k, ast.Call)
              and alias.get(call_name(k), call_name(k)) == "_overlap_projection"]
        if len(ov) != 1 or len(ov[0].args) < 3 or not isinstance(ov[0].args[2], ast.Name):
            if cls_name == ANCHOR:
                raise AnalysisError(f"{rec.qualname}: cannot find the overlap projection call and its position argument")
            ctx.info("R-FRACSHIFT", f"{rec.qualname}:probe back on the pixel grid", rec.where, "not analysed")
            continue
        posvars = {a.id for a in ov[0].args[2:4] if isinstance(a, ast.Name)}  # position / recorded old position
        df = DataFlow(rec.node)
        found = 0
        for k in [k for k in ast.walk(rec.node) if isinstance(k, ast.Call) and _short_callee(k) == "fft_shift"
                  and len(k.args) >= 2]:
            used = posvars & {x.id for x in ast.walk(k.args[1]) if isinstance(x, ast.Name)}
            if not used:
                continue
            if len(used) != 1:
                raise AnalysisError(f"{rec.qualname}: the shift `{norm_text(k.args[1])[:50]}` mixes two positions")
            st = _stmt_of(rec.node, k)
            at = df.cfg.node_of(st).idx
            found += 1
            m += 1
            _check_shift(ctx, rec, df, at, k, None, next(iter(used)), rounders,
                         f"{rec.qualname}:probe back on the pixel grid")
        if not found:
            if cls_name == ANCHOR:
                raise AnalysisError(f"{rec.qualname}: the probe is not shifted back onto the pixel grid after the "
                                    "sweep (no fft_shift by the last position found)")
            ctx.info("R-FRACSHIFT", f"{rec.qualname}:probe back on the pixel grid", rec.where, "no such shift")
    ctx.require(m >= 1, "R-FRACSHIFT: no shift back onto the pixel grid found in any reconstruct()")


def _canon_rounding_src(expr: ast.AST, df, at: int, keep: set) -> str:
    """Source of `expr` with temporaries inlined (single reaching definitions) and every rounding function spelled
    `round`; names in `keep` stay as they are."""

    class T(ast.NodeTransformer):
        def __init__(self, node):
            self.node = node
            self.depth = 0

        def visit_Name(self, n: ast.Name):
            if n.id in keep or self.depth > 12:
                return n
            d = df.single_def(self.node, n.id)
            if d is None or d.kind != "assign" or d.value is None:
                return n
            st = df.cfg.nodes[d.node].ast
            if isinstance(st, ast.Assign) and d.value is st.value and isinstance(st.targets[0], (ast.Tuple, ast.List)):
                return n
            sub = T(d.node)
            sub.depth = self.depth + 1
            import copy as _copy
            return sub.visit(_copy.deepcopy(d.value))

        def visit_Call(self, c: ast.Call):
            c.args = [self.visit(a) for a in c.args]  # (the callee itself is left alone: `xp.round` stays `xp.round`)
            for kw_ in c.keywords:
                kw_.value = self.visit(kw_.value)
            if _short_callee(c) in ROUNDERS and len(c.args) == 1 and not c.keywords:
                return ast.Call(func=ast.Name(id="round", ctx=ast.Load()), args=c.args, keywords=[])
            return c

    import copy as _copy
    return ast.unparse(ast.fix_missing_locations(T(at).visit(_copy.deepcopy(expr))))


def _check_shift(ctx, f, df, at, call, new, old, rounders, construct) -> None:
    """The shift equals frac(new) - frac(old), frac(p) = p - R(p); new=None stands for an on-pixel position."""
    def _nz():
        z = CanonNormalizer(df, at)
        z.no_inline |= {v for v in (new, old) if v}  # the positions themselves stay atoms
        return z

    got = _nz().norm(call.args[1])
    used = {a.split("(")[0] for a in got.atoms() if "(" in a}
    used_r = used & ROUNDERS
    if not used_r:
        raise AnalysisError(f"{f.qualname}: the shift `{norm_text(call.args[1])[:60]}` uses no recognised rounding")
    matches = []
    frac = lambda v: f"({v} - round({v}))"
    want = _nz().norm(_parse(f"{frac(new)} - {frac(old)}" if new else f"0 - {frac(old)}"))
    got_text = _one_rounding(_strip_versions(got))
    # (terms that differ only in the name of the rounding function are not merged by the normaliser: compare after
    #  re-normalising the canonical text)
    if _strip_versions(_nz().norm(_parse(_canon_rounding_src(call.args[1], df, at, {new, old})))) == _strip_versions(want):
        matches = sorted(used_r)
    names = {new, old} - {None}
    idents = set(re.findall(r"[A-Za-z_]\w*", got_text)) - ROUNDERS
    if not matches and not idents <= names:
        raise AnalysisError(f"{f.qualname}: cannot classify the shift {_k(got)[:80]}")
    good = bool(matches) and bool(rounders)
    why = ""
    if not matches:
        why = (f"the probe is shifted by {_strip_versions(got)}; re-positioning it from `{old}` "
               + (f"to `{new}` needs ({new} - R({new})) - ({old} - R({old}))" if new else
                  f"back onto the pixel grid needs R({old}) - {old}")
               + " (R = rounding to the pixel that places the window): the probe ends up displaced by a sub-pixel "
                 "offset, so the true object and probe are not reproduced")
    elif not good:
        why = "the object window is not placed by rounding the position"
    ctx.check(good, "R-FRACSHIFT", construct, f.loc(call),
              f"shift {_strip_versions(got)} is the difference of the sub-pixel parts", why, key_detail="frac")


def _window_args(ctx, repo) -> None:
    mod = repo.modules[MOD]
    wf = repo.function(MOD, WINDOW_FN)
    wparams = wf.positional_params[:3]
    n = 0
    for c in mod.classes.values():
        for fs in c.methods.values():
            for f in fs:
                calls = [k for k in walk_no_nested(f.node) if isinstance(k, ast.Call) and _short_callee(k) == WINDOW_FN]
                if not calls:
                    continue
                ps = f.positional_params
                if ps and ps[0] in ("self", "cls"):
                    ps = ps[1:]
                if len(ps) < 3:
                    raise AnalysisError(f"{f.qualname}: calls {WINDOW_FN} but has no (objects, probes, position) "
                                        "parameters")
                roles = {"array": ps[0], "window": ps[1], "center": ps[2]}
                df = DataFlow(f.node)
                for i, k in enumerate(calls):
                    bound = bind_args_plain(k, wparams)
                    if set(bound) != set(wparams):
                        raise AnalysisError(f"{f.qualname}: cannot bind the arguments of {WINDOW_FN}")
                    at = df.cfg.node_of(_stmt_of(f.node, k)).idx
                    got = {}
                    for role, wp in zip(("center", "window", "array"), wparams):
                        sl = df.backward_slice(at, bound[wp])
                        got[role] = sl.params & set(roles.values())
                    bad = [f"the {role} argument `{norm_text(bound[wp])[:40]}` derives from `{sorted(got[role])[0]}`"
                           for role, wp in zip(("center", "window", "array"), wparams)
                           if got[role] and roles[role] not in got[role]]
                    if not bad and any(not got[r] for r in got):
                        raise AnalysisError(f"{f.qualname}: an argument of {WINDOW_FN} derives from none of "
                                            f"{sorted(roles.values())}")
                    n += 1
                    ctx.check(not bad, "R-WINDOWARGS", f"{f.qualname}:window call {i}", f.loc(k),
                              f"centre from `{roles['center']}`, window extent from `{roles['window']}`, array extent "
                              f"from `{roles['array']}`",
                              "; ".join(bad) + f" — expected centre from `{roles['center']}`, window extent from "
                              f"`{roles['window']}`, array extent from `{roles['array']}`: the window no longer selects "
                              "the illuminated part of the object", key_detail="roles")
    ctx.require(n >= 4, f"R-WINDOWARGS found only {n} calls of {WINDOW_FN}")


def bind_args_plain(call: ast.Call, params: list) -> dict:
    out = {}
    for p, a in zip(params, call.args):
        if isinstance(a, ast.Starred):
            return {}
        out[p] = a
    for k in call.keywords:
        if k.arg is None:
            return {}
        out[k.arg] = k.value
    return out


def run(ctx) -> None:  # noqa: F811
    ctx.rule("R-WINDOW", "_wrapped_indices_2D_window(center, window_shape, array_shape) returns, per axis, "
             "arange(lo, hi) % m with hi - lo equal to the window extent of that axis, m equal to the array extent of "
             "that axis and the rounded centre in the middle of [lo, hi) (offset n//2 or (n-1)//2); decided by "
             "evaluating the integer arithmetic for several extents and centres.  Otherwise the exit wave is formed "
             "with a part of the object other than the illuminated one and the true object/probe pair is not a fixed "
             "point")
    ctx.rule("R-WINDOWROUND", "per axis k the first index of the object window is ROUND(centre[k]) plus a term the "
             "centre does not enter, ROUND being numpy's round-half-to-even applied to the raw position (the rounding "
             "the sub-pixel probe shift position - round(position) of R-FRACSHIFT is taken against).  Decided on the "
             "componentwise normal form of the index arithmetic (linear forms over Q with ROUND(.) and FLOORDIV(., d) "
             "atoms; vector literals, wrappers, whole-number casts, unpacking and temporaries are read through; nothing "
             "is moved out of a ROUND, because round(x - n/2) != round(x) - n//2 for odd n and round(x - m) != round(x) "
             "- m for odd m at half-pixel positions).  If the centre enters through another rounding, two concrete "
             "positions whose rounded pixel lands on different window pixels are exhibited (exact rational "
             "evaluation).  Necessary: the probe is placed relative to one fixed window pixel by the fraction "
             "position - round(position); a window that does not follow round(position) rigidly is a pixel off the "
             "probe for some positions, so the true object/probe pair gives a non-zero error and is modified")
    ctx.rule("R-FRACSHIFT", "the probe carried from one scan position to the next is re-positioned by "
             "(position - R(position)) - (old_position - R(old_position)) in every overlap projection, and by "
             "R(position) - position after the sweep in reconstruct(), R being the rounding that places the object "
             "window (term equality modulo ring axioms).  Any other combination leaves the probe displaced by a "
             "sub-pixel offset: the true object and probe are not reproduced and the reported error is not zero")
    ctx.rule("R-WINDOWARGS", "every call of the window helper inside an operator method takes its centre from the "
             "method's position parameter, the window extent from its probes parameter and the array extent from its "
             "objects parameter (backward slices); permuted roles select a wrong or wrongly sized part of the object")
    repo = ctx.repo
    rounders = _window(ctx, repo)
    _fracshift(ctx, repo, rounders)
    _window_args(ctx, repo)
    _inner_run_c28_sweep1(ctx)


# ======================================================================================================================
# second batch: the exit wave is the product object x probe; the sub-pixel offset state of the probe in reconstruct()
# ======================================================================================================================
_inner_run_c28_sweep2 = run

_ON_PIXEL_CALLS = {"zeros", "zeros_like"}


def _exit_wave_values(f, df):
    """(value expression, cfg node, statement) of every exit wave an overlap projection returns."""
    rets = [n for n in walk_no_nested(f.node) if isinstance(n, ast.Return) and n.value is not None]
    if len(rets) != 1 or not isinstance(rets[0].value, ast.Tuple) or len(rets[0].value.elts) != 2:
        raise AnalysisError(f"{f.qualname}: expected a single `return probes, exit_waves`")
    rnode = df.cfg.node_of(rets[0]).idx
    second = rets[0].value.elts[1]
    items = list(second.elts) if isinstance(second, ast.Tuple) else [second]
    out = []
    for it in items:
        if isinstance(it, ast.Constant) and it.value is None:
            continue
        if not isinstance(it, ast.Name):
            out.append((it, rnode, rets[0]))
            continue
        rd = df.reaching(rnode, it.id)
        strong = [d for d in rd if d.strong]
        weak = [d for d in rd if not d.strong]
        stores = []
        for d in weak:
            st = df.cfg.nodes[d.node].ast
            if isinstance(st, ast.Assign) and isinstance(st.targets[0], ast.Subscript):
                stores.append((st.value, d.node, st))
            else:
                raise AnalysisError(f"{f.qualname}: `{it.id}` is modified by `{norm_text(st)[:50]}`")
        if stores:
            # a buffer filled element by element: the strong definition must be an allocation
            for d in strong:
                if not (isinstance(d.value, ast.Call) and _short_callee(d.value) in
                        ("empty_like", "zeros_like", "empty", "zeros")):
                    raise AnalysisError(f"{f.qualname}: `{it.id}` is both assigned and filled element by element")
            out += stores
        else:
            if len(strong) != 1 or strong[0].kind != "assign" or strong[0].value is None:
                raise AnalysisError(f"{f.qualname}: exit wave `{it.id}` has no single defining assignment")
            out.append((strong[0].value, strong[0].node, df.cfg.nodes[strong[0].node].ast))
    if not out:
        raise AnalysisError(f"{f.qualname}: no exit wave found")
    return out


def _overlap_product(ctx, repo) -> None:
    n = 0
    for c, f in _overlap_methods(repo):
        ps = f.positional_params
        objs, probes = ps[0], ps[1]
        df = DataFlow(f.node)
        for i, (val, at, st) in enumerate(_exit_wave_values(f, df)):
            p = CanonNormalizer(df, at).norm(val)
            sl = df.backward_slice(at, val)
            if not ({objs, probes} <= sl.params):
                raise AnalysisError(f"{f.qualname}: exit wave {i} does not derive from both `{objs}` and `{probes}`")
            n += 1
            mono = len(p.terms) == 1
            bad = ""
            if not mono:
                bad = f"is the sum {_k(p)[:100]}"
            else:
                (m, coef), = p.terms.items()
                neg = [a for a, e in m if e != 1]
                if coef != 1 or neg or len(m) < 2:
                    bad = f"is {_k(p)[:120]}" + (f": `{neg[0][:50]}` does not enter with exponent one" if neg else "")
            ctx.check(not bad, "R-OVERLAP", f"{f.qualname}:exit wave {i}", f.loc(st),
                      "a plain product of the illuminated object part(s) and the probe",
                      f"the exit wave {bad}; the overlap projection is the product object[window] * probe "
                      "(each factor once): any other combination does not reproduce the measured amplitudes for the "
                      "true object and probe", key_detail="product")
    ctx.require(n >= 4, f"R-OVERLAP found only {n} exit waves")


def _on_pixel(df, expr: ast.AST, at: int, depth: int = 0) -> bool:
    """Is the position expression provably a whole-pixel position (rounded, zero, or integer literals)?"""
    if depth > 8:
        return False
    core, rounders = _peel(expr)
    if rounders:
        return True
    if isinstance(core, ast.Constant) and isinstance(core.value, int) and not isinstance(core.value, bool):
        return True
    if isinstance(core, (ast.Tuple, ast.List)) and core.elts:
        return all(_on_pixel(df, e, at, depth + 1) for e in core.elts)
    if isinstance(core, ast.Call) and _short_callee(core) in _ON_PIXEL_CALLS:
        return True
    if isinstance(core, ast.Name):
        d = df.single_def(at, core.id)
        if d is not None and d.kind == "assign" and d.value is not None:
            st = df.cfg.nodes[d.node].ast
            if not (isinstance(st, ast.Assign) and d.value is st.value and isinstance(st.targets[0], (ast.Tuple, ast.List))):
                return _on_pixel(df, d.value, d.node, depth + 1)
    return False


def _probe_offset(ctx, repo) -> None:
    done = 0
    for cls_name in OPERATORS:
        rec = repo.method(MOD, cls_name, "reconstruct")
        alias = _step_aliases(repo, cls_name, rec)
        ov = [k for k in walk_no_nested(rec.node) if isinstance(k, ast.Call)
              and alias.get(call_name(k), call_name(k)) == "_overlap_projection"]
        if len(ov) != 1 or len(ov[0].args) < 4 or not all(isinstance(a, ast.Name) for a in ov[0].args[2:4]):
            if cls_name == ANCHOR:
                raise AnalysisError(f"{rec.qualname}: cannot read `_overlap_projection(objects, probes, position, "
                                    "old_position)`")
            ctx.info("R-PROBEOFFSET", f"{rec.qualname}", rec.where, "not analysed")
            continue
        pv, old = ov[0].args[2].id, ov[0].args[3].id
        df = DataFlow(rec.node)
        cfg = df.cfg
        onode = cfg.node_of(_stmt_of(rec.node, ov[0]))
        if not onode.loops:
            raise AnalysisError(f"{rec.qualname}: the overlap projection is not called in a loop")
        header = onode.loops[-1]
        body = cfg.loop_body_nodes(header)
        # (b) the recorded offset follows the position handed to the overlap projection
        adv = [d.node for d in df.defs if d.var == old and d.strong and d.node in body and isinstance(d.value, ast.Name)
               and d.value.id == pv]
        other = [d for d in df.defs if d.var == old and d.strong and d.node in body and d.node not in adv]
        if other:
            raise AnalysisError(f"{rec.qualname}: `{old}` is assigned something other than `{pv}` inside the sweep")
        ctx.check(bool(adv) and all(cfg.dominates(onode.idx, a) for a in adv), "R-PROBEOFFSET",
                  f"{rec.qualname}:offset advanced", rec.loc(ov[0]),
                  f"`{old} = {pv}` after the step", f"`{old}` is not set to `{pv}` after the probe has been moved to "
                  f"`{pv}`: the next overlap projection subtracts a sub-pixel offset the probe does not have",
                  key_detail="advance")
        # (a) at the start of a sweep the probe sits on the pixel grid
        init = [d for d in df.reaching(onode.idx, old) if d.node not in body]
        if not init or any(d.kind != "assign" or d.value is None for d in init):
            raise AnalysisError(f"{rec.qualname}: cannot find the initial value of `{old}`")
        for j, d in enumerate(init):
            ok = _on_pixel(df, d.value, d.node)
            ctx.check(ok, "R-PROBEOFFSET", f"{rec.qualname}:initial offset", rec.loc(cfg.nodes[d.node].ast),
                      f"`{old}` starts as a whole-pixel position",
                      f"the sweep starts with `{old} = {norm_text(d.value)[:50]}`, which is not a whole-pixel position "
                      f"(no rounding on its way): the first overlap projection subtracts its fractional part from the "
                      f"shift although the probe sits on the pixel grid (it has just been shifted back by R(p) - p, or is "
                      f"the initial probe), so the probe is displaced by that fraction in every sweep and the true "
                      f"object/probe pair is not a fixed point", key_detail="init")
        # (c) the shift back onto the pixel grid undoes the offset the probe actually has
        tails = []
        for k in [k for k in ast.walk(rec.node) if isinstance(k, ast.Call) and _short_callee(k) == "fft_shift"
                  and len(k.args) >= 2]:
            names = {x.id for x in ast.walk(k.args[1]) if isinstance(x, ast.Name)} & {pv, old}
            st = _stmt_of(rec.node, k)
            if names and cfg.node_of(st).idx not in body:
                tails.append((k, st, names))
        if not tails:
            if cls_name == ANCHOR:
                raise AnalysisError(f"{rec.qualname}: no shift back onto the pixel grid after the sweep")
            continue
        for k, st, names in tails:
            tnode = cfg.node_of(st).idx
            bad = ""
            if pv in names:
                for d in df.reaching(tnode, pv):
                    if d.node in body and cfg.paths_avoiding(d.node, header, set(adv)):
                        bad = (f"the shift back uses `{pv}`, but a scan position that is read and then skipped "
                               f"(a path from `{norm_text(cfg.nodes[d.node].ast)[:45]}` to the next turn of the loop "
                               f"that bypasses `{old} = {pv}`) never moved the probe: when the last visited position is "
                               f"skipped the probe still carries the offset of `{old}` and is shifted by the wrong "
                               "amount — the returned probe differs from the true probe")
                        break
                    if d.node not in body and d.kind != "param":
                        raise AnalysisError(f"{rec.qualname}: `{pv}` is also defined outside the sweep")
            done += 1
            ctx.check(not bad, "R-PROBEOFFSET", f"{rec.qualname}:shift back uses the recorded offset", rec.loc(k),
                      "the position in the shift back is the one the probe was last moved to on every path", bad,
                      key_detail="lastpos")
    ctx.require(done >= 1, "R-PROBEOFFSET: no reconstruct() analysed")


def run(ctx) -> None:  # noqa: F811
    ctx.rule("R-OVERLAP", "every exit wave returned by an overlap projection normalises to a single product in which "
             "the probe and the illuminated object part(s) (or their conjugates) each occur with exponent one, and "
             "depends on both the objects and the probes parameter: psi = O[window] * P")
    ctx.rule("R-PROBEOFFSET", "reconstruct() keeps the sub-pixel offset of the probe in the variable it passes as "
             "old_position: (a) its value at the start of a sweep is a whole-pixel position (the probe is on the pixel "
             "grid then), (b) it is set to the position handed to the overlap projection after every executed step, (c) "
             "the shift R(p) - p that brings the probe back onto the grid uses a variable that equals the recorded "
             "offset on every path through the loop, including paths that skip a scan position.  Otherwise the probe "
             "returned for the true object and probe is a displaced copy of the true probe")
    repo = ctx.repo
    _overlap_product(ctx, repo)
    _inner_run_c28_sweep2(ctx)
    # last of all: this rule reports two open defects on the unchanged tree, and a standing violation must not turn an
    # AnalysisError of any other rule into a mere "violations found" outcome
    _probe_offset(ctx, repo)


# ======================================================================================================================
# third batch: the Fourier projection and its error term in every operator (single wave, forward/reverse pair,
# incoherent modes, last slice of a multislice stack)
# ======================================================================================================================
_inner_run_c28_sweep3 = run

_FOURIER_NAMES = ("_fourier_projection", "_warmup_fourier_projection", "_alternative_fourier_projection")


class _NoNewAxis(CanonNormalizer):
    """CanonNormalizer that reads through `x[None]` (a broadcasting axis does not change the values)."""

    def norm(self, n: ast.AST) -> Poly:
        if isinstance(n, ast.Subscript) and isinstance(n.slice, ast.Constant) and n.slice.value is None:
            return self.norm(n.value)
        return super().norm(n)


def _unpack_components(f, names) -> dict:
    comp = {}
    for st in walk_no_nested(f.node):
        if isinstance(st, ast.Assign) and isinstance(st.value, ast.Name) and st.value.id in names \
                and isinstance(st.targets[0], ast.Tuple) and all(isinstance(e, ast.Name) for e in st.targets[0].elts):
            comp[st.value.id] = [e.id for e in st.targets[0].elts]
    return comp


def _fourier_general(ctx, repo) -> None:
    mod = repo.modules[MOD]
    seen = 0
    for c in mod.classes.values():
        for name in _FOURIER_NAMES:
            f = c.own_method(name)
            if f is None or not any(isinstance(r, ast.Return) and r.value is not None for r in walk_no_nested(f.node)):
                continue
            if c.name == ANCHOR and name == "_fourier_projection":
                continue  # decided by _projection() above
            _fourier_one(ctx, f)
            seen += 1
    ctx.require(seen >= 3, f"R-PROJECTION: only {seen} further Fourier projections found")


def _fourier_one(ctx, f) -> None:
    ps = f.positional_params
    if len(ps) < 3:
        raise AnalysisError(f"{f.qualname}: signature changed")
    ew, dp, sse = ps[:3]
    df = DataFlow(f.node)
    comp = _unpack_components(f, (ew, dp))
    rets = [n for n in walk_no_nested(f.node) if isinstance(n, ast.Return) and n.value is not None]
    if len(rets) != 1 or not isinstance(rets[0].value, ast.Tuple) or len(rets[0].value.elts) != 2 \
            or not isinstance(rets[0].value.elts[1], ast.Name):
        raise AnalysisError(f"{f.qualname}: expected a single `return modified_exit_waves, sse`")
    serr = rets[0].value.elts[1].id

    def partner(arg: ast.AST, at: int):
        """pattern expression text that belongs to the exit-wave expression `arg`, plus its slice (or None)."""
        hops = 0
        while isinstance(arg, ast.Name) and arg.id != ew and hops < 6 and not any(arg.id in v for v in comp.values()):
            d = df.single_def(at, arg.id)
            if d is None or d.kind != "assign" or d.value is None:
                return None
            arg, at = d.value, d.node
            hops += 1
        if isinstance(arg, ast.Name) and arg.id == ew:
            return dp, None
        if isinstance(arg, ast.Name) and ew in comp and arg.id in comp[ew]:
            i = comp[ew].index(arg.id)
            if dp not in comp or len(comp[dp]) != len(comp[ew]):
                raise AnalysisError(f"{f.qualname}: exit waves are unpacked but the patterns are not")
            return comp[dp][i], None
        if isinstance(arg, ast.Subscript) and isinstance(arg.value, ast.Name) and arg.value.id == ew:
            return dp, arg.slice
        return None

    ffts = []
    for k in walk_no_nested(f.node):
        if isinstance(k, ast.Call) and _short_callee(k) == "fft2" and k.args:
            at = df.cfg.node_of(_stmt_of(f.node, k)).idx
            pr = partner(k.args[0], at)
            if pr is None:
                raise AnalysisError(f"{f.qualname}: `{norm_text(k)[:50]}` does not transform an exit wave")
            ffts.append((k, at, pr[0], pr[1]))
    iffts = [k for k in walk_no_nested(f.node) if isinstance(k, ast.Call) and _short_callee(k) == "ifft2" and k.args]
    if not ffts or not iffts:
        raise AnalysisError(f"{f.qualname}: no fft2 / ifft2 pair found")
    allowed = VOCAB | {ew, dp, "sum", "axis", "axes"} | {x for v in comp.values() for x in v}
    rewrite: dict = {}
    matched_waves = set()
    for i, k in enumerate(iffts):
        st = _stmt_of(f.node, k)
        at = df.cfg.node_of(st).idx
        inner = _NoNewAxis(df, at).norm(k.args[0])
        hit = None
        for j, (fk, fat, d_name, sl) in enumerate(ffts):
            F = ast.unparse(fk)
            forms = {"phase": f"{d_name} * exp(1j * angle({F}))", "unit": f"{d_name} * {F} / abs({F})",
                     "modes": f"{d_name} * {F} / sqrt(sum(abs({F}) ** 2, axis=0))"}
            for form, src in forms.items():
                if _strip_versions(_NoNewAxis(df, at).norm(_parse(src))) == _strip_versions(inner):
                    hit = (j, form)
                    break
            if hit:
                break
        construct = f"{f.qualname}:projected wave {i}"
        if hit is None:
            idents = {x for x in re.findall(r"[A-Za-z_]\w*", _strip_versions(inner)) if not re.fullmatch(r"L\d+", x)}
            if not idents <= allowed:
                raise AnalysisError(f"{f.qualname}: cannot classify the projected term {_k(inner)[:100]}")
            ctx.violation("R-PROJECTION", construct, f.loc(k),
                          f"the projected wave is ifft2({_k(inner)[:140]}); the Fourier projection must be the measured "
                          "amplitude (exponent one) times the unit-modulus phase of the transformed exit wave of the "
                          "same component (dp*exp(1j*angle(F)), dp*F/|F|, or dp*F/sqrt(sum_k|F_k|^2) for incoherent "
                          "modes)", key_detail="form")
            continue
        j, form = hit
        fk, fat, d_name, sl = ffts[j]
        matched_waves.add(j)
        same_slot = True
        if sl is not None:
            tgt = st.targets[0] if isinstance(st, ast.Assign) else None
            same_slot = isinstance(tgt, ast.Subscript) and CanonNormalizer(df, at).norm(tgt.slice) == \
                CanonNormalizer(df, fat).norm(sl)
        ctx.check(same_slot, "R-PROJECTION", construct, f.loc(k),
                  f"ifft2({_k(inner)[:90]}) has the form `{form}`",
                  f"the exit wave is read at [{norm_text(sl) if sl is not None else ''}] but its projection is stored "
                  f"in another slot (`{norm_text(st)[:50]}`): the update compares different slices", key_detail="slot")
        z = CanonNormalizer(df, fat)
        if form == "modes":
            a = z.norm(_parse(f"sum(abs({ast.unparse(fk)}) ** 2, axis=0)"))
            tgt_poly = Poly.atom(d_name) * Poly.atom(d_name)
        else:
            a = z.norm(_parse(f"abs({ast.unparse(fk)})"))
            tgt_poly = Poly.atom(d_name)
        if len(a.terms) != 1 or len(a.atoms()) != 1:
            raise AnalysisError(f"{f.qualname}: internal: amplitude atom")
        rewrite[next(iter(a.atoms()))] = tgt_poly
    for j, (fk, fat, d_name, sl) in enumerate(ffts):
        if j not in matched_waves and f"{f.qualname}" and not any(
                i.rule == "R-PROJECTION" and i.verdict == "violation" and i.construct.startswith(f.qualname)
                for i in ctx.instances):
            raise AnalysisError(f"{f.qualname}: the transform `{norm_text(fk)[:50]}` is not used by any projection")
        if j not in matched_waves:  # still let the error term be judged against |F| == dp
            a = CanonNormalizer(df, fat).norm(_parse(f"abs({ast.unparse(fk)})"))
            if len(a.atoms()) == 1:
                rewrite.setdefault(next(iter(a.atoms())), Poly.atom(d_name))
    # error contributions
    incs = []
    for st in walk_no_nested(f.node):
        if isinstance(st, ast.AugAssign) and isinstance(st.target, ast.Name) and st.target.id == serr:
            if not isinstance(st.op, (ast.Add, ast.Sub)):
                raise AnalysisError(f"{f.qualname}: error is not accumulated additively")
            incs.append((st, st.value, None))
        elif isinstance(st, ast.Assign) and any(isinstance(t, ast.Name) and t.id == serr for t in st.targets):
            incs.append((st, st.value, serr))
    if not incs:
        raise AnalysisError(f"{f.qualname}: no contribution to the returned error found")
    for n_i, (st, val, minus) in enumerate(incs):
        node = df.cfg.node_of(st).idx
        z = _NoNewAxis(df, node, rewrite=rewrite)
        z.no_inline.add(serr)
        p = z.norm(val)
        if minus:
            p = p - z.norm(ast.Name(id=minus, ctx=ast.Load()))
        plain = _NoNewAxis(df, node)
        plain.no_inline.add(serr)
        shown = plain.norm(val)
        depends = any(any(a in atom for a in rewrite) for atom in shown.atoms())
        ctx.check(p.is_zero() and depends, "R-FIXEDPOINT-ERR", f"{f.qualname}:error contribution {n_i}", f.loc(st),
                  f"{_k(shown)[:110]} vanishes when the Fourier amplitude equals the measured one",
                  (f"the error contribution {_k(shown)[:140]} does not vanish when the Fourier amplitude of the exit "
                   f"wave equals the measured amplitude (residual {_k(p)[:100]}): a perfect reconstruction reports a "
                   "non-zero error") if not p.is_zero() else
                  f"the error contribution {_k(shown)[:140]} does not measure the Fourier amplitude of the exit wave",
                  key_detail="sse")


def run(ctx) -> None:  # noqa: F811
    _fourier_general(ctx, ctx.repo)
    _inner_run_c28_sweep3(ctx)


# ======================================================================================================================
# fourth batch: the pairing rule for the other operators, and the roles of the values handed to the output stage
# ======================================================================================================================
_inner_run_c28_sweep4 = run

_COPIES = {"copy", "deepcopy"}


def _origin(df, expr: ast.AST, at: int, depth: int = 0):
    """The state attribute (`self._x`) a value is a (copy of a) snapshot of; None when it is not a plain snapshot."""
    if depth > 6:
        return None
    while True:
        if isinstance(expr, ast.Call) and isinstance(expr.func, ast.Attribute) and expr.func.attr in _COPIES \
                and not expr.args:
            expr = expr.func.value
        elif isinstance(expr, ast.Call) and _short_callee(expr) in (_COPIES | _VALUE_PRESERVING) and len(expr.args) == 1:
            expr = expr.args[0]
        else:
            break
    d = dotted(expr)
    if d and d.startswith("self.") and d.count(".") == 1:
        return d
    if isinstance(expr, ast.Name):
        rd = df.reaching(at, expr.id)
        out = set()
        for x in rd:
            if x.strong and isinstance(x.value, (ast.List, ast.Tuple)) and not x.value.elts:
                continue  # the empty list the snapshots are collected in
            if not x.strong and isinstance(x.value, ast.Call) and isinstance(x.value.func, ast.Attribute) \
                    and x.value.func.attr == "append" and len(x.value.args) == 1:
                out.add(_origin(df, x.value.args[0], x.node, depth + 1))
            elif x.strong and x.kind == "assign" and x.value is not None:
                out.add(_origin(df, x.value, x.node, depth + 1))
            else:
                out.add(None)
        if len(out) == 1:
            return next(iter(out))
    return None


def _outputs(ctx, repo) -> None:
    n = 0
    for cls_name in OPERATORS:
        rec = repo.method(MOD, cls_name, "reconstruct")
        try:
            _, upd, _, _, (calls, _, _, _) = _pair_params(repo, cls_name)
            out_f = repo.method(MOD, cls_name, "_prepare_measurement_outputs")
            df = DataFlow(rec.node)
            uf, fp = calls["_update_function"][0], calls["_fourier_projection"][0]
            fparams = repo.method(MOD, cls_name, "_fourier_projection").positional_params
            src = {}
            unode = df.cfg.node_of(_stmt_of(rec.node, uf)).idx
            for p, a in zip(upd.positional_params, uf.args):
                src[p] = _origin(df, a, unode)
            fnode = df.cfg.node_of(_stmt_of(rec.node, fp)).idx
            for p, a in zip(fparams, fp.args):
                src.setdefault(p, _origin(df, a, fnode))
            # the overlap projection works on the same state as the update
            ov = calls["_overlap_projection"][0]
            oparams_ov = repo.method(MOD, cls_name, "_overlap_projection").positional_params
            onode = df.cfg.node_of(_stmt_of(rec.node, ov)).idx
            bad_ov = []
            for p, a in zip(oparams_ov, ov.args):
                if src.get(p) and p in upd.positional_params[:2]:
                    o = _origin(df, a, onode)
                    if o is not None and o != src[p]:
                        bad_ov.append(f"`{p}` of the overlap projection receives {o}, the update keeps `{p}` in {src[p]}")
            ctx.check(not bad_ov, "R-STATEROLES", f"{rec.qualname}:overlap call", rec.loc(ov),
                      "the overlap projection reads the state the update writes", "; ".join(bad_ov)
                      + ": object and probe are exchanged between the two steps", key_detail="overlap-roles")
            oparams = out_f.positional_params[1:]
            sites = []
            for k in walk_no_nested(rec.node):
                if not isinstance(k, ast.Call):
                    continue
                if dotted(k.func) == "self._prepare_measurement_outputs":
                    sites.append((k, list(k.args)))
                elif _short_callee(k) == "map" and k.args and dotted(k.args[0]) == "self._prepare_measurement_outputs":
                    sites.append((k, list(k.args[1:])))
            if not sites:
                raise AnalysisError(f"{rec.qualname}: no call of _prepare_measurement_outputs")
            for i, (k, args) in enumerate(sites):
                at = df.cfg.node_of(_stmt_of(rec.node, k)).idx
                shared = [(p, a) for p, a in zip(oparams, args) if src.get(p)]
                if len(shared) < 2:
                    raise AnalysisError(f"{rec.qualname}: output stage shares fewer than two roles with the update")
                bad = []
                for p, a in shared:
                    o = _origin(df, a, at)
                    if o is None:
                        raise AnalysisError(f"{rec.qualname}: cannot trace `{norm_text(a)[:40]}` to a state attribute")
                    if o != src[p]:
                        bad.append(f"`{p}` of the output stage receives {o}, but the reconstruction keeps `{p}` in "
                                   f"{src[p]}")
                n += 1
                ctx.check(not bad, "R-STATEROLES", f"{rec.qualname}:output call {i}", rec.loc(k),
                          "objects / probes / error handed over in their own roles",
                          "; ".join(bad) + ": the returned estimates are exchanged — for the true object and probe the "
                          "reported object is not the object", key_detail="roles")
        except AnalysisError as e:
            if cls_name == ANCHOR:
                raise
            ctx.info("R-STATEROLES", f"{rec.qualname}", rec.where, f"not analysed: {e}")
    ctx.require(n >= 2, f"R-STATEROLES examined only {n} output calls")


def _pairing_others(ctx, repo) -> None:
    global ANCHOR
    keep = ANCHOR
    for cls_name in OPERATORS:
        if cls_name == keep:
            continue
        rec = repo.method(MOD, cls_name, "reconstruct")
        before = len(ctx.instances)
        try:
            ANCHOR = cls_name
            _pairing(ctx, repo)
        except AnalysisError as e:
            ctx.info("R-PAIRING", f"{rec.qualname}", rec.where, f"not analysed beyond this point: {e}")
        finally:
            ANCHOR = keep


def run(ctx) -> None:  # noqa: F811
    ctx.rule("R-STATEROLES", "the values reconstruct() hands to _prepare_measurement_outputs (directly or as per-iteration "
             "snapshots collected in lists) are snapshots of the state attribute that the update step keeps under the "
             "same interface parameter name (objects, probes) and of the error attribute the Fourier projection "
             "accumulates (sse), and the overlap projection receives objects / probes from the attributes the update "
             "writes them to; exchanged roles return the probe as the object")
    _outputs(ctx, ctx.repo)
    _pairing_others(ctx, ctx.repo)
    _inner_run_c28_sweep4(ctx)


# ======================================================================================================================
# fifth batch: R-FACTOR for increments inside a slice loop (first pass of the loop reads the parameters themselves)
# ======================================================================================================================
_inner_run_c28_sweep5 = run


def _factor_first_pass(ctx, repo) -> None:
    for cls_name in OPERATORS:
        try:
            rec, upd, p_exit, p_mod, _ = _pair_params(repo, cls_name)
        except AnalysisError:
            continue  # reported by the inner R-FACTOR
        df = DataFlow(upd.node)
        cfg = df.cfg
        rets = [n for n in walk_no_nested(upd.node) if isinstance(n, ast.Return) and n.value is not None]
        if len(rets) != 1:
            continue
        returned = {n.id for n in ast.walk(rets[0].value) if isinstance(n, ast.Name)}
        for st in walk_no_nested(upd.node):
            if not (isinstance(st, ast.AugAssign) and isinstance(st.op, (ast.Add, ast.Sub))):
                continue
            root = st.target
            while isinstance(root, (ast.Subscript, ast.Attribute)):
                root = root.value
            node = cfg.node_of(st)
            if not (isinstance(root, ast.Name) and root.id in returned and node.loops):
                continue
            nz = CanonNormalizer(df, node.idx)
            nz.extra[p_mod] = ast.Name(id=p_exit, ctx=ast.Load())
            q = nz.norm(st.value)
            if q.is_zero():
                continue
            header = node.loops[-1]
            body = cfg.loop_body_nodes(header)
            inside = [d.node for d in df.defs if d.var in (p_exit, p_mod) and d.node in body]
            # every write to the exit waves inside the loop happens after this increment: the first pass of the loop
            # evaluates the increment on the parameters themselves
            if all(cfg.dominates(node.idx, w) and w != node.idx for w in inside):
                p = CanonNormalizer(df, node.idx).norm(st.value)
                ctx.violation("R-FACTOR", f"{upd.qualname}:increment of {norm_text(st.target)}", upd.loc(st),
                              f"in the first pass of the loop the increment `{norm_text(st)[:80]}` ({_k(p)[:120]}) does "
                              f"not vanish when {p_mod} == {p_exit} (residual {_k(q)[:80]}): with the true object and "
                              "probe the update still changes the estimate", key_detail="factor")


def run(ctx) -> None:  # noqa: F811
    _factor_first_pass(ctx, ctx.repo)
    _inner_run_c28_sweep5(ctx)


# ======================================================================================================================
# sixth batch: "to pixels" — a length along axis k becomes a pixel coordinate by division by sampling[k]
# ======================================================================================================================
_inner_run_c28_sweep6 = run


def _axis_tags(df, e: ast.AST, at: int, skip: str, depth: int = 0) -> set:
    """Axis indices (0 / 1) the value of `e` is a component of: constant subscripts `v[k]` / `v[:, k]` and positions in
    the unpacking of a pair, followed through every reaching definition.  Subscripts of `skip` are not counted."""
    out: set = set()
    if depth > 8:
        return out
    for n in ast.walk(e):
        if isinstance(n, ast.Subscript):
            root = n.value
            if isinstance(root, ast.Name) and root.id == skip:
                continue
            sl = n.slice
            if isinstance(sl, ast.Tuple) and sl.elts:
                sl = sl.elts[-1]
            if isinstance(sl, ast.Constant) and sl.value in (0, 1) and not isinstance(sl.value, bool):
                out.add(sl.value)
        elif isinstance(n, ast.Name) and isinstance(n.ctx, ast.Load):
            for d in df.reaching(at, n.id):
                if d.kind not in ("assign", "aug") or d.value is None or not d.strong:
                    continue
                st = df.cfg.nodes[d.node].ast
                if isinstance(st, ast.Assign) and isinstance(st.targets[0], (ast.Tuple, ast.List)) \
                        and d.value is st.value and len(st.targets[0].elts) == 2:
                    names = [t.id if isinstance(t, ast.Name) else None for t in st.targets[0].elts]
                    if n.id in names and not isinstance(st.value, ast.Call):
                        out.add(names.index(n.id))
                        continue
                    if n.id in names and isinstance(st.value, ast.Call):
                        # np.meshgrid(u, v) returns the grids in the order of its operands; results of any other
                        # call carry no axis information
                        i = names.index(n.id)
                        if _short_callee(st.value) == "meshgrid" and len(st.value.args) == 2 and d.node != at:
                            out |= _axis_tags(df, st.value.args[i], d.node, skip, depth + 1)
                        continue
                if d.node != at:
                    out |= _axis_tags(df, d.value, d.node, skip, depth + 1)
    return out


def _samp_component(df, n: ast.AST, at: int, samp: str, depth: int = 0):
    """k when `n` denotes sampling[k] (directly, through a plain temporary, or by position in `a, b = sampling`)."""
    if depth > 6:
        return None
    if isinstance(n, ast.Subscript) and isinstance(n.value, ast.Name) and n.value.id == samp \
            and isinstance(n.slice, ast.Constant) and n.slice.value in (0, 1) and not isinstance(n.slice.value, bool):
        return n.slice.value
    if isinstance(n, ast.Name) and n.id != samp:
        d = df.single_def(at, n.id)
        if d is None or d.kind != "assign" or d.value is None:
            return None
        st = df.cfg.nodes[d.node].ast
        if isinstance(st, ast.Assign) and isinstance(st.targets[0], (ast.Tuple, ast.List)) and d.value is st.value:
            names = [t.id if isinstance(t, ast.Name) else None for t in st.targets[0].elts]
            if isinstance(st.value, ast.Name) and st.value.id == samp and len(names) == 2 and n.id in names:
                return names.index(n.id)
            return None
        if isinstance(d.value, (ast.Name, ast.Subscript)):
            return _samp_component(df, d.value, d.node, samp, depth + 1)
    return None


def _to_pixels(ctx, repo) -> None:
    f = repo.method(MOD, "AbstractPtychographicOperator", "_calculate_scan_positions_in_pixels")
    samp = f.positional_params[1]
    df = DataFlow(f.node)
    n = 0
    for st in walk_no_nested(f.node):
        if not isinstance(st, (ast.Assign, ast.AugAssign)):
            continue
        at = df.cfg.node_of(st).idx
        if isinstance(st, ast.Assign) and (_samp_component(df, st.value, at, samp) is not None or (
                isinstance(st.value, ast.Name) and st.value.id == samp)):
            continue  # a temporary for the pixel size itself
        # outermost references only: `sampling[0]` is one reference, not also a use of `sampling`
        uses = []
        stack = [st.value]
        while stack:
            x = stack.pop()
            k = _samp_component(df, x, at, samp) if isinstance(x, (ast.Name, ast.Subscript)) else None
            if k is not None:
                uses.append((x, k))
                continue
            if isinstance(x, ast.Name) and x.id == samp:
                raise AnalysisError(f"{f.qualname}: `{samp}` is used as a whole in `{norm_text(st)[:50]}`")
            stack.extend(ast.iter_child_nodes(x))
        if not uses:
            continue
        ks = {k for _, k in uses}
        if len(ks) != 1:
            raise AnalysisError(f"{f.qualname}: two sampling components in `{norm_text(st)[:50]}`")
        k = next(iter(ks))
        marker = "pixel𝑠ize"
        nz = CanonNormalizer(df, at)
        for x, _ in uses:
            if isinstance(x, ast.Name):
                nz.extra[x.id] = ast.Name(id=marker, ctx=ast.Load())
        # subscript references are replaced in a copy of the expression
        import copy as _copy

        class _Sub(ast.NodeTransformer):
            def visit_Subscript(self, node):
                if isinstance(node.value, ast.Name) and node.value.id == samp:
                    return ast.Name(id=marker, ctx=ast.Load())
                return self.generic_visit(node)

        p = nz.norm(_Sub().visit(_copy.deepcopy(st.value)))
        degs = {sum(e for a, e in m if a == marker) for m in p.terms}
        skip_names = {x.id for x, _ in uses if isinstance(x, ast.Name)}
        tags = _axis_tags(df, _strip_names(st.value, skip_names), at, samp)
        n += 1
        bad = ""
        if degs != {-1}:
            bad = (f"`{norm_text(st)[:70]}` does not divide every term by {samp}[{k}] (degrees {sorted(map(str, degs))}): "
                   "a length in Å becomes a pixel coordinate by division by the pixel size")
        elif tags - {k}:
            bad = (f"`{norm_text(st)[:70]}` converts a coordinate of axis {sorted(tags - {k})[0]} with the pixel size of "
                   f"axis {k}")
        ctx.check(not bad, "R-PIXELS", f"{f.qualname}:axis {k}", f.loc(st),
                  f"coordinate of axis {k} divided by {samp}[{k}]", bad + " — for anisotropic sampling the scan positions "
                  "land on the wrong object pixels and the true object/probe pair is not a fixed point", key_detail="px")
    ctx.require(n >= 2, f"{f.qualname}: fewer than two conversions by the sampling found")


def _strip_names(e: ast.AST, names: set) -> ast.AST:
    import copy as _copy

    class _T(ast.NodeTransformer):
        def visit_Name(self, node):
            return ast.Constant(value=1) if node.id in names else node

    return _T().visit(_copy.deepcopy(e))


def run(ctx) -> None:  # noqa: F811
    ctx.rule("R-PIXELS", "in _calculate_scan_positions_in_pixels every statement that uses sampling[k] divides each of its "
             "terms by sampling[k] exactly once (Laurent degree -1), and the coordinates it converts are components of "
             "axis k only (constant subscripts / unpacking positions followed through all reaching definitions)")
    _to_pixels(ctx, ctx.repo)
    _inner_run_c28_sweep6(ctx)
