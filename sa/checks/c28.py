"""C28 — ptychographic operators honour their mathematical contracts (abtem/reconstruct.py).

  R-CARD      symbolic cardinality: _calculate_scan_positions_in_pixels returns (J, 2) for explicit (J, 2)
              positions and (nx*ny, 2) for a raster scan.
  R-PROJECTION  RegularizedPtychographicOperator._fourier_projection returns ifft2(dp * unit-phase(fft2(psi))):
              the measured amplitude enters with exponent one, the phase is that of the Fourier transform of
              the exit wave, nothing else multiplies the result.
  R-FIXEDPOINT-ERR  every contribution to the returned error vanishes identically when |fft2(psi)| == dp.
  R-FACTOR    every increment that _update_function applies to a returned estimate vanishes identically
              when the modified exit wave equals the exit wave.
  R-PAIRING   the reconstruction loop reads position and diffraction pattern with the same index, feeds the
              overlap projection's exit wave to the Fourier projection and both to the update, and stores
              the updated position back under that index.
"""
from __future__ import annotations

import ast
import re

from ..cfg import DataFlow
from ..model import AnalysisError, call_name, dotted, last_attr, norm_text, walk_no_nested
from ..rules.absint import PathInterp
from ..rules.shapes import NONE, SCALAR, UNKNOWN, Arr, DictV, IntV, ShapeDomain, Tup, dim, shape_text
from ..rules.versioned import CanonNormalizer
from ..terms import Poly

MOD = "abtem.reconstruct"
ANCHOR = "RegularizedPtychographicOperator"
OPERATORS = ["RegularizedPtychographicOperator", "SimultaneousPtychographicOperator",
             "MixedStatePtychographicOperator", "MultislicePtychographicOperator"]
I_ATOM = "𝑖"
VOCAB = {"exp", "angle", "abs", "absolute", "fft2", "ifft2", "conj", "conjugate", "sqrt", "real", "imag",
         # guards around the modulus: recognised so that a regularised division is classified (as not exact)
         "maximum", "minimum", "clip", "where", "finfo", "eps", "dtype", "tiny", "float32", "float64"}


def _k(p: Poly) -> str:
    k = p.key()
    return k[2:] if k.startswith("1*") and " + " not in k else k


def run(ctx) -> None:
    repo = ctx.repo
    ctx.rule("R-CARD", "_calculate_scan_positions_in_pixels returns an array of shape (J, 2) for explicit positions of "
             "shape (J, 2) and (nx*ny, 2) for a raster scan of shape (nx, ny), for every combination of rotation "
             "angle and padding (symbolic shape domain)")
    ctx.rule("R-PROJECTION", "_fourier_projection returns ifft2(dp * u) where u is the unit-modulus phase factor of "
             "fft2(exit_waves) (exp(1j*angle(F)) or F/|F|): amplitude exponent one, phase of the transform of the exit "
             "wave, no further factor")
    ctx.rule("R-FIXEDPOINT-ERR", "every contribution _fourier_projection adds to the returned error estimate "
             "normalises to zero under |fft2(exit_waves)| == diffraction_patterns")
    ctx.rule("R-FACTOR", "every increment _update_function applies to an estimate it returns normalises to zero under "
             "modified_exit_waves == exit_waves (the difference of exit waves is a factor of the increment)")
    ctx.rule("R-PAIRING", "in reconstruct() position and diffraction pattern are read with the same index, the exit "
             "wave of the overlap projection is the input of the Fourier projection, exit wave / modified exit wave "
             "/ pattern reach the update in their parameter positions and the updated position is stored under the "
             "same index")
    ctx.undecided("that explicit positions keep their order (implied by element-wise arithmetic once R-CARD holds)")
    ctx.undecided("idempotence of the Fourier projection and invariance under the r-PIE update as numerical statements; "
                  "the position-correction callable; the Simultaneous/MixedState/Multislice operators' update rules "
                  "beyond the factor rule where their shape allows it")

    _card(ctx, repo)
    _projection(ctx, repo)
    _factor(ctx, repo)
    _pairing(ctx, repo)


# ---------------------------------------------------------------------- R-CARD
def _card(ctx, repo) -> None:
    f = repo.method(MOD, "AbstractPtychographicOperator", "_calculate_scan_positions_in_pixels")
    p = f.positional_params
    ctx.require(p[:4] == ["positions", "sampling", "region_of_interest_shape", "experimental_parameters"],
                f"{f.qualname}: signature changed")
    J, nx, ny = dim("J"), dim("nx"), dim("ny")
    cases = {
        "explicit positions (J, 2)": (Arr((J, dim(2))), (J, dim(2)), None),
        "raster scan (nx, ny)": (NONE, (nx * ny, dim(2)), Tup((IntV(nx), IntV(ny)))),
    }
    for label, (pos, want, grid) in cases.items():
        got: dict[str, list[str]] = {}
        errors: list[str] = []
        where = f.where
        n_paths = 0
        for rot_label, rot in (("rotation_angle=None", NONE), ("rotation_angle=float", SCALAR)):
            for pad_label, pad in (("padding=None", NONE), ("padding=(2,)", Arr((dim(2),)))):
                exp = DictV((("grid_scan_shape", grid if grid is not None else UNKNOWN),
                             ("scan_step_sizes", Tup((SCALAR, SCALAR))),
                             ("rotation_angle", rot), ("object_px_padding", pad)))
                env = {"positions": pos, "sampling": Tup((SCALAR, SCALAR)),
                       "region_of_interest_shape": Tup((IntV(dim("rx")), IntV(dim("ry")))),
                       "experimental_parameters": exp}
                for r in PathInterp(ShapeDomain()).run(f.node.body, env):
                    if r.kind == "raise":
                        continue
                    n_paths += 1
                    if r.kind == "error":
                        errors.append(f"{rot_label}, {pad_label}: {r.message}")
                        where = f.loc(r.node)
                        continue
                    if r.kind != "return" or not isinstance(r.value, Tup) or not r.value.items:
                        raise AnalysisError(f"{f.qualname}: a path does not return (positions, parameters)")
                    v = r.value.items[0]
                    if not isinstance(v, Arr):
                        raise AnalysisError(f"{f.qualname}: shape of the returned positions is not determined "
                                            f"({rot_label}, {pad_label})")
                    where = f.loc(r.node)
                    got.setdefault(shape_text(v.shape), []).append(f"{rot_label}, {pad_label}")
        ctx.require(n_paths >= 4, f"{f.qualname}: fewer than four returning paths for {label}")
        wanted = shape_text(want)
        good = not errors and set(got) == {wanted}
        bad = "; ".join(f"{s} on {len(v)} of {n_paths} paths" for s, v in sorted(got.items()) if s != wanted)
        ctx.check(good, "R-CARD", f"{f.qualname}:{label}", where,
                  f"returns positions of shape {wanted} on all {n_paths} paths",
                  f"{label}: returns positions of shape {bad or '?'} instead of {wanted}"
                  + (f"; abstract execution fails: {errors[0]}" if errors else "")
                  + (" — the number of scan positions no longer equals the number of diffraction patterns"),
                  key_detail="card")


# ---------------------------------------------------------------------- R-PROJECTION / R-FIXEDPOINT-ERR
def _parse(expr: str) -> ast.expr:
    return ast.parse(expr, mode="eval").body


def _projection(ctx, repo) -> None:
    f = repo.method(MOD, ANCHOR, "_fourier_projection")
    base = repo.method(MOD, "AbstractPtychographicOperator", "_fourier_projection")
    ctx.require(base.positional_params[:3] == f.positional_params[:3],
                "_fourier_projection: parameter order differs from the abstract operator")
    ew, dp, sse = f.positional_params[:3]
    df = DataFlow(f.node)
    rets = [n for n in walk_no_nested(f.node) if isinstance(n, ast.Return)]
    ctx.require(len(rets) == 1 and isinstance(rets[0].value, ast.Tuple) and len(rets[0].value.elts) == 2,
                "_fourier_projection: expected a single `return modified_exit_wave, sse`")
    ret = rets[0]
    rnode = df.cfg.node_of(ret).idx
    nz = CanonNormalizer(df, rnode)
    # resolve the returned wave to its defining call
    wave = ret.value.elts[0]
    expr = wave
    hops = 0
    at = rnode
    while isinstance(expr, ast.Name) and hops < 6:
        d = df.single_def(at, expr.id)
        if d is None or d.kind != "assign" or d.value is None:
            raise AnalysisError("_fourier_projection: the returned wave has no single defining assignment")
        expr, at = d.value, d.node
        hops += 1
    ctx.require(isinstance(expr, ast.Call) and nz.canon_callee(expr.func) in ("ifft2",) and len(expr.args) >= 1,
                "_fourier_projection: the returned wave is not the result of an inverse 2D FFT")
    inner = CanonNormalizer(df, at).norm(expr.args[0])
    entry = CanonNormalizer(df, df.cfg.entry + 0)
    # expected forms, normalised with the same machinery (names are the function's own parameters)
    F = f"fft2({ew})"
    forms = {
        "dp*exp(1j*angle(F))": _parse(f"{dp} * exp(1j * angle({F}))"),
        "dp*F/|F|": _parse(f"{dp} * {F} / abs({F})"),
    }
    want = {k: CanonNormalizer(df, rnode, ).norm(v) for k, v in forms.items()}
    # the expected terms must be expressed over parameter atoms: re-normalise the actual term with parameters kept
    match = [k for k, v in want.items() if _same(inner, v, df, ew, dp)]
    construct = f"{f.qualname}:projected wave"
    if match:
        ctx.ok("R-PROJECTION", construct, f.loc(ret), f"ifft2({_k(inner)}) has the form {match[0]}")
    else:
        idents = set(re.findall(r"[A-Za-z_]\w*", inner.key())) - {"param", "L1", "L2", "L3"}
        idents = {i for i in idents if not re.fullmatch(r"L\d+", i)}
        if not idents <= VOCAB | {ew, dp}:
            raise AnalysisError(f"_fourier_projection: cannot classify the projected term {_k(inner)}")
        ctx.violation("R-PROJECTION", construct, f.loc(ret),
                      f"the projected wave is ifft2({_k(inner)}); the Fourier projection must be "
                      f"ifft2({dp} * exp(1j*angle(fft2({ew})))) — measured amplitude (exponent one) times the "
                      "unit-modulus phase of the transformed exit wave", key_detail="form")

    # error term: contributions vanish at |F| == dp
    serr = ret.value.elts[1]
    ctx.require(isinstance(serr, ast.Name), "_fourier_projection: the returned error is not a variable")
    absF = CanonNormalizer(df, rnode).norm(_parse(f"abs({F})"))
    ctx.require(len(absF.terms) == 1, "internal: |F| atom")
    absF_atom = next(iter(absF.atoms()))
    rewrite = {absF_atom: Poly.atom(_atom_name(df, dp))}
    incs = []
    for st in walk_no_nested(f.node):
        if isinstance(st, ast.AugAssign) and isinstance(st.target, ast.Name) and st.target.id == serr.id:
            ctx.require(isinstance(st.op, (ast.Add, ast.Sub)), "_fourier_projection: error is not accumulated additively")
            incs.append((st, st.value, None))
        elif isinstance(st, ast.Assign) and any(isinstance(t, ast.Name) and t.id == serr.id for t in st.targets):
            incs.append((st, st.value, serr.id))
    ctx.require(len(incs) >= 1, "_fourier_projection: no contribution to the returned error found")
    for st, val, minus in incs:
        node = df.cfg.node_of(st).idx
        z = CanonNormalizer(df, node, rewrite=rewrite)
        z.no_inline.add(serr.id)
        p = z.norm(val)
        if minus:
            p = p - z.norm(ast.Name(id=minus, ctx=ast.Load()))
        plain = CanonNormalizer(df, node)
        plain.no_inline.add(serr.id)
        shown = plain.norm(val)
        depends = any(absF_atom in a for a in shown.atoms())
        ctx.check(p.is_zero() and depends, "R-FIXEDPOINT-ERR", f"{f.qualname}:error contribution {norm_text(st)[:40]}",
                  f.loc(st), f"{_k(shown)[:110]} vanishes at |F| == {dp}",
                  f"the error contribution {_k(shown)[:140]} does not vanish when |fft2({ew})| == {dp} "
                  f"(residual {_k(p)[:100]}): a perfect reconstruction reports a non-zero error"
                  if not p.is_zero() else
                  f"the error contribution {_k(shown)[:140]} does not measure the Fourier amplitude of {ew}",
                  key_detail="sse")


def _atom_name(df, name: str) -> str:
    nz = CanonNormalizer(df, df.cfg.exit)
    # version of a parameter as seen where it has not been reassigned
    has_versions = sum(1 for d in df.defs if d.var == name and d.strong) > 1
    return f"{name}@param" if has_versions else name


def _same(actual: Poly, want: Poly, df, ew: str, dp: str) -> bool:
    if actual == want:
        return True
    # parameters that are re-assigned get version tags; compare modulo `@param`
    strip = lambda p: re.sub(r"@param", "", p.key())
    return strip(actual) == strip(want)


# ---------------------------------------------------------------------- R-FACTOR
def _pair_params(repo, cls_name: str):
    """(exit param, modified param, dp param) of cls._update_function from the reconstruct() call site."""
    rec = repo.method(MOD, cls_name, "reconstruct")
    upd = repo.method(MOD, cls_name, "_update_function")
    alias = _step_aliases(repo, cls_name, rec)
    calls = {n: [c for c in walk_no_nested(rec.node) if isinstance(c, ast.Call)
                 and alias.get(call_name(c), call_name(c)) == n]
             for n in ("_overlap_projection", "_fourier_projection", "_update_function")}
    if any(len(v) != 1 for v in calls.values()):
        raise AnalysisError(f"{rec.qualname}: expected exactly one call each of the three operator steps")
    fp, uf = calls["_fourier_projection"][0], calls["_update_function"][0]
    fstmt = _stmt_of(rec.node, fp)
    if not (isinstance(fstmt, ast.Assign) and isinstance(fstmt.targets[0], ast.Tuple) and fstmt.value is fp
            and isinstance(fstmt.targets[0].elts[0], ast.Name) and fp.args and isinstance(fp.args[0], ast.Name)):
        raise AnalysisError(f"{rec.qualname}: cannot read `modified, sse = _fourier_projection(exit, dp, sse)`")
    modified, exit_ = fstmt.targets[0].elts[0].id, fp.args[0].id
    names = [a.id if isinstance(a, ast.Name) else None for a in uf.args]
    if modified not in names or exit_ not in names:
        raise AnalysisError(f"{rec.qualname}: the update is not called with the exit wave and the modified exit wave")
    params = upd.positional_params
    return rec, upd, params[names.index(exit_)], params[names.index(modified)], (calls, fstmt, modified, exit_)


ROLES = ("_overlap_projection", "_fourier_projection", "_update_function")


def _step_aliases(repo, cls_name: str, rec) -> dict:
    """local name -> operator step, for `a, b, c, d = update_step` in reconstruct().

    The queue holds tuples `(self._overlap_projection, self._fourier_projection, self._update_function, ...)` built in
    the class's other methods; position i of the unpacking is the step whose bound methods sit at position i of every
    such tuple literal (warm-up / alternative variants carry the step's name as a suffix)."""
    cls = repo.cls(MOD, cls_name)
    by_pos: dict[int, set] = {}
    for klass in cls.mro():
        for m in (f for fs in klass.methods.values() for f in fs):
            for t in ast.walk(m.node):
                if isinstance(t, ast.Tuple) and isinstance(t.ctx, ast.Load) and len(t.elts) >= 3:
                    roles = []
                    for e in t.elts:
                        d = dotted(e) or ""
                        r = next((r for r in ROLES if d.startswith("self.") and d.endswith(r[1:])), None)
                        roles.append(r)
                    if sum(r is not None for r in roles) >= 3:
                        for i, r in enumerate(roles):
                            if r:
                                by_pos.setdefault(i, set()).add(r)
    out = {}
    for st in walk_no_nested(rec.node):
        if isinstance(st, ast.Assign) and isinstance(st.targets[0], ast.Tuple) and isinstance(st.value, ast.Name) \
                and len(st.targets[0].elts) >= 3 and all(isinstance(e, ast.Name) for e in st.targets[0].elts):
            for i, e in enumerate(st.targets[0].elts):
                if len(by_pos.get(i, ())) == 1:
                    out[e.id] = next(iter(by_pos[i]))
    return out


def _stmt_of(func: ast.FunctionDef, target: ast.AST) -> ast.stmt:
    best = None
    for st in walk_no_nested(func):
        if isinstance(st, ast.stmt) and not isinstance(st, (ast.If, ast.For, ast.While, ast.With, ast.Try,
                                                            ast.FunctionDef)):
            if any(n is target for n in ast.walk(st)):
                best = st
    if best is None:
        raise AnalysisError(f"{func.name}: statement of `{norm_text(target)[:40]}` not found")
    return best


def _factor(ctx, repo) -> None:
    for cls_name in OPERATORS:
        mandatory = cls_name == ANCHOR
        try:
            _factor_one(ctx, repo, cls_name)
        except AnalysisError as e:
            if mandatory:
                raise
            ctx.info("R-FACTOR", f"{MOD}.{cls_name}._update_function", repo.cls(MOD, cls_name).where,
                     f"not analysed: {e}")


def _factor_one(ctx, repo, cls_name: str) -> None:
    rec, upd, p_exit, p_mod, _ = _pair_params(repo, cls_name)
    df = DataFlow(upd.node)
    rets = [n for n in walk_no_nested(upd.node) if isinstance(n, ast.Return) and n.value is not None]
    if len(rets) != 1:
        raise AnalysisError(f"{upd.qualname}: expected one return")
    returned = {n.id for n in ast.walk(rets[0].value) if isinstance(n, ast.Name)}
    # components of sequence-valued exit waves: `a, b = exit_waves` / `ma, mb = modified_exit_waves`
    comp: dict[str, list[str]] = {}
    for st in walk_no_nested(upd.node):
        if isinstance(st, ast.Assign) and isinstance(st.value, ast.Name) and st.value.id in (p_exit, p_mod) \
                and isinstance(st.targets[0], ast.Tuple) and all(isinstance(e, ast.Name) for e in st.targets[0].elts):
            comp[st.value.id] = [e.id for e in st.targets[0].elts]
    pairs = [(p_mod, p_exit)]
    if p_mod in comp and p_exit in comp and len(comp[p_mod]) == len(comp[p_exit]):
        pairs += list(zip(comp[p_mod], comp[p_exit]))
    incs = []
    for st in walk_no_nested(upd.node):
        if isinstance(st, ast.AugAssign) and isinstance(st.op, (ast.Add, ast.Sub)):
            root = st.target
            while isinstance(root, (ast.Subscript, ast.Attribute)):
                root = root.value
            if isinstance(root, ast.Name) and root.id in returned:
                incs.append((st, root.id))
    if not incs:
        raise AnalysisError(f"{upd.qualname}: no additive in-place update of a returned estimate found")
    for st, tgt in incs:
        node = df.cfg.node_of(st).idx
        p = CanonNormalizer(df, node).norm(st.value)
        nz = CanonNormalizer(df, node)
        for m, e in pairs:
            nz.extra[m] = ast.Name(id=e, ctx=ast.Load())  # evaluate the increment at modified == exit
        q = nz.norm(st.value)
        if not q.is_zero() and df.cfg.node_of(st).loops:
            raise AnalysisError(f"{upd.qualname}: increment inside a loop is outside the term language")
        ctx.check(q.is_zero(), "R-FACTOR", f"{upd.qualname}:increment of {norm_text(st.target)}", upd.loc(st),
                  f"vanishes identically at {p_mod} == {p_exit}",
                  f"the increment `{norm_text(st)[:90]}` ({_k(p)[:140]}) does not vanish when {p_mod} == {p_exit}: "
                  "with the true object and probe the update still changes the estimate", key_detail="factor")


# ---------------------------------------------------------------------- R-PAIRING
def _pairing(ctx, repo) -> None:
    rec, upd, p_exit, p_mod, (calls, fstmt, modified, exit_) = _pair_params(repo, ANCHOR)
    df = DataFlow(rec.node)
    ov, fp, uf = calls["_overlap_projection"][0], calls["_fourier_projection"][0], calls["_update_function"][0]
    ostmt = _stmt_of(rec.node, ov)
    ustmt = _stmt_of(rec.node, uf)
    onode, fnode, unode = (df.cfg.node_of(s).idx for s in (ostmt, fstmt, ustmt))
    # exit wave of the overlap projection is the Fourier projection's input
    d = df.single_def(fnode, exit_)
    ctx.check(d is not None and d.node == onode, "R-PAIRING", f"{rec.qualname}:overlap->fourier", rec.loc(fstmt),
              f"`{exit_}` comes from the overlap projection",
              f"the Fourier projection's input `{exit_}` is not the exit wave of the overlap projection",
              key_detail="exit")
    d1, d2 = df.single_def(unode, exit_), df.single_def(unode, modified)
    ctx.check(d1 is not None and d1.node == onode and d2 is not None and d2.node == fnode, "R-PAIRING",
              f"{rec.qualname}:fourier->update", rec.loc(ustmt),
              "the update receives this step's exit wave and modified exit wave",
              "the update does not receive the exit wave / modified exit wave produced in this step", key_detail="upd")
    # parameter positions (exit before modified, as in the abstract operator)
    base = repo.method(MOD, "AbstractPtychographicOperator", "_update_function")
    names = [a.id if isinstance(a, ast.Name) else None for a in uf.args]
    bp = base.positional_params
    ok = "exit_waves" in bp and "modified_exit_waves" in bp and names.index(exit_) == bp.index("exit_waves") \
        and names.index(modified) == bp.index("modified_exit_waves") \
        and upd.positional_params[:len(bp)] == bp[:len(upd.positional_params)]
    ctx.check(ok, "R-PAIRING", f"{rec.qualname}:update-argument-order", rec.loc(uf),
              f"({exit_}, {modified}) bound to ({p_exit}, {p_mod})",
              f"exit wave and modified exit wave are bound to ({p_exit}, {p_mod}), not to (exit_waves, "
              "modified_exit_waves) of the operator interface", key_detail="order")
    # same index for position and diffraction pattern, store-back under that index
    dp_arg = fp.args[1] if len(fp.args) > 1 else None
    pos_arg = ov.args[2] if len(ov.args) > 2 else None
    ctx.require(isinstance(dp_arg, ast.Name) and isinstance(pos_arg, ast.Name),
                f"{rec.qualname}: pattern / position arguments are not local variables")
    ddp, dpos = df.single_def(fnode, dp_arg.id), df.single_def(onode, pos_arg.id)
    ctx.require(ddp is not None and dpos is not None and isinstance(ddp.value, ast.Subscript)
                and isinstance(dpos.value, ast.Subscript),
                f"{rec.qualname}: pattern / position are not read by indexing")
    nzp, nzd = CanonNormalizer(df, dpos.node), CanonNormalizer(df, ddp.node)
    ip, idp = nzp.norm(dpos.value.slice), nzd.norm(ddp.value.slice)
    ctx.check(ip == idp, "R-PAIRING", f"{rec.qualname}:same-index", rec.loc(fstmt),
              f"{norm_text(dpos.value)} and {norm_text(ddp.value)} use the same index",
              f"position is read as {norm_text(dpos.value)} but the diffraction pattern as {norm_text(ddp.value)}: "
              "position j is reconstructed against the pattern of another scan point", key_detail="index")
    back = None
    if isinstance(ustmt, ast.Assign) and isinstance(ustmt.targets[0], ast.Tuple):
        for t in ustmt.targets[0].elts:
            if isinstance(t, ast.Subscript) and dotted(t.value) == dotted(dpos.value.value):
                back = t
    if back is None:
        ctx.info("R-PAIRING", f"{rec.qualname}:store-back", rec.loc(ustmt), "updated position is not stored back by index")
    else:
        ib = CanonNormalizer(df, unode).norm(back.slice)
        ctx.check(ib == ip, "R-PAIRING", f"{rec.qualname}:store-back", rec.loc(ustmt),
                  f"updated position stored at {norm_text(back)}",
                  f"updated position stored at {norm_text(back)} but read from {norm_text(dpos.value)}",
                  key_detail="back")


# ---- added after the seeded change C28-r3seed2: the probe is re-positioned by the *difference* of sub-pixel offsets
_inner_run_c28 = run


def run(ctx) -> None:  # noqa: F811
    from ..cfg import DataFlow as _DF

    ctx.rule("R-RESHIFT", "in every _overlap_projection the probe(s) carried over from the previous scan position are "
             "re-positioned with fft_shift by a shift that depends on both the new and the old position (the difference "
             "of their sub-pixel parts), and that call is unconditional — or its guard depends on both positions as "
             "well.  A guard on the new position alone (`if any(fractional_position != 0)`) skips the shift when an "
             "on-pixel position follows a sub-pixel one: the probe keeps the old offset, the true object and probe are "
             "no longer a fixed point and the reported error is non-zero")
    repo = ctx.repo
    mod = repo.modules[MOD]
    n = 0
    for c in mod.classes.values():
        f = c.own_method("_overlap_projection") or c.own_method("_warmup_overlap_projection")
        for f in [m for name in ("_overlap_projection", "_warmup_overlap_projection", "_alternative_overlap_projection")
                  for m in ([c.own_method(name)] if c.own_method(name) is not None else [])]:
            ps = f.positional_params
            pos = next((p for p in ps if p == "position"), None)
            old = next((p for p in ps if p == "old_position"), None)
            if pos is None or old is None:
                continue
            df = _DF(f.node)
            calls = [k for k in walk_no_nested(f.node) if isinstance(k, ast.Call) and call_name(k) == "fft_shift"
                     and len(k.args) >= 2]
            for k in calls:
                st = _stmt_of(f.node, k)
                at = df.cfg.node_of(st).idx
                sl = df.backward_slice(at, k.args[1])
                if not ({pos, old} <= sl.params):
                    continue  # some other shift (centring by the centre of mass ...)
                n += 1
                guards = [i for i in walk_no_nested(f.node) if isinstance(i, ast.If) and any(
                    x is st for b in (i.body + i.orelse) for x in ast.walk(b))]
                bad = None
                for g in guards:
                    gs = df.backward_slice(df.cfg.node_of(g).idx, g.test)
                    touches = {pos, old} & gs.params
                    if touches and touches != {pos, old}:
                        bad = (g, sorted(touches))
                ctx.check(bad is None, "R-RESHIFT", f"{f.qualname}:probe re-positioned", f.loc(k),
                          f"`{norm_text(k)[:60]}` is applied for every pair of old and new position",
                          f"`{norm_text(k)[:60]}` is skipped under `{norm_text(bad[0].test)[:50]}`, a condition on "
                          f"{bad[1]} alone: when that position is on the pixel grid the probe keeps the sub-pixel "
                          "offset of the previous position" if bad else "", key_detail="reshift")
    ctx.require(n >= 2, f"R-RESHIFT found only {n} position-difference shifts")
    _inner_run_c28(ctx)
