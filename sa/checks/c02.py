"""C02 — a frozen-phonon ensemble equals independent per-configuration simulations."""
from __future__ import annotations

import ast

from ..cfg import DataFlow
from ..model import call_name, dotted, norm_text, walk_no_nested
from ..rules import loopstate, sameslice

PH = "abtem.inelastic.phonons"
RANDOM_DISTS = {"normal", "uniform", "random", "standard_normal", "rand", "randn", "randint", "choice", "poisson",
                "shuffle", "permutation", "integers"}


def run(ctx) -> None:
    repo = ctx.repo
    ctx.rule("R-LOOPSTATE", loopstate.__doc__.split("\n\n", 1)[1])
    ctx.rule("R-SEEDONLY", "every random draw in FrozenPhonons.randomize comes from a generator constructed in the "
             "same call by default_rng(<expression data-dependent on self.seed>); no draw from the global numpy/random "
             "state and no unseeded generator — otherwise configurations depend on what ran before, on chunking or on "
             "evaluation order")
    ctx.rule("R-FRESHATOMS", "randomize displaces a fresh copy of the atoms (the in-place `positions[...] +=` is "
             "dominated by `atoms = atoms.copy()`); displacing the shared atoms would accumulate displacements across "
             "configurations, i.e. make configuration k depend on the processing order")
    ctx.rule("R-SEEDPART", "blocks of a partitioned FrozenPhonons are rebuilt with seed=<the block's slice of the "
             "seeds> and num_configs=len(<that slice>); _partition_args cuts self.seed with the loop's own range in "
             "both the lazy and the eager arm")
    ctx.rule("R-MEANAXES", "reduce_ensemble selects exactly the axes whose metadata carries _ensemble_mean and "
             "returns self.mean over those axes")
    ctx.rule("R-ORDERFREE", "the random numbers of a configuration are paired with coordinates by *value*, never by "
             "position in an order that the seeds do not fix: a sequence that is built by iterating a set (its order "
             "depends on the interpreter's string-hash seed) may be looped over, but its enumerate() counter must "
             "not index the drawn numbers or the positions — otherwise the same seeds give different configurations "
             "in another interpreter process (a process-based dask scheduler, a script run twice)")
    ctx.rule("R-PERCONFIG", "in multislice_and_detect every measurement update happens once per configuration: each "
             "call of _update_measurements / _validate_potential_ensemble_indices lies inside the loop over "
             "_generate_potential_configurations, and the configuration index handed to "
             "_validate_potential_ensemble_indices is data-dependent on that loop's own index variable (a constant "
             "index, or an update hoisted out of the loop, writes one configuration only: the others keep the "
             "allocated zeros and an ensemble mean is too small by 1/N)")
    ctx.rule("R-COPYGUARD", "(shared with C38) one propagator — one CachedFFTWConvolution — serves all configurations "
             "of a multislice_and_detect call: its cached FFTW plans may be executed only while bound (creation / "
             "update_arrays) to the array of the current call, else configuration k is propagated on the buffer left "
             "by configuration k-1")
    ctx.undecided("numerical equality with independent runs; sigma handling; that the mean equals the arithmetic mean")

    for fn in ("multislice_and_detect", "transition_potential_multislice_and_detect"):
        loopstate.check(ctx, repo.function("abtem.multislice", fn))

    # ---------------- R-SEEDONLY / R-FRESHATOMS
    rz = repo.method(PH, "FrozenPhonons", "randomize")
    df = DataFlow(rz.node)
    gens = {}
    for st in walk_no_nested(rz.node):
        if isinstance(st, ast.Assign) and isinstance(st.value, ast.Call) and (call_name(st.value) or "").endswith(
                "default_rng") and isinstance(st.targets[0], ast.Name):
            gens[st.targets[0].id] = st
    ctx.require(len(gens) >= 1, "FrozenPhonons.randomize: no default_rng(...) generator found")
    for name, st in gens.items():
        call = st.value
        seed = call.args[0] if call.args else next((k.value for k in call.keywords if k.arg == "seed"), None)
        node = df.cfg.node_of(st)
        dep = seed is not None and "self.seed" in df.backward_slice(node.idx, seed).external | {
            d for d in df.backward_slice(node.idx, seed).visited}
        ctx.check(dep, "R-SEEDONLY", f"{rz.qualname}:generator {name}", rz.loc(st),
                  f"generator seeded from {norm_text(seed) if seed is not None else '-'}",
                  f"generator `{norm_text(st)}` is not seeded from self.seed: configurations are not determined by "
                  "the seeds alone", key_detail="seed")
    draws = 0
    for c in walk_no_nested(rz.node):
        if isinstance(c, ast.Call) and isinstance(c.func, ast.Attribute) and c.func.attr in RANDOM_DISTS:
            recv = dotted(c.func.value)
            if recv in gens:
                draws += 1
                ctx.ok("R-SEEDONLY", f"{rz.qualname}:draw {norm_text(c)[:50]}", rz.loc(c), "draw from the seeded generator")
            elif recv in ("np.random", "numpy.random", "random", "xp.random"):
                draws += 1
                ctx.violation("R-SEEDONLY", f"{rz.qualname}:draw {norm_text(c)[:50]}", rz.loc(c),
                              f"`{norm_text(c)[:60]}` draws from the global random state: the configuration depends on "
                              "everything that drew before it (chunking, evaluation order, other configurations)",
                              key_detail="global")
    ctx.require(draws >= 1, "FrozenPhonons.randomize: no random draw recognised")
    muts = []
    for st in walk_no_nested(rz.node):
        tgt = None
        if isinstance(st, ast.AugAssign):
            tgt = st.target
        elif isinstance(st, ast.Assign):
            tgt = st.targets[0]
        if tgt is not None and isinstance(tgt, (ast.Subscript, ast.Attribute)):
            base = tgt
            while isinstance(base, (ast.Subscript, ast.Attribute)):
                base = base.value
            if isinstance(base, ast.Name) and ("positions" in ast.unparse(tgt) or "cell" in ast.unparse(tgt)):
                muts.append((st, base.id))
        if isinstance(st, ast.Expr) and isinstance(st.value, ast.Call) and isinstance(st.value.func, ast.Attribute) \
                and st.value.func.attr in ("set_positions", "translate", "rattle", "wrap", "set_scaled_positions") \
                and isinstance(st.value.func.value, ast.Name):
            muts.append((st, st.value.func.value.id))
    ctx.require(len(muts) >= 1, "FrozenPhonons.randomize: no displacement of positions recognised")
    aparam = rz.positional_params[1]
    for st, base in muts:
        node = df.cfg.node_of(st)
        rd = df.reaching(node.idx, base)
        fresh = bool(rd) and all(
            d.kind == "assign" and isinstance(d.value, ast.Call) and isinstance(d.value.func, ast.Attribute)
            and d.value.func.attr == "copy" for d in rd if d.strong) and any(d.strong for d in rd) and not any(
            d.kind == "param" for d in rd)
        ctx.check(fresh, "R-FRESHATOMS", f"{rz.qualname}:{norm_text(st)[:50]}", rz.loc(st),
                  f"`{base}` is a fresh copy when it is displaced",
                  f"`{norm_text(st)[:60]}` displaces `{base}`, which may still be the caller's/shared atoms object "
                  "(no dominating .copy()): displacements accumulate over configurations", key_detail="fresh")

    # ---------------- R-SEEDPART
    fpa = repo.method(PH, "FrozenPhonons", "_from_partitioned_args_func")
    ctors = [c for c in walk_no_nested(fpa.node) if isinstance(c, ast.Call) and dotted(c.func) in ("cls", "FrozenPhonons")]
    ctx.require(len(ctors) == 1, "FrozenPhonons._from_partitioned_args_func: constructor call not found")
    kws = {k.arg: k.value for k in ctors[0].keywords if k.arg}
    seedv = kws.get("seed")
    okp = (isinstance(seedv, ast.Name) and "num_configs" in kws and norm_text(kws["num_configs"]) == f"len({seedv.id})")
    if okp:
        dfp = DataFlow(fpa.node)
        sl = dfp.backward_slice(dfp.cfg.node_of(_stmt_of(fpa.node, ctors[0])).idx, seedv)
        okp = "args" in sl.params
    ctx.check(okp, "R-SEEDPART", f"{fpa.qualname}:rebuild", fpa.loc(ctors[0]),
              "block rebuilt with seed=<block seeds>, num_configs=len(<block seeds>)",
              f"block rebuilt by {norm_text(ctors[0])[:90]}: seed/num_configs do not come from the block's own seeds",
              key_detail="rebuild")
    sameslice.check(ctx, repo.method(PH, "FrozenPhonons", "_partition_args"), rule="R-SEEDPART")
    sameslice.check(ctx, repo.method(PH, "AtomsEnsemble", "_partition_args"), rule="R-SEEDPART")

    # ---------------- R-MEANAXES
    re_ = repo.method("abtem.measurements", "BaseMeasurements", "reduce_ensemble")
    rets = [r for r in walk_no_nested(re_.node) if isinstance(r, ast.Return) and r.value is not None]
    meanrets = [r for r in rets if isinstance(r.value, ast.Call) and call_name(r.value) == "self.mean"]
    ctx.require(len(meanrets) == 1, "reduce_ensemble: `return self.mean(...)` not found")
    mr = meanrets[0]
    axarg = mr.value.args[0] if mr.value.args else next((k.value for k in mr.value.keywords if k.arg == "axis"), None)
    dfr = DataFlow(re_.node)
    okm = False
    detail = ""
    if isinstance(axarg, ast.Name):
        d = dfr.single_def(dfr.cfg.node_of(mr).idx, axarg.id)
        if d is not None and d.value is not None:
            txt = norm_text(d.value)
            detail = txt
            gen = [g for g in ast.walk(d.value) if isinstance(g, (ast.GeneratorExp, ast.ListComp))]
            if gen:
                g = gen[0]
                it = g.generators[0]
                cond = " and ".join(norm_text(c) for c in it.ifs)
                okm = (call_name(it.iter) == "enumerate" and norm_text(it.iter.args[0]) == "self.axes_metadata"
                       and isinstance(it.target, ast.Tuple) and isinstance(g.elt, ast.Name)
                       and g.elt.id == it.target.elts[0].id and "_ensemble_mean" in cond
                       and f"{it.target.elts[1].id}._ensemble_mean" in cond and "not " not in cond)
    ctx.check(okm, "R-MEANAXES", f"{re_.qualname}", re_.loc(mr), "mean over exactly the _ensemble_mean axes",
              f"reduce_ensemble averages over {detail or norm_text(axarg) if axarg is not None else '?'} — not the "
              "axes flagged _ensemble_mean", key_detail="axes")

    # ---------------- R-ORDERFREE
    fpc = repo.cls(PH, "FrozenPhonons")
    unstable: dict[str, str] = {}
    for klass in fpc.mro():
        for defs in klass.methods.values():
            for m in defs:
                loops_ = [l for l in walk_no_nested(m.node) if isinstance(l, ast.For) and any(
                    isinstance(c, ast.Call) and call_name(c) in ("set", "frozenset") for c in ast.walk(l.iter))]
                rets_ = [r for r in walk_no_nested(m.node) if isinstance(r, ast.Return) and r.value is not None]
                if loops_ and rets_ and (m.is_property or not m.positional_params[1:]):
                    unstable[m.name] = norm_text(loops_[0].iter)[:50]
    n_of = 0
    for l in walk_no_nested(rz.node):
        if not isinstance(l, ast.For):
            continue
        it, tgt = l.iter, l.target
        counter = None
        if isinstance(it, ast.Call) and call_name(it) == "enumerate" and it.args and isinstance(tgt, ast.Tuple) \
                and isinstance(tgt.elts[0], ast.Name):
            it, counter = it.args[0], tgt.elts[0].id
        src = dotted(it) or ""
        # a local alias of the sequence
        if isinstance(it, ast.Name):
            d_ = df.single_def(df.cfg.node_of(l).idx, it.id)
            if d_ is not None and d_.value is not None:
                src = dotted(d_.value) or src
        attr = src[5:] if src.startswith("self.") else None
        direct_set = any(isinstance(c, ast.Call) and call_name(c) in ("set", "frozenset") for c in ast.walk(l.iter))
        if not (attr in unstable or direct_set):
            continue
        n_of += 1
        used = []
        if counter is not None:
            for sub in (x for st_ in l.body for x in ast.walk(st_) if isinstance(x, ast.Subscript)):
                if any(isinstance(n_, ast.Name) and n_.id == counter for n_ in ast.walk(sub.slice)):
                    used.append(sub)
        ctx.check(not used, "R-ORDERFREE", f"{rz.qualname}:loop over {src or 'a set'}", rz.loc(l),
                  f"loop over {src} (built from {unstable.get(attr, 'a set')}): values are paired by axis value, the "
                  "iteration position is not used as an index",
                  f"`{norm_text(used[0])[:50]}` is indexed with `{counter}`, the position in a loop over {src}, which is "
                  f"built by iterating {unstable.get(attr, 'a set')}: the order of a set of strings depends on the "
                  "interpreter's hash seed, so which random column displaces which coordinate is not determined by "
                  "the configuration seeds" if used else "", key_detail="orderfree")
    ctx.require(n_of >= 1, f"{rz.qualname}: no loop over the displaced axes found")

    # ---------------- R-PERCONFIG
    mad = repo.function("abtem.multislice", "multislice_and_detect")
    dfm = DataFlow(mad.node)
    cloops = [l for l in walk_no_nested(mad.node) if isinstance(l, ast.For) and isinstance(l.iter, ast.Call)
              and call_name(l.iter) == "_generate_potential_configurations"]
    ctx.require(len(cloops) == 1, f"{mad.qualname}: loop over _generate_potential_configurations not found")
    cloop = cloops[0]
    ctx.require(isinstance(cloop.target, ast.Tuple) and isinstance(cloop.target.elts[0], ast.Name),
                f"{mad.qualname}: the configuration loop does not unpack (index, configuration)")
    cidx = cloop.target.elts[0].id
    inside = {id(n) for n in ast.walk(cloop)}
    n_upd = 0
    for c in walk_no_nested(mad.node):
        if not (isinstance(c, ast.Call) and call_name(c) in ("_update_measurements", "_validate_potential_ensemble_indices")):
            continue
        n_upd += 1
        name = call_name(c)
        if id(c) not in inside:
            ctx.violation("R-PERCONFIG", f"{mad.qualname}:{name} outside the configuration loop", mad.loc(c),
                          f"`{norm_text(c)[:80]}` runs once, outside the loop over the potential configurations: what it "
                          "records is written for one configuration only", key_detail="hoisted")
            continue
        if name == "_validate_potential_ensemble_indices":
            ctx.require(c.args, f"{mad.qualname}: _validate_potential_ensemble_indices called without arguments")
            st = _stmt_of(mad.node, c)
            sl = dfm.backward_slice(dfm.cfg.node_of(st).idx, c.args[0])
            dep = cidx in sl.visited or cidx in sl.external or any(
                dfm.cfg.nodes[n_].ast is cloop for n_ in sl.def_nodes)
            ctx.check(dep, "R-PERCONFIG", f"{mad.qualname}:configuration index", mad.loc(c),
                      f"index `{norm_text(c.args[0])}` derives from the loop variable `{cidx}`",
                      f"the configuration index `{norm_text(c.args[0])[:60]}` does not derive from the loop variable "
                      f"`{cidx}`: every configuration is written to the same slot", key_detail="index")
        else:
            ctx.ok("R-PERCONFIG", f"{mad.qualname}:{name}", mad.loc(c), "inside the configuration loop")
    ctx.require(n_upd >= 3, f"{mad.qualname}: only {n_upd} measurement update / index calls found")

    # ---------------- R-COPYGUARD (stateful convolution reused across configurations; the rule lives in c38)
    from . import c38

    c38._copyguard_cached(ctx, repo)


def _stmt_of(func: ast.FunctionDef, node: ast.AST) -> ast.stmt:
    for st in ast.walk(func):
        if isinstance(st, ast.stmt) and not isinstance(st, (ast.FunctionDef, ast.If, ast.For, ast.While, ast.With,
                                                           ast.Try)):
            if any(n is node for n in ast.walk(st)):
                return st
    raise LookupError
