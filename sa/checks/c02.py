"""C02 — a frozen-phonon ensemble equals independent per-configuration simulations."""
from __future__ import annotations

from ..rules import loopstate


def run(ctx) -> None:
    repo = ctx.repo
    ctx.rule("R-LOOPSTATE", loopstate.__doc__.split("\n\n", 1)[1])
    for fn in ("multislice_and_detect", "transition_potential_multislice_and_detect"):
        loopstate.check(ctx, repo.function("abtem.multislice", fn))
