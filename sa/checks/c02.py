"""C02 — a frozen-phonon ensemble equals independent per-configuration simulations."""
from __future__ import annotations

import ast

from ..cfg import DataFlow
from ..model import call_name, dotted, norm_text, walk_no_nested
from ..rules import loopstate, sameslice

PH = "abtem.inelastic.phonons"
RANDOM_DISTS = {"normal", "uniform", "random", "standard_normal", "rand", "randn", "randint", "choice", "poisson",
                "shuffle", "permutation", "integers"}


def run(ctx) -> None:
    repo = ctx.repo
    ctx.rule("R-LOOPSTATE", loopstate.__doc__.split("\n\n", 1)[1])
    ctx.rule("R-SEEDONLY", "every random draw in FrozenPhonons.randomize comes from a generator constructed in the "
             "same call by default_rng(<expression data-dependent on self.seed>); no draw from the global numpy/random "
             "state and no unseeded generator — otherwise configurations depend on what ran before, on chunking or on "
             "evaluation order")
    ctx.rule("R-FRESHATOMS", "randomize displaces a fresh copy of the atoms (the in-place `positions[...] +=` is "
             "dominated by `atoms = atoms.copy()`); displacing the shared atoms would accumulate displacements across "
             "configurations, i.e. make configuration k depend on the processing order")
    ctx.rule("R-SEEDPART", "blocks of a partitioned FrozenPhonons are rebuilt with seed=<the block's slice of the "
             "seeds> and num_configs=len(<that slice>); _partition_args cuts self.seed with the loop's own range in "
             "both the lazy and the eager arm")
    ctx.rule("R-MEANAXES", "reduce_ensemble selects exactly the axes whose metadata carries _ensemble_mean and "
             "returns self.mean over those axes")
    ctx.rule("R-ORDERFREE", "the random numbers of a configuration are paired with coordinates by *value*, never by "
             "position in an order that the seeds do not fix: a sequence that is built by iterating a set (its order "
             "depends on the interpreter's string-hash seed) may be looped over, but its enumerate() counter must "
             "not index the drawn numbers or the positions — otherwise the same seeds give different configurations "
             "in another interpreter process (a process-based dask scheduler, a script run twice)")
    ctx.rule("R-PERCONFIG", "in multislice_and_detect every measurement update happens once per configuration: each "
             "call of _update_measurements / _validate_potential_ensemble_indices lies inside the loop over "
             "_generate_potential_configurations, and the configuration index handed to "
             "_validate_potential_ensemble_indices is data-dependent on that loop's own index variable (a constant "
             "index, or an update hoisted out of the loop, writes one configuration only: the others keep the "
             "allocated zeros and an ensemble mean is too small by 1/N)")
    ctx.rule("R-COPYGUARD", "(shared with C38) one propagator — one CachedFFTWConvolution — serves all configurations "
             "of a multislice_and_detect call: its cached FFTW plans may be executed only while bound (creation / "
             "update_arrays) to the array of the current call, else configuration k is propagated on the buffer left "
             "by configuration k-1")
    ctx.undecided("numerical equality with independent runs; sigma handling; that the mean equals the arithmetic mean")

    for fn in ("multislice_and_detect", "transition_potential_multislice_and_detect"):
        loopstate.check(ctx, repo.function("abtem.multislice", fn))

    # ---------------- R-SEEDONLY / R-FRESHATOMS
    rz = repo.method(PH, "FrozenPhonons", "randomize")
    df = DataFlow(rz.node)
    gens = {}
    for st in walk_no_nested(rz.node):
        if isinstance(st, ast.Assign) and isinstance(st.value, ast.Call) and (call_name(st.value) or "").endswith(
                "default_rng") and isinstance(st.targets[0], ast.Name):
            gens[st.targets[0].id] = st
    ctx.require(len(gens) >= 1, "FrozenPhonons.randomize: no default_rng(...) generator found")
    for name, st in gens.items():
        call = st.value
        seed = call.args[0] if call.args else next((k.value for k in call.keywords if k.arg == "seed"), None)
        node = df.cfg.node_of(st)
        dep = seed is not None and "self.seed" in df.backward_slice(node.idx, seed).external | {
            d for d in df.backward_slice(node.idx, seed).visited}
        ctx.check(dep, "R-SEEDONLY", f"{rz.qualname}:generator {name}", rz.loc(st),
                  f"generator seeded from {norm_text(seed) if seed is not None else '-'}",
                  f"generator `{norm_text(st)}` is not seeded from self.seed: configurations are not determined by "
                  "the seeds alone", key_detail="seed")
    draws = 0
    for c in walk_no_nested(rz.node):
        if isinstance(c, ast.Call) and isinstance(c.func, ast.Attribute) and c.func.attr in RANDOM_DISTS:
            recv = dotted(c.func.value)
            if recv in gens:
                draws += 1
                ctx.ok("R-SEEDONLY", f"{rz.qualname}:draw {norm_text(c)[:50]}", rz.loc(c), "draw from the seeded generator")
            elif recv in ("np.random", "numpy.random", "random", "xp.random"):
                draws += 1
                ctx.violation("R-SEEDONLY", f"{rz.qualname}:draw {norm_text(c)[:50]}", rz.loc(c),
                              f"`{norm_text(c)[:60]}` draws from the global random state: the configuration depends on "
                              "everything that drew before it (chunking, evaluation order, other configurations)",
                              key_detail="global")
    ctx.require(draws >= 1, "FrozenPhonons.randomize: no random draw recognised")
    muts = []
    for st in walk_no_nested(rz.node):
        tgt = None
        if isinstance(st, ast.AugAssign):
            tgt = st.target
        elif isinstance(st, ast.Assign):
            tgt = st.targets[0]
        if tgt is not None and isinstance(tgt, (ast.Subscript, ast.Attribute)):
            base = tgt
            while isinstance(base, (ast.Subscript, ast.Attribute)):
                base = base.value
            if isinstance(base, ast.Name) and ("positions" in ast.unparse(tgt) or "cell" in ast.unparse(tgt)):
                muts.append((st, base.id))
        if isinstance(st, ast.Expr) and isinstance(st.value, ast.Call) and isinstance(st.value.func, ast.Attribute) \
                and st.value.func.attr in ("set_positions", "translate", "rattle", "wrap", "set_scaled_positions") \
                and isinstance(st.value.func.value, ast.Name):
            muts.append((st, st.value.func.value.id))
    ctx.require(len(muts) >= 1, "FrozenPhonons.randomize: no displacement of positions recognised")
    aparam = rz.positional_params[1]
    for st, base in muts:
        node = df.cfg.node_of(st)
        rd = df.reaching(node.idx, base)
        fresh = bool(rd) and all(
            d.kind == "assign" and isinstance(d.value, ast.Call) and isinstance(d.value.func, ast.Attribute)
            and d.value.func.attr == "copy" for d in rd if d.strong) and any(d.strong for d in rd) and not any(
            d.kind == "param" for d in rd)
        ctx.check(fresh, "R-FRESHATOMS", f"{rz.qualname}:{norm_text(st)[:50]}", rz.loc(st),
                  f"`{base}` is a fresh copy when it is displaced",
                  f"`{norm_text(st)[:60]}` displaces `{base}`, which may still be the caller's/shared atoms object "
                  "(no dominating .copy()): displacements accumulate over configurations", key_detail="fresh")

    # ---------------- R-SEEDPART
    from ..rules import seedrebuild

    seedrebuild.check(ctx, repo.method(PH, "FrozenPhonons", "_from_partitioned_args_func"), ("cls", "FrozenPhonons"),
                      "seed", "num_configs", rule="R-SEEDPART")
    sameslice.check(ctx, repo.method(PH, "FrozenPhonons", "_partition_args"), rule="R-SEEDPART")
    sameslice.check(ctx, repo.method(PH, "AtomsEnsemble", "_partition_args"), rule="R-SEEDPART")

    # ---------------- R-MEANAXES
    re_ = repo.method("abtem.measurements", "BaseMeasurements", "reduce_ensemble")
    rets = [r for r in walk_no_nested(re_.node) if isinstance(r, ast.Return) and r.value is not None]
    meanrets = [r for r in rets if isinstance(r.value, ast.Call) and call_name(r.value) == "self.mean"]
    ctx.require(len(meanrets) == 1, "reduce_ensemble: `return self.mean(...)` not found")
    mr = meanrets[0]
    axarg = mr.value.args[0] if mr.value.args else next((k.value for k in mr.value.keywords if k.arg == "axis"), None)
    dfr = DataFlow(re_.node)
    okm = False
    detail = ""
    if isinstance(axarg, ast.Name):
        d = dfr.single_def(dfr.cfg.node_of(mr).idx, axarg.id)
        if d is not None and d.value is not None:
            txt = norm_text(d.value)
            detail = txt
            gen = [g for g in ast.walk(d.value) if isinstance(g, (ast.GeneratorExp, ast.ListComp))]
            if gen:
                g = gen[0]
                it = g.generators[0]
                cond = " and ".join(norm_text(c) for c in it.ifs)
                okm = (call_name(it.iter) == "enumerate" and norm_text(it.iter.args[0]) == "self.axes_metadata"
                       and isinstance(it.target, ast.Tuple) and isinstance(g.elt, ast.Name)
                       and g.elt.id == it.target.elts[0].id and "_ensemble_mean" in cond
                       and f"{it.target.elts[1].id}._ensemble_mean" in cond and "not " not in cond)
    ctx.check(okm, "R-MEANAXES", f"{re_.qualname}", re_.loc(mr), "mean over exactly the _ensemble_mean axes",
              f"reduce_ensemble averages over {detail or norm_text(axarg) if axarg is not None else '?'} — not the "
              "axes flagged _ensemble_mean", key_detail="axes")

    # ---------------- R-ORDERFREE
    fpc = repo.cls(PH, "FrozenPhonons")
    unstable: dict[str, str] = {}
    for klass in fpc.mro():
        for defs in klass.methods.values():
            for m in defs:
                loops_ = [l for l in walk_no_nested(m.node) if isinstance(l, ast.For) and any(
                    isinstance(c, ast.Call) and call_name(c) in ("set", "frozenset") for c in ast.walk(l.iter))]
                rets_ = [r for r in walk_no_nested(m.node) if isinstance(r, ast.Return) and r.value is not None]
                if loops_ and rets_ and (m.is_property or not m.positional_params[1:]):
                    unstable[m.name] = norm_text(loops_[0].iter)[:50]
    n_of = 0
    for l in walk_no_nested(rz.node):
        if not isinstance(l, ast.For):
            continue
        it, tgt = l.iter, l.target
        counter = None
        if isinstance(it, ast.Call) and call_name(it) == "enumerate" and it.args and isinstance(tgt, ast.Tuple) \
                and isinstance(tgt.elts[0], ast.Name):
            it, counter = it.args[0], tgt.elts[0].id
        src = dotted(it) or ""
        # a local alias of the sequence
        if isinstance(it, ast.Name):
            d_ = df.single_def(df.cfg.node_of(l).idx, it.id)
            if d_ is not None and d_.value is not None:
                src = dotted(d_.value) or src
        attr = src[5:] if src.startswith("self.") else None
        direct_set = any(isinstance(c, ast.Call) and call_name(c) in ("set", "frozenset") for c in ast.walk(l.iter))
        if not (attr in unstable or direct_set):
            continue
        n_of += 1
        used = []
        if counter is not None:
            for sub in (x for st_ in l.body for x in ast.walk(st_) if isinstance(x, ast.Subscript)):
                if any(isinstance(n_, ast.Name) and n_.id == counter for n_ in ast.walk(sub.slice)):
                    used.append(sub)
        ctx.check(not used, "R-ORDERFREE", f"{rz.qualname}:loop over {src or 'a set'}", rz.loc(l),
                  f"loop over {src} (built from {unstable.get(attr, 'a set')}): values are paired by axis value, the "
                  "iteration position is not used as an index",
                  f"`{norm_text(used[0])[:50]}` is indexed with `{counter}`, the position in a loop over {src}, which is "
                  f"built by iterating {unstable.get(attr, 'a set')}: the order of a set of strings depends on the "
                  "interpreter's hash seed, so which random column displaces which coordinate is not determined by "
                  "the configuration seeds" if used else "", key_detail="orderfree")
    ctx.require(n_of >= 1, f"{rz.qualname}: no loop over the displaced axes found")

    # ---------------- R-PERCONFIG
    mad = repo.function("abtem.multislice", "multislice_and_detect")
    dfm = DataFlow(mad.node)
    cloops = [l for l in walk_no_nested(mad.node) if isinstance(l, ast.For) and isinstance(l.iter, ast.Call)
              and call_name(l.iter) == "_generate_potential_configurations"]
    ctx.require(len(cloops) == 1, f"{mad.qualname}: loop over _generate_potential_configurations not found")
    cloop = cloops[0]
    ctx.require(isinstance(cloop.target, ast.Tuple) and isinstance(cloop.target.elts[0], ast.Name),
                f"{mad.qualname}: the configuration loop does not unpack (index, configuration)")
    cidx = cloop.target.elts[0].id
    inside = {id(n) for n in ast.walk(cloop)}
    n_upd = 0
    for c in walk_no_nested(mad.node):
        if not (isinstance(c, ast.Call) and call_name(c) in ("_update_measurements", "_validate_potential_ensemble_indices")):
            continue
        n_upd += 1
        name = call_name(c)
        if id(c) not in inside:
            ctx.violation("R-PERCONFIG", f"{mad.qualname}:{name} outside the configuration loop", mad.loc(c),
                          f"`{norm_text(c)[:80]}` runs once, outside the loop over the potential configurations: what it "
                          "records is written for one configuration only", key_detail="hoisted")
            continue
        if name == "_validate_potential_ensemble_indices":
            ctx.require(c.args, f"{mad.qualname}: _validate_potential_ensemble_indices called without arguments")
            st = _stmt_of(mad.node, c)
            sl = dfm.backward_slice(dfm.cfg.node_of(st).idx, c.args[0])
            dep = cidx in sl.visited or cidx in sl.external or any(
                dfm.cfg.nodes[n_].ast is cloop for n_ in sl.def_nodes)
            ctx.check(dep, "R-PERCONFIG", f"{mad.qualname}:configuration index", mad.loc(c),
                      f"index `{norm_text(c.args[0])}` derives from the loop variable `{cidx}`",
                      f"the configuration index `{norm_text(c.args[0])[:60]}` does not derive from the loop variable "
                      f"`{cidx}`: every configuration is written to the same slot", key_detail="index")
        else:
            ctx.ok("R-PERCONFIG", f"{mad.qualname}:{name}", mad.loc(c), "inside the configuration loop")
    ctx.require(n_upd >= 3, f"{mad.qualname}: only {n_upd} measurement update / index calls found")

    # ---------------- R-COPYGUARD (stateful convolution reused across configurations; the rule lives in c38)
    from . import c38

    c38._copyguard_cached(ctx, repo)


def _stmt_of(func: ast.FunctionDef, node: ast.AST) -> ast.stmt:
    for st in ast.walk(func):
        if isinstance(st, ast.stmt) and not isinstance(st, (ast.FunctionDef, ast.If, ast.For, ast.While, ast.With,
                                                           ast.Try)):
            if any(n is node for n in ast.walk(st)):
                return st
    raise LookupError


# ---- added after the mutation sweep: every configuration is recorded, and only the general path may be skipped
_inner_run_c02_sweep = run


def _store_roles(upd):
    """(container parameter, index parameter) of the function that writes a detected wave into the allocated
    measurements: the parameters that are the root and the subscript of its `<container>[..].array[<index>] (+)= ...`
    stores."""
    cont, index = set(), set()
    for st in ast.walk(upd.node):
        tgt = st.target if isinstance(st, ast.AugAssign) else (st.targets[0] if isinstance(st, ast.Assign) else None)
        if not isinstance(tgt, ast.Subscript) or not isinstance(tgt.slice, ast.Name) or tgt.slice.id not in upd.params:
            continue
        base = tgt.value
        while isinstance(base, (ast.Subscript, ast.Attribute)):
            base = base.value
        if isinstance(base, ast.Name) and base.id in upd.params:
            cont.add(base.id)
            index.add(tgt.slice.id)
    if len(cont) != 1 or len(index) != 1:
        from ..model import AnalysisError

        raise AnalysisError(f"{upd.qualname}: the store `<measurements>[i].array[<index>] = ...` was not recognised")
    return cont.pop(), index.pop()


def _root_name(e):
    while isinstance(e, (ast.Subscript, ast.Attribute)):
        e = e.value
    return e.id if isinstance(e, ast.Name) else None


def _recorded(ctx, repo, f) -> None:
    from ..model import bind_args
    from ..rules.pathfacts import edge_facts, none_polarity

    upd = repo.function("abtem.multislice", "_update_measurements")
    cont_p, index_p = _store_roles(upd)
    df = DataFlow(f.node)
    cfg = df.cfg
    vnodes, unodes = [], []  # (node idx, stmt, call)
    for n in cfg.nodes:
        if n.ast is None or n.kind != "stmt":
            continue
        for c in walk_no_nested(n.ast):
            if not isinstance(c, ast.Call):
                continue
            if call_name(c) == "_validate_potential_ensemble_indices":
                ctx.require(isinstance(n.ast, ast.Assign) and n.ast.value is c and isinstance(n.ast.targets[0], ast.Name),
                            f"{f.qualname}: the measurement index is not bound to a variable")
                vnodes.append((n.idx, n.ast, c))
            elif call_name(c) == upd.name:
                unodes.append((n.idx, n.ast, c))
    ctx.require(vnodes and unodes, f"{f.qualname}: measurement index / update calls not found")
    containers = set()
    for _, _, c in unodes:
        b = bind_args(c, upd)
        ctx.require(cont_p in b and index_p in b, f"{f.qualname}: `{norm_text(c)[:60]}` does not pass container and index")
        containers.add(_root_name(b[cont_p]))
    ctx.require(len(containers) == 1 and None not in containers,
                f"{f.qualname}: the measurement updates do not write one container variable")
    cont = containers.pop()
    vset = {i for i, _, _ in vnodes}
    for k, (vi, vst, vc) in enumerate(vnodes):
        consumers = set()
        for ui, ust, uc in unodes:
            arg = bind_args(uc, upd)[index_p]
            sl = df.backward_slice(ui, arg)
            if vi in sl.def_nodes:
                consumers.add(ui)
        loops = cfg.nodes[vi].loops
        if not loops:
            ctx.info("R-RECORDED", f"{f.qualname}:measurement index #{k + 1}", f.loc(vst),
                     "computed outside every loop: left to R-PERCONFIG")
            continue
        stops = {cfg.exit, loops[-1]} | (vset - {vi}) | set(loops)
        # is there a path from the index computation to the end of this (configuration, exit plane) step that passes
        # no update consuming the index, along edges on which the container may be allocated?
        seen, stack, bad = set(), [vi], None
        while stack and bad is None:
            n = stack.pop()
            for s in cfg.nodes[n].succ:
                lab = cfg.elabel.get((n, s))
                if lab in ("T", "F") and any(none_polarity(a, t, cont) is True for a, t in edge_facts(cfg, n, lab, df)):
                    continue  # nothing is allocated on this edge: there is nothing to record
                if s in consumers or s in seen or s == cfg.rexit:
                    continue
                if s in stops:
                    bad = s
                    break
                seen.add(s)
                stack.append(s)
        ctx.check(bad is None, "R-RECORDED", f"{f.qualname}:measurement index #{k + 1}", f.loc(vst),
                  f"every path on which `{cont}` is allocated hands the index to {upd.name} before the step ends "
                  f"({len(consumers)} consuming update(s))",
                  f"the slot computed by `{norm_text(vc)[:70]}` can reach the end of the step without any "
                  f"{upd.name}(..., <that index>) although `{cont}` is allocated: the slot of this (configuration, exit "
                  "plane) keeps the zeros it was allocated with, whereas the single-configuration run (which detects the "
                  "final wave directly) returns the wave", key_detail="unrecorded")


def _mentions_ensemble_shape(repo, f, df, at: int, expr, depth: int = 0) -> bool:
    """Does `expr` (evaluated at CFG node `at` of `f`) derive from an `.ensemble_shape` read — directly, through
    locals, or through a package function that reads it from its argument?"""
    sl = df.backward_slice(at, expr)
    exprs = [expr] + [df.cfg.nodes[n].ast for n in sl.def_nodes if df.cfg.nodes[n].ast is not None]
    for e in exprs:
        for m in ast.walk(e):
            if isinstance(m, ast.Attribute) and m.attr == "ensemble_shape":
                return True
            if isinstance(m, ast.Call) and depth < 2:
                g = repo.resolve_name(f.module, call_name(m) or "")
                if g is not None and hasattr(g, "positional_params") and hasattr(g, "node") and \
                        isinstance(g.node, ast.FunctionDef):
                    for r in walk_no_nested(g.node):
                        if isinstance(r, ast.Return) and r.value is not None:
                            dg = DataFlow(g.node)
                            if _mentions_ensemble_shape(repo, g, dg, dg.cfg.node_of(r).idx, r.value, depth + 1):
                                return True
    return False


def _count_fact(repo, f, df, at: int, atom, truth):
    """Reads one path fact as a statement about the number of configurations: +1 `exactly one`, -1 a comparison of a
    configuration count that does not establish `exactly one`, 0 not about the configuration count."""
    if not (isinstance(atom, ast.Compare) and len(atom.ops) == 1):
        return 0
    sides = [atom.left, atom.comparators[0]]
    for a, b in (sides, sides[::-1]):
        count = False
        if isinstance(a, ast.Attribute) and a.attr in ("num_configurations", "num_configs", "num_frozen_phonons"):
            count = True
        elif isinstance(a, ast.Call) and (call_name(a) or "").split(".")[-1] in ("sum", "prod") and len(a.args) == 1 \
                and _mentions_ensemble_shape(repo, f, df, at, a.args[0]):
            count = True
        if not count:
            continue
        one = isinstance(b, ast.Constant) and b.value == 1 and not isinstance(b.value, bool)
        if one and ((isinstance(atom.ops[0], ast.Eq) and truth) or (isinstance(atom.ops[0], ast.NotEq) and not truth)):
            return 1
        return -1
    return 0


def _lastonly(ctx, repo, f, cloop) -> None:
    from ..model import AnalysisError
    from ..rules.pathfacts import necessary_facts, none_polarity

    df = DataFlow(f.node)
    cfg = df.cfg
    header = cfg.node_of(cloop).idx
    body = cfg.loop_body_nodes(header)
    after, stack = set(), [s for s in cfg.nodes[header].succ if s not in body]
    while stack:
        n = stack.pop()
        if n in after or n in body or n == header:
            continue
        after.add(n)
        stack.extend(cfg.nodes[n].succ)
    pot = f.positional_params[1]

    def single(at: int, facts) -> tuple[int, str]:
        """+1 single configuration established, -1 refuted/unguarded, and a text."""
        verdicts = [(_count_fact(repo, f, df, at, a, t), a, t) for a, t in facts]
        if any(v == 1 for v, _, _ in verdicts):
            a = next(a for v, a, _ in verdicts if v == 1)
            return 1, f"`{norm_text(a)}`"
        wrong = [(a, t) for v, a, t in verdicts if v == -1]
        if wrong:
            a, t = wrong[0]
            return -1, f"the guard `{norm_text(a)}` ({'true' if t else 'false'} there) does not say that there is exactly " \
                       "one configuration"
        about_pot = [a for a, _ in facts if any(isinstance(m, ast.Name) and m.id == pot for m in ast.walk(a))
                     or df.backward_slice(at, a).depends_on(pot)]
        if not about_pot:
            return -1, "no test on the potential guards it"
        raise AnalysisError(f"{f.qualname}: cannot read the guard {', '.join(norm_text(a)[:50] for a in about_pot)} as a "
                            "statement about the number of configurations")

    n_uses = 0
    for n in sorted(after):
        node = cfg.nodes[n]
        if node.ast is None or node.kind not in ("stmt", "test", "loop", "with"):
            continue
        for var in sorted(df.node_uses.get(n, set())):
            rd = [d for d in df.reaching(n, var) if (d.node in body or d.node == header) and d.kind in (
                "assign", "aug", "for", "walrus")]
            if not rd:
                continue
            n_uses += 1
            facts = necessary_facts(cfg, n, df)
            construct = f"{f.qualname}:value of the last configuration read after the loop"
            # the use may be guarded by `<flag> is None`, the flag being set to None where the shortcut is chosen
            flags = []
            for a, t in facts:
                if isinstance(a, ast.Compare) and isinstance(a.left, ast.Name) and none_polarity(a, t, a.left.id) is True:
                    flags.append(a.left.id)
            sites = []  # (node, facts) where the decision for the shortcut is taken
            for fl in flags:
                for d in df.reaching(n, fl):
                    if d.kind != "assign" or not d.strong or d.value is None:
                        raise AnalysisError(f"{f.qualname}: `{fl}` is defined by an unmodelled construct")
                    if isinstance(d.value, ast.Constant) and d.value.value is None:
                        sites.append((d.node, necessary_facts(cfg, d.node, df)))
                    elif not isinstance(d.value, (ast.Call, ast.List, ast.ListComp, ast.Tuple, ast.Dict)):
                        raise AnalysisError(f"{f.qualname}: cannot tell whether `{norm_text(d.value)[:40]}` is None")
            if not sites:
                sites = [(n, facts)]
            res = [single(at, fs) for at, fs in sites]
            bad = [t for v, t in res if v != 1]
            ctx.check(not bad, "R-LASTONLY", construct, f.loc(node.ast),
                      f"`{var}` (left by the last configuration) is read after the configuration loop only where "
                      f"{res[0][1]} holds: there is exactly one configuration",
                      f"`{var}` is assigned per configuration inside the loop and read after it, i.e. it holds the LAST "
                      f"configuration only, but {bad[0] if bad else ''}: with N > 1 configurations the result contains one "
                      "configuration instead of N", key_detail="lastonly")
    ctx.require(n_uses >= 1, f"{f.qualname}: no read of the final wave after the configuration loop (the shortcut for "
                             "a single configuration was not found)")


def run(ctx) -> None:  # noqa: F811
    repo = ctx.repo
    ctx.rule("R-RECORDED", "in multislice_and_detect every slot index computed by _validate_potential_ensemble_indices "
             "is handed to an _update_measurements call on every path to the end of that (configuration, exit plane) "
             "step on which the measurement container is allocated (edges that establish `<container> is None` are "
             "excluded).  An ensemble always allocates, a single configuration detects the final wave directly: a step "
             "that computes its slot and does not write it leaves zeros in the ensemble result only, so configuration k "
             "differs from the independent run of configuration k")
    ctx.rule("R-LASTONLY", "a variable assigned inside the configuration loop and read after it holds the last "
             "configuration only.  Such a read (the direct detection of the final wave) must lie on paths where a test "
             "`<count> == 1` holds, <count> being num_configurations or the sum/product of a shape derived from "
             "potential.ensemble_shape — either at the read itself or where the flag that the read is guarded with "
             "(`<flag> is None`) is set to None")
    ctx.rule("R-SEEDPART", "(CrystalPotential) the same two clauses as for FrozenPhonons: blocks are rebuilt with "
             "seeds=<block seeds> and num_frozen_phonons=len(<block seeds>), and _partition_args cuts self.seeds with "
             "the loop's own range in the lazy and in the eager arm")
    mad = repo.function("abtem.multislice", "multislice_and_detect")
    _recorded(ctx, repo, mad)
    cloops = [l for l in walk_no_nested(mad.node) if isinstance(l, ast.For) and isinstance(l.iter, ast.Call)
              and call_name(l.iter) == "_generate_potential_configurations"]
    ctx.require(len(cloops) == 1, f"{mad.qualname}: loop over _generate_potential_configurations not found")
    _lastonly(ctx, repo, mad, cloops[0])
    _crystal_seedpart(ctx, repo)
    _inner_run_c02_sweep(ctx)


def _crystal_seedpart(ctx, repo) -> None:
    IAM = "abtem.potentials.iam"
    from ..rules import seedrebuild

    seedrebuild.check(ctx, repo.method(IAM, "CrystalPotential", "_from_partitioned_args_func"),
                      ("cls", "CrystalPotential"), "seeds", "num_frozen_phonons", rule="R-SEEDPART")
    sameslice.check(ctx, repo.method(IAM, "CrystalPotential", "_partition_args"), rule="R-SEEDPART")


# ---- added after seeded change C02-r4seed1: the count an ensemble mean is normalised with
_inner_run_c02_meancount = run


def run(ctx) -> None:  # noqa: F811
    from ..rules import deferred, meancount

    ctx.rule("R-MEANCOUNT", meancount.TEXT)
    ctx.assume("R-MEANCOUNT: a sum over configurations is normalised in the function that accumulates it (the count "
               "is local to that function); ensemble means formed by reduce_ensemble over a stored configuration axis "
               "are decided by R-MEANAXES / R-PERCONFIG")

    def new() -> None:
        n = meancount.check(ctx, ctx.repo)
        ctx.require(n >= 1, "R-MEANCOUNT: no accumulation of an ensemble mean over configurations found (the eager "
                            "PRISM path SMatrix._eager_build_s_matrix_detect used to sum the configurations in place)")

    deferred.run(ctx, new, _inner_run_c02_meancount)
