"""C10 — potential building and slice windows are consistent.

R-SCATTER   block loops scatter, they do not overwrite: every store into a pre-allocated output made inside a
            loop over generate_blocks(...) / iterate_chunk_ranges(...) has an index that depends on that loop's
            block-index / slice target.
R-WINDOW    every generator taking (first_slice, last_slice) yields data that depends on first_slice and stops
            according to last_slice; window arguments are forwarded position-correctly to nested generators.
R-WINSHAPE  _FieldBuilder.build: every declared extent of the output along the slice axis (eager allocation,
            lazy chunks, slice_thickness of the result) depends on the window, and both arms forward it.
"""
from __future__ import annotations

import ast
from typing import Optional

from ..cfg import DataFlow
from ..model import AnalysisError, FuncInfo, call_name, dotted, kw, last_attr, norm_text, walk_no_nested
from ..rules.flowdeps import Deps, cfg_stmt_of, element_sources, enclosing_loops

IAM = "abtem.potentials.iam"
BLOCK_ITERS = {"generate_blocks": 3, "iterate_chunk_ranges": 2}
STORE_FUNCS = {"itemset"}
ALLOCATORS = {"zeros", "empty", "ones", "full"}
# attribute stores that carry the *data* of an array object (everything else is metadata / bookkeeping)
DATA_ATTRS = {"array", "_array"}


def _simple_stmt(func: ast.AST, expr: ast.AST) -> ast.stmt:
    best = None
    for st in ast.walk(func):
        if isinstance(st, ast.stmt) and not isinstance(st, (ast.FunctionDef, ast.ClassDef, ast.If, ast.For, ast.While,
                                                            ast.With, ast.Try)):
            if any(n is expr for n in ast.walk(st)):
                best = st
    if best is None:
        raise AnalysisError("expression is not inside a simple statement")
    return best


def _names(t: ast.AST) -> list[str]:
    return [n.id for n in ast.walk(t) if isinstance(n, ast.Name)]


# ----------------------------------------------------------------------------------------- R-SCATTER
def _container_var(e: ast.AST, selfname: Optional[str]) -> Optional[str]:
    """Variable (plain name or `self.attr`) whose object the store `e[...] = v` goes into."""
    chain = e
    while isinstance(chain, (ast.Attribute, ast.Subscript)):
        nxt = chain.value
        if isinstance(chain, ast.Attribute) and isinstance(nxt, ast.Name) and selfname and nxt.id == selfname:
            return f"{selfname}.{chain.attr}"
        chain = nxt
    if isinstance(chain, ast.Name):
        return chain.id
    return None


def _is_string_index(idx: ast.AST) -> bool:
    if isinstance(idx, ast.Constant) and isinstance(idx.value, str):
        return True
    if isinstance(idx, ast.Tuple) and idx.elts and all(isinstance(e, ast.Constant) and isinstance(e.value, str)
                                                       for e in idx.elts):
        return True
    return False


def _stores_in(loop: ast.For) -> list[tuple[ast.AST, ast.AST, ast.AST, str]]:
    """(statement-or-call, container expr, index expr, description) for every positional store in the loop body."""
    out = []
    for st in loop.body:
        for n in walk_no_nested(st):
            if isinstance(n, ast.Assign):
                for t in n.targets:
                    for e in (t.elts if isinstance(t, (ast.Tuple, ast.List)) else [t]):
                        if isinstance(e, ast.Subscript) and not _is_string_index(e.slice):
                            out.append((n, e.value, e.slice, norm_text(e)))
            elif isinstance(n, ast.Call):
                la = last_attr(n)
                if la in STORE_FUNCS and isinstance(n.func, ast.Name) and len(n.args) >= 3:
                    out.append((n, n.args[0], n.args[1], f"{la}({norm_text(n.args[0])}, {norm_text(n.args[1])}, ...)"))
                elif la in STORE_FUNCS | {"__setitem__", "put"} and isinstance(n.func, ast.Attribute) and \
                        dotted(n.func.value) not in ("np", "xp", "numpy") and len(n.args) >= 2:
                    out.append((n, n.func.value, n.args[0],
                                f"{norm_text(n.func.value)}.{la}({norm_text(n.args[0])}, ...)"))
                elif la == "put" and dotted(n.func) in ("np.put", "xp.put") and len(n.args) >= 3:
                    out.append((n, n.args[0], n.args[1], f"np.put({norm_text(n.args[0])}, {norm_text(n.args[1])}, ...)"))
    return out


def _allocated_outside(df: DataFlow, var: str, at: int, body: set[int], header: int, depth: int = 0) -> bool:
    """Does (an alias/element chain of) `var` at node `at` lead to an object defined outside the loop?"""
    if depth > 5:
        return False
    rd = df.reaching(at, var)
    if not rd:
        return True  # attribute / global defined elsewhere: exists before the loop
    for d in rd:
        if d.kind == "param":
            return True
        if d.node not in body and d.node != header:
            if d.strong:
                return True
            continue
        st = df.cfg.nodes[d.node].ast
        if d.kind == "for" and isinstance(st, ast.For) and d.node != header:
            srcs = element_sources(st.target, st.iter, var)
            if srcs is None:
                srcs = [st.iter]
            for s in srcs:
                for nm in _names(s):
                    if _allocated_outside(df, nm, d.node, body, header, depth + 1):
                        return True
        elif d.kind == "assign" and isinstance(d.value, ast.Name):
            if _allocated_outside(df, d.value.id, d.node, body, header, depth + 1):
                return True
        elif d.kind == "assign" and isinstance(d.value, ast.Subscript):
            # a view taken inside the loop (member = array[i]) of something that exists outside it
            root = d.value
            while isinstance(root, ast.Subscript):
                root = root.value
            if isinstance(root, ast.Name) and _allocated_outside(df, root.id, d.node, body, header, depth + 1):
                return True
    return False


def _alias_position_names(df: DataFlow, var: str, at: int, depth: int = 0) -> set[str]:
    """Names used as index components in the chain of views `var = outer[...]` that define `var`."""
    out: set[str] = set()
    if depth > 4:
        return out
    for d in df.reaching(at, var):
        if d.kind == "assign" and isinstance(d.value, ast.Subscript):
            v = d.value
            while isinstance(v, ast.Subscript):
                out |= {x.id for x in ast.walk(v.slice) if isinstance(x, ast.Name)}
                v = v.value
            if isinstance(v, ast.Name):
                out |= _alias_position_names(df, v.id, d.node, depth + 1)
        elif d.kind == "assign" and isinstance(d.value, ast.Name):
            out |= _alias_position_names(df, d.value.id, d.node, depth + 1)
    return out


def _check_scatter(ctx, modules=None, iters=None, floors=(8, 7), direct=False) -> int:
    """`modules` restricts the scan, `iters` (generator name -> arity of the loop target, 1 = a single index variable)
    replaces BLOCK_ITERS; used by C26 for the np.ndindex loop over orientations."""
    rule = "R-SCATTER"
    repo = ctx.repo
    n_loops = n_stores = 0
    BLOCK_ITERS_ = iters if iters is not None else BLOCK_ITERS
    for f in repo.all_functions():
        if modules is not None and f.module.name not in modules:
            continue
        loops = [n for n in walk_no_nested(f.node) if isinstance(n, ast.For) and isinstance(n.iter, ast.Call)
                 and last_attr(n.iter) in BLOCK_ITERS_]
        if not loops:
            continue
        df = DataFlow(f.node)
        used: dict[str, int] = {}
        for loop in loops:
            n_loops += 1
            gen = last_attr(loop.iter)
            arity = BLOCK_ITERS_[gen]
            if arity == 1:
                if not isinstance(loop.target, ast.Name):
                    raise AnalysisError(f"{f.qualname}: loop over {gen}(...) does not bind a single index variable")
                idx_vars = [loop.target.id]
            else:
                if not (isinstance(loop.target, (ast.Tuple, ast.List)) and len(loop.target.elts) == arity):
                    raise AnalysisError(f"{f.qualname}: loop over {gen}(...) does not unpack {arity} values")
                idx_vars = [v for t in loop.target.elts[:2] for v in _names(t) if v != "_"]
            header = df.cfg.node_of(loop).idx
            body = df.cfg.loop_body_nodes(header)
            stores = _stores_in(loop)
            if not stores:
                ctx.info(rule, f"{f.qualname}:{gen}", f.loc(loop), "block loop without positional stores")
                continue
            for site, cont, idx, desc in stores:
                node = cfg_stmt_of(df, f.node, site)
                if node is None:
                    raise AnalysisError(f"{f.qualname}: store {desc} has no CFG node")
                var = _container_var(cont, df.selfname)
                if var is None:
                    raise AnalysisError(f"{f.qualname}: cannot name the container of {desc}")
                if not _allocated_outside(df, var, node.idx, body, header):
                    ctx.info(rule, f"{f.qualname}:{gen}:store {desc}", f.loc(site),
                             f"`{var}` is created inside the block loop (per-block object, not an output of the loop)")
                    continue
                n_stores += 1
                dep = Deps(df).deps(node.idx, idx)
                hit = sorted(v for v in idx_vars if (header, v) in dep.def_vars)
                if direct:
                    # the loop variable *is* the position along the leading axes: it has to be an index component
                    # itself (array[i + (...)], array[i][...]); data that merely derives from it (a mask computed
                    # for member i) selects within a member, not the member
                    names_in_pos = {x.id for x in ast.walk(idx) if isinstance(x, ast.Name)}
                    c_ = cont
                    while isinstance(c_, ast.Subscript):
                        names_in_pos |= {x.id for x in ast.walk(c_.slice) if isinstance(x, ast.Name)}
                        c_ = c_.value
                    names_in_pos |= _alias_position_names(df, var, node.idx)
                    hit = sorted(v for v in idx_vars if v in names_in_pos)
                base = f"{f.qualname}:{gen}:store into {var}"
                used[base] = used.get(base, 0) + 1
                construct = base if used[base] == 1 else f"{base}#{used[base]}"
                tgt_txt = norm_text(loop.target)
                ctx.check(bool(hit), rule, construct, f.loc(site),
                          f"index depends on the block target(s) {hit} of `for {tgt_txt} in {gen}(...)`",
                          f"the store {desc} into the pre-allocated `{var}` has an index that does not depend on the "
                          f"block index / slice of `for {tgt_txt} in ...{gen}(...)` "
                          f"(index depends on {sorted(r for r in dep.roots() if r.startswith('self.') or r in f.params) or 'constants only'}): every block overwrites "
                          "the same position and the other positions keep their initial value",
                          key_detail="index-invariant")
    ctx.require(n_loops >= floors[0], f"R-SCATTER found only {n_loops} block loops (expected >= {floors[0]})")
    ctx.require(n_stores >= floors[1], f"R-SCATTER found only {n_stores} scatter stores (expected >= {floors[1]})")
    return n_stores


# ----------------------------------------------------------------------------------------- R-WINDOW
def _window_generators(repo) -> list[FuncInfo]:
    out = []
    for f in repo.all_functions():
        ps = f.params
        if "first_slice" in ps and "last_slice" in ps:
            if any(isinstance(n, (ast.Yield, ast.YieldFrom)) for n in walk_no_nested(f.node)):
                out.append(f)
    return out


def _reach_within_iteration(df: DataFlow, src: int, dst: int, barriers: set[int]) -> bool:
    seen = set()
    stack = [src]
    while stack:
        n = stack.pop()
        if n == dst:
            return True
        if n in seen or n in barriers:
            continue
        seen.add(n)
        stack.extend(df.cfg.nodes[n].succ)
    return False


def _controlled_by(df: DataFlow, f: FuncInfo, ynode: int, loops: list[ast.AST], param: str) -> Optional[ast.If]:
    """An `if` whose test depends on `param` and one arm of which cannot reach the yield in the same iteration."""
    barriers = {df.cfg.node_of(lp).idx for lp in loops} | {df.cfg.exit, df.cfg.rexit}
    scope = loops[0] if loops else f.node
    for st in ast.walk(scope):
        if isinstance(st, ast.If) and id(st) in df.cfg.stmt_node:
            t = df.cfg.node_of(st)
            if not Deps(df).deps(t.idx, st.test).depends_on(param):
                continue
            outs = [(_reach_within_iteration(df, s, ynode, barriers)) for s in t.succ]
            if len(outs) == 2 and outs[0] != outs[1]:
                return st
    return None


def _window_call_sites(f: FuncInfo, gen_names: set[str]) -> list[ast.Call]:
    out = []
    for c in walk_no_nested(f.node):
        if isinstance(c, ast.Call) and last_attr(c) in gen_names:
            out.append(c)
    return out


def _bind_window(c: ast.Call, callee: FuncInfo) -> dict[str, ast.expr]:
    params = callee.positional_params
    if callee.cls is not None or (params and params[0] in ("self", "cls")):
        params = params[1:]
    if isinstance(c.func, ast.Name) and callee.cls is None:
        pass
    out = {}
    for p, a in zip(params, c.args):
        if isinstance(a, ast.Starred):
            break
        out[p] = a
    for k in c.keywords:
        if k.arg:
            out[k.arg] = k.value
    return out


def _check_window(ctx) -> None:
    rule = "R-WINDOW"
    repo = ctx.repo
    gens = _window_generators(repo)
    by_name: dict[str, list[FuncInfo]] = {}
    for g in gens:
        by_name.setdefault(g.name, []).append(g)
    ctx.require(len(gens) >= 6, f"R-WINDOW found only {len(gens)} generators with (first_slice, last_slice)")
    anchored = {f"{IAM}._FieldBuilderFromAtoms.generate_slices", f"{IAM}.FieldArray.generate_slices",
                f"{IAM}.CrystalPotential.generate_slices"}
    ctx.require(anchored <= {g.qualname for g in gens}, "an anchored generate_slices implementation is missing: "
                + ", ".join(sorted(anchored - {g.qualname for g in gens})))

    def data_attr(a: str) -> bool:
        return a in DATA_ATTRS

    for g in gens:
        df = DataFlow(g.node)
        deps = Deps(df, attr_filter=data_attr)
        yields = [y for y in walk_no_nested(g.node) if isinstance(y, (ast.Yield, ast.YieldFrom))]
        shown = lambda roots: sorted(r for r in roots if r.startswith("self.") or r in g.params)
        w1_ok: list[str] = []
        w1_bad: list[str] = []
        w2_ok: list[str] = []
        w2_bad: list[str] = []
        for k, y in enumerate(yields):
            tag = f"yield {k + 1}/{len(yields)} (line {y.lineno})"
            st = _simple_stmt(g.node, y)
            ynode = df.cfg.node_of(st).idx
            loops = enclosing_loops(g.node, st)
            if y.value is None:
                raise AnalysisError(f"{g.qualname}: bare yield")
            elems = y.value.elts if isinstance(y.value, ast.Tuple) and isinstance(y, ast.Yield) else [y.value]
            # ---- W1: the yielded data depends on first_slice
            missing = [e for e in elems if not deps.deps(ynode, e).depends_on("first_slice")]
            guard = _controlled_by(df, g, ynode, loops, "first_slice") if missing else None
            if not missing:
                w1_ok.append(f"{tag}: data-dependent on first_slice")
            elif guard is not None:
                w1_ok.append(f"{tag}: selected by `if {norm_text(guard.test)[:50]}`")
            else:
                what = ", ".join(f"`{norm_text(e)[:50]}`" for e in missing)
                roots = shown(set().union(*[deps.deps(ynode, e).roots() for e in missing]))
                w1_bad.append(f"{tag}: {what} depends only on {roots}")
            # ---- W2: the iteration is bounded by last_slice
            if isinstance(y, ast.YieldFrom) and not loops:
                ok2 = deps.deps(ynode, y.value).depends_on("last_slice")
                how = "delegated generator receives last_slice"
            elif not loops:
                raise AnalysisError(f"{g.qualname}: yield outside any loop")
            else:
                outer = loops[0]
                hnode = df.cfg.node_of(outer).idx
                head = outer.iter if isinstance(outer, ast.For) else outer.test
                ok2 = Deps(df).deps(hnode, head).depends_on("last_slice")
                how = f"outermost loop `{norm_text(head)[:50]}` depends on last_slice"
                if not ok2:
                    for ex in ast.walk(outer):
                        if isinstance(ex, ast.Return) or (isinstance(ex, ast.Break) and
                                                          (enclosing_loops(g.node, ex) or [None])[-1] is outer):
                            for cond in _enclosing_ifs(outer, ex):
                                cn = df.cfg.node_of(cond).idx
                                if Deps(df).deps(cn, cond.test).depends_on("last_slice"):
                                    ok2 = True
                                    how = f"outermost loop is left by `{type(ex).__name__.lower()}` under " \
                                          f"`if {norm_text(cond.test)[:50]}`"
                if not ok2:
                    how = f"outermost loop iterates `{norm_text(head)[:50]}`, independent of last_slice, and no " \
                          "return/break of that loop is guarded by a test on last_slice"
            (w2_ok if ok2 else w2_bad).append(f"{tag}: {how}")
        ctx.check(not w1_bad, rule, f"{g.qualname}:first_slice", g.where, "; ".join(w1_ok),
                  "yielded slice data does not depend on first_slice (bookkeeping attributes such as _exit_planes are "
                  "not slice data) and no test on first_slice selects the yield — the generator starts from slice 0 "
                  "instead of first_slice: " + "; ".join(w1_bad), key_detail="window-start")
        ctx.check(not w2_bad, rule, f"{g.qualname}:last_slice", g.where, "; ".join(w2_ok),
                  "the number of yielded slices is not bounded by last_slice — slices beyond the window are "
                  "generated: " + "; ".join(w2_bad), key_detail="window-end")
        # ---- forwarding of the window to nested window generators
        for c in _window_call_sites(g, set(by_name)):
            cands = by_name[last_attr(c)]
            if isinstance(c.func, ast.Name):  # a plain call: the module-level function of this module, if any
                cands = [k for k in cands if k.cls is None and k.module is g.module] or \
                        [k for k in cands if k.cls is None] or cands
            else:
                cands = [k for k in cands if k.cls is not None] or cands
            callee = cands[0]
            b = _bind_window(c, callee)
            if "first_slice" not in b and "last_slice" not in b:
                ctx.info(rule, f"{g.qualname}:call {norm_text(c)[:50]}", g.loc(c),
                         "nested generator iterated without a window (whole sub-object)")
                continue
            node = cfg_stmt_of(df, g.node, c)
            ok_f = "first_slice" in b and Deps(df).deps(node.idx, b["first_slice"]).depends_on("first_slice")
            ok_l = "last_slice" in b and Deps(df).deps(node.idx, b["last_slice"]).depends_on("last_slice")
            ctx.check(ok_f and ok_l, rule, f"{g.qualname}:forward {last_attr(c)}", g.loc(c),
                      "window forwarded as (first_slice, last_slice)",
                      f"`{norm_text(c)[:90]}` does not forward the window position-correctly "
                      f"(first_slice <- {norm_text(b['first_slice']) if 'first_slice' in b else 'default'}, "
                      f"last_slice <- {norm_text(b['last_slice']) if 'last_slice' in b else 'default'})",
                      key_detail="forward")


def _enclosing_ifs(scope: ast.AST, stmt: ast.AST) -> list[ast.If]:
    out: list[ast.If] = []

    def rec(node, stack):
        if node is stmt:
            out.extend(stack)
            return True
        for ch in ast.iter_child_nodes(node):
            if isinstance(ch, (ast.FunctionDef, ast.Lambda, ast.ClassDef)):
                continue
            if rec(ch, stack + [node] if isinstance(node, ast.If) else stack):
                return True
        return False

    rec(scope, [])
    return out


# ----------------------------------------------------------------------------------------- R-WINSHAPE
def _check_winshape(ctx) -> None:
    rule = "R-WINSHAPE"
    repo = ctx.repo
    f = repo.method(IAM, "_FieldBuilder", "build")
    ctx.require({"first_slice", "last_slice"} <= set(f.params), f"{f.qualname} lost its window parameters")
    df = DataFlow(f.node)

    def both(node_idx: int, e: ast.AST):
        d = Deps(df).deps(node_idx, e)
        return d.depends_on("first_slice"), d.depends_on("last_slice"), d

    def verdict(construct, site, e, what):
        node = cfg_stmt_of(df, f.node, e)
        a, b, d = both(node.idx, e)
        ctx.check(a and b, rule, f"{f.qualname}:{construct}", f.loc(site),
                  f"{what} `{norm_text(e)[:70]}` depends on first_slice and last_slice",
                  f"{what} `{norm_text(e)[:70]}` does not depend on "
                  f"{' and '.join(n for n, okk in (('first_slice', a), ('last_slice', b)) if not okk)} "
                  f"(it depends on {sorted(d.roots() - {'self'})}): for a window shorter than the whole potential the "
                  "declared number of slices differs from the number actually produced",
                  key_detail=construct)

    allocs = [c for c in walk_no_nested(f.node) if isinstance(c, ast.Call) and last_attr(c) in ALLOCATORS
              and dotted(c.func) and dotted(c.func).split(".")[0] in ("np", "xp", "da", "cp") and c.args
              and not (isinstance(c.args[0], ast.Tuple) and not c.args[0].elts)]
    maps = [c for c in walk_no_nested(f.node) if isinstance(c, ast.Call) and last_attr(c) in ("map_blocks", "blockwise")]
    ctx.require(len(allocs) >= 1 and len(maps) >= 1, f"{f.qualname}: eager allocation / lazy map_blocks not found")
    for c in allocs:
        verdict("eager-allocation-shape", c, c.args[0], "the shape of the eagerly allocated output")
    for c in maps:
        ch = kw(c, "chunks")
        ctx.require(ch is not None, f"{f.qualname}: map_blocks without chunks=")
        verdict("lazy-chunks", c, ch, "the chunks declared for the lazy output")
        fa, la_ = kw(c, "first_slice"), kw(c, "last_slice")
        node = cfg_stmt_of(df, f.node, c)
        okf = fa is not None and Deps(df).deps(node.idx, fa).depends_on("first_slice")
        okl = la_ is not None and Deps(df).deps(node.idx, la_).depends_on("last_slice")
        ctx.check(okf and okl, rule, f"{f.qualname}:lazy-forward", f.loc(c),
                  "the lazy arm forwards first_slice/last_slice to the block function",
                  "the lazy arm does not forward first_slice/last_slice to the block function: lazy builds ignore the "
                  "window", key_detail="lazy-forward")
    # result constructor: slice_thickness restricted to the window
    ctors = [c for c in walk_no_nested(f.node) if isinstance(c, ast.Call) and kw(c, "slice_thickness") is not None
             and dotted(c.func) and dotted(c.func).startswith("self.")]
    ctx.require(len(ctors) == 1, f"{f.qualname}: result constructor not found")
    verdict("result-slice-thickness", ctors[0], kw(ctors[0], "slice_thickness"), "the slice_thickness of the result")
    # eager arm: generate_slices calls forward the window
    gs = [c for c in walk_no_nested(f.node) if isinstance(c, ast.Call) and last_attr(c) == "generate_slices"]
    ctx.require(len(gs) >= 1, f"{f.qualname}: eager arm does not call generate_slices")
    for i, c in enumerate(gs):
        node = cfg_stmt_of(df, f.node, c)
        okf = len(c.args) >= 1 and Deps(df).deps(node.idx, c.args[0]).depends_on("first_slice") or (
            kw(c, "first_slice") is not None and Deps(df).deps(node.idx, kw(c, "first_slice")).depends_on("first_slice"))
        okl = len(c.args) >= 2 and Deps(df).deps(node.idx, c.args[1]).depends_on("last_slice") or (
            kw(c, "last_slice") is not None and Deps(df).deps(node.idx, kw(c, "last_slice")).depends_on("last_slice"))
        ctx.check(bool(okf and okl), rule, f"{f.qualname}:eager-forward#{i + 1}", f.loc(c),
                  "the eager arm generates exactly the window",
                  f"`{norm_text(c)[:80]}` does not receive (first_slice, last_slice)", key_detail=f"eager-forward-{i + 1}")
    # the block function forwards to build
    w = repo.method(IAM, "_FieldBuilder", "_wrap_build_potential")
    dfw = DataFlow(w.node)
    bcalls = [c for c in walk_no_nested(w.node) if isinstance(c, ast.Call) and last_attr(c) == "build"]
    ctx.require(len(bcalls) == 1, f"{w.qualname}: expected one nested build call")
    c = bcalls[0]
    b = {}
    for p, a in zip(f.positional_params[1:], c.args):
        b[p] = a
    b.update({k.arg: k.value for k in c.keywords if k.arg})
    node = cfg_stmt_of(dfw, w.node, c)
    okf = "first_slice" in b and Deps(dfw).deps(node.idx, b["first_slice"]).depends_on("first_slice")
    okl = "last_slice" in b and Deps(dfw).deps(node.idx, b["last_slice"]).depends_on("last_slice")
    lazy_off = isinstance(b.get("lazy"), ast.Constant) and b["lazy"].value is False
    ctx.check(okf and okl and lazy_off, rule, f"{w.qualname}:forward", w.loc(c),
              "the block function builds the same window eagerly",
              f"`{norm_text(c)}` does not rebuild the requested window eagerly inside the block", key_detail="block-forward")


# ----------------------------------------------------------------------------------------- run
def run(ctx) -> None:
    ctx.rule("R-SCATTER", "in a loop over generate_blocks(...) / iterate_chunk_ranges(...) every positional store "
             "(x[idx] = v, itemset(x, idx, v)) into an object that exists before the loop has an index that is "
             "data-dependent on that loop's block-index or slice target (element-precise def-use; accumulations "
             "`x[...] += v` and string-keyed dict stores are not scatters)")
    ctx.rule("R-WINDOW", "for every generator with parameters (first_slice, last_slice): each yielded value is "
             "data-dependent on first_slice through its construction or array data (attribute stores other than "
             "array/_array are bookkeeping), or the yield is selected by a test on first_slice; the outermost loop "
             "around the yield is bounded by last_slice (iterable, or a guarded return/break of that loop); nested "
             "window generators receive (first_slice, last_slice) position-correctly")
    ctx.rule("R-WINSHAPE", "_FieldBuilder.build: the eager allocation shape, the lazy map_blocks chunks and the "
             "result's slice_thickness all depend on first_slice and last_slice; both arms and the block function "
             "forward the window")
    ctx.undecided("numerical equality of lazy and eager arrays; equality of a window with the corresponding part of "
                  "the full sequence beyond the dependence/bounding structure (e.g. off-by-one in the window)")
    ctx.undecided("random draws of CrystalPotential units per repetition (seed handling)")
    _check_scatter(ctx)
    _check_window(ctx)
    _check_winshape(ctx)


# ---- added after the seeded change C10-seed4: the random stream of CrystalPotential must not depend on the window
_inner_run_c10 = run


def run(ctx) -> None:  # noqa: F811
    import ast as _ast

    from ..cfg import CFG as _CFG
    from ..model import call_name as _cn, norm_text as _nt, walk_no_nested as _walk

    ctx.rule("R-RNGSTREAM", "CrystalPotential.generate_slices draws the unit for a repetition from the seeded generator "
             "on *every* pass through the repetition loop: no path from the loop header back to the header (continue, "
             "skipped arm) may avoid the draw, otherwise the unit drawn for repetition k of a window differs from the "
             "unit the full slice sequence uses there")
    f = ctx.repo.method("abtem.potentials.iam", "CrystalPotential", "generate_slices")
    cfg = _CFG(f.node)
    gens = {t.id for st in _walk(f.node) if isinstance(st, _ast.Assign) and isinstance(st.value, _ast.Call)
            and (_cn(st.value) or "").split(".")[-1] in ("default_rng", "RandomState", "Generator")
            for t in st.targets if isinstance(t, _ast.Name)}
    draws = []
    for n in cfg.nodes:
        if n.ast is None or n.kind not in ("stmt",):
            continue
        for c in _walk(n.ast):
            if isinstance(c, _ast.Call) and isinstance(c.func, _ast.Attribute) and c.func.attr in (
                    "integers", "choice", "randint", "random", "permutation", "shuffle", "normal", "uniform") and \
                    isinstance(c.func.value, _ast.Name) and c.func.value.id in gens:
                draws.append((n, c))
    # draws from a generator that is NOT constructed in this call: a generator kept on the object (or handed out by a
    # method of the object) carries its state from one call to the next
    DRAWS = ("integers", "choice", "randint", "random", "permutation", "shuffle", "normal", "uniform")
    for st in _walk(f.node):
        if not isinstance(st, _ast.Assign) or len(st.targets) != 1 or not isinstance(st.targets[0], _ast.Name):
            continue
        nm = st.targets[0].id
        used_for_draws = any(isinstance(c, _ast.Call) and isinstance(c.func, _ast.Attribute) and c.func.attr in DRAWS
                             and isinstance(c.func.value, _ast.Name) and c.func.value.id == nm for c in _walk(f.node))
        if not used_for_draws or nm in gens:
            continue
        v = st.value
        from ..model import dotted as _dotted

        src = _dotted(v.func) if isinstance(v, _ast.Call) else _dotted(v)
        if src is not None and src.startswith("self."):
            ctx.violation("R-RNGSTREAM", f"{f.qualname}:generator of the repetition draws", f.loc(st),
                          f"`{_nt(st)[:60]}` takes the generator of the unit draws from the object instead of constructing "
                          "it from the seed in this call: its state carries over from one call to the next, so a window "
                          "generated after the full sequence (or a second build) draws other units than the full "
                          "sequence has at the same repetitions", key_detail="persistent-generator")
            return _inner_run_c10(ctx)
        raise AnalysisError(f"{f.qualname}: the generator `{nm}` of the repetition draws has an origin the analysis "
                            "does not read")
    ctx.require(len(draws) >= 1, "CrystalPotential.generate_slices: no draw from the seeded generator found")
    for n, c in draws:
        if not n.loops:
            ctx.info("R-RNGSTREAM", f"{f.qualname}:{_nt(c)[:40]}", f.loc(c), "draw outside any loop")
            continue
        header = n.loops[-1]
        skip = cfg.paths_avoiding(header, header, {n.idx})
        # paths_avoiding explores all successors; restrict to paths that stay inside the loop body
        body = cfg.loop_body_nodes(header)
        seen, stack, found = set(), [s for s in cfg.nodes[header].succ if s in body], False
        while stack:
            x = stack.pop()
            if x == n.idx or x in seen:
                continue
            seen.add(x)
            for s2 in cfg.nodes[x].succ:
                if s2 == header:
                    found = True
                elif s2 in body:
                    stack.append(s2)
        # the repetition loop must start at repetition 0 whatever the window: its range may not depend on the
        # window parameters (skipping whole repetitions skips their draws)
        loop_ast = cfg.nodes[header].ast
        if isinstance(loop_ast, _ast.For):
            from ..cfg import DataFlow as _DF

            dfw = _DF(f.node)
            window = {p for p in f.positional_params if p in ("first_slice", "last_slice")}
            ctx.require(window, f"{f.qualname}: window parameters first_slice/last_slice not found")
            sl = dfw.backward_slice(header, loop_ast.iter)
            dep = sorted(sl.params & window)
            ctx.check(not dep, "R-RNGSTREAM", f"{f.qualname}:repetition range", f.loc(loop_ast),
                      f"the loop `for {_nt(loop_ast.target)} in {_nt(loop_ast.iter)}` does not depend on the window",
                      f"the repetition loop iterates `{_nt(loop_ast.iter)[:60]}`, which depends on the window parameter(s) "
                      f"{dep}: repetitions before the window are skipped together with their draws, so a window uses "
                      "other units than the full sequence", key_detail="window-range")
        ctx.check(not found, "R-RNGSTREAM", f"{f.qualname}:{_nt(c)[:40]}", f.loc(c),
                  "the draw is executed on every pass through the repetition loop",
                  f"a path through the repetition loop reaches the next repetition without executing `{_nt(c)[:50]}`: the "
                  "generator is then one draw behind and later repetitions of a window get different units than in the "
                  "full sequence", key_detail="skipped-draw")
    _inner_run_c10(ctx)


# ---- added after the seeded change C10-r3seed6: window bounds are defaulted with `is None`
_inner_run_c10b = run


def run(ctx) -> None:  # noqa: F811
    from ..rules import nonedefault

    ctx.rule("R-NONEDEFAULT", nonedefault.__doc__.split("\n\n", 1)[1] + "  Applied to every function of the potential "
             "modules that takes first_slice / last_slice: `last_slice or len(self)` turns the empty window [0, 0) "
             "into the whole slice sequence, and the potential kinds then disagree")
    n = 0
    for mname in ("abtem.potentials.iam", "abtem.potentials.charge_density", "abtem.potentials.gpaw", "abtem.magnetism.iam"):
        mod = ctx.repo.modules.get(mname)
        if mod is None:
            continue
        fs = list(mod.functions.values()) + [f for c in mod.classes.values() for defs in c.methods.values() for f in defs]
        for f in fs:
            n += nonedefault.check(ctx, "R-NONEDEFAULT", f, {"first_slice", "last_slice"}, "window bound")
    ctx.require(n >= 6, f"R-NONEDEFAULT examined only {n} functions with window parameters")
    _inner_run_c10b(ctx)



# ---- added after the mutation sweep: order of the window bounds, lengths derived from them, slice counters
_inner_run_c10c = run


def window_rules(ctx, funcs, floors=(0, 0, 0)) -> tuple:
    """R-WINORDER / R-WINLEN / R-WINCOUNT over `funcs` (also applied by C08 to CrystalPotential.generate_slices)."""
    from ..rules import window

    n_order = n_len = n_cnt = 0
    for f in funcs:
        df = DataFlow(f.node)
        n_order += window.check_order(ctx, "R-WINORDER", f, df)
        n_len += window.check_length(ctx, "R-WINLEN", f, df)
        n_cnt += window.check_counter(ctx, "R-WINCOUNT", f, df)
    ctx.require(n_order >= floors[0], f"R-WINORDER examined only {n_order} ranges/slices over a window (expected >= {floors[0]})")
    ctx.require(n_len >= floors[1], f"R-WINLEN examined only {n_len} lengths derived from a window (expected >= {floors[1]})")
    ctx.require(n_cnt >= floors[2], f"R-WINCOUNT examined only {n_cnt} tests of a slice counter (expected >= {floors[2]})")
    return n_order, n_len, n_cnt


WINORDER_TEXT = ("a window is the half-open run [lo, hi) of slice indices given by (first_slice, last_slice) or by the "
                 "(start, end) of one chunk of generate_chunks.  Every `range(a, b)` / `x[a:b]` whose bounds are the two "
                 "members of one such pair (term normal form, up to a constant) runs from the lower to the upper member — "
                 "`range(hi, lo)` is empty for every window; a slice `x[e : e + c]` with constant c <= 0 selects nothing")
WINLEN_TEXT = ("every length derived from a window pair — an element of the shape of an allocation, of the chunks "
               "declared to map_blocks, the number of items handed to generate_chunks — equals hi - lo as a term, and "
               "the chunks start at lo: the eager array, the lazy chunks and the generators then agree on the number of "
               "slices of a window")
WINCOUNT_TEXT = ("a generator that numbers its slices with a running counter (0 before the loops, += 1 in the loop that "
                 "yields) produces slice c iff first_slice <= c < last_slice: the arm that reaches the yield holds under "
                 "c - first_slice >= 0, the arm that ends the generator under c - last_slice >= 0 (both shifted by one "
                 "when the increment precedes the test), no path through the loop skips the increment, and a test on a "
                 "window bound compares it with something that changes from pass to pass")


def run(ctx) -> None:  # noqa: F811
    ctx.rule("R-WINORDER", WINORDER_TEXT)
    ctx.rule("R-WINLEN", WINLEN_TEXT)
    ctx.rule("R-WINCOUNT", WINCOUNT_TEXT)
    repo = ctx.repo
    from ..rules import deferred

    def new():
        funcs = _window_generators(repo) + [repo.method(IAM, "_FieldBuilder", "build")]
        window_rules(ctx, funcs, floors=(6, 5, 2))

    deferred.run(ctx, new, _inner_run_c10c)


# ---- added after the mutation sweep: the lazy arm declares as many new axes as its chunks add
_inner_run_c10d = run


def _seq_length(df, at: int, e: ast.AST, depth: int = 0):
    """Symbolic length (Poly) of a tuple-valued expression; None when it cannot be told."""
    from ..terms import FlowNormalizer, Poly

    if depth > 10:
        return None

    def ln(x: ast.AST):
        d = dotted(x)
        return Poly.atom(f"len({d})") if d else None

    def scalar(x: ast.AST):
        def hook(nz, call):
            if call_name(call) == "len" and len(call.args) == 1:
                return _seq_length(df, at, call.args[0], depth + 1)
            return None

        return FlowNormalizer(df, at, call_hook=hook).norm(x)

    if isinstance(e, (ast.Tuple, ast.List)):
        return None if any(isinstance(x, ast.Starred) for x in e.elts) else Poly.const(len(e.elts))
    if isinstance(e, ast.BinOp) and isinstance(e.op, ast.Add):
        a, b = _seq_length(df, at, e.left, depth + 1), _seq_length(df, at, e.right, depth + 1)
        return None if a is None or b is None else a + b
    if isinstance(e, ast.Call) and call_name(e) in ("tuple", "list") and len(e.args) == 1:
        return _seq_length(df, at, e.args[0], depth + 1)
    if isinstance(e, ast.Call) and call_name(e) == "range" and len(e.args) in (1, 2):
        hi = scalar(e.args[-1])
        lo = scalar(e.args[0]) if len(e.args) == 2 else Poly.const(0)
        return hi - lo
    if isinstance(e, ast.Call) and last_attr(e) == "validate_chunks" and e.args:
        return _seq_length(df, at, e.args[0], depth + 1)  # one chunk specification per axis of the shape
    if isinstance(e, ast.Subscript) and isinstance(e.slice, ast.Slice) and e.slice.upper is None and e.slice.step is None:
        base = _seq_length(df, at, e.value, depth + 1)
        lo = e.slice.lower
        if base is not None and (lo is None or (isinstance(lo, ast.Constant) and isinstance(lo.value, int) and lo.value >= 0)):
            return base - Poly.const(lo.value if lo is not None else 0)
        return None
    if isinstance(e, ast.Name):
        d = df.single_def(at, e.id)
        if d is not None and d.kind == "assign" and d.value is not None:
            st = df.cfg.nodes[d.node].ast
            if isinstance(st, ast.Assign) and any(isinstance(t, ast.Name) and t.id == e.id for t in st.targets):
                return _seq_length(df, d.node, d.value, depth + 1)
        return None
    if isinstance(e, ast.Attribute):
        return ln(e)
    return None


def _check_newaxis(ctx) -> None:
    rule = "R-NEWAXIS"
    f = ctx.repo.method(IAM, "_FieldBuilder", "build")
    df = DataFlow(f.node)
    maps = [c for c in walk_no_nested(f.node) if isinstance(c, ast.Call) and last_attr(c) == "map_blocks"]
    ctx.require(len(maps) == 1, f"{f.qualname}: expected one map_blocks call")
    c = maps[0]
    at = cfg_stmt_of(df, f.node, c).idx
    ch, na = kw(c, "chunks"), kw(c, "new_axis")
    ctx.require(ch is not None and na is not None and len(c.args) >= 2, f"{f.qualname}: map_blocks without chunks= / "
                "new_axis= / a block array")
    out_dims = _seq_length(df, at, ch)
    ctx.require(out_dims is not None, f"{f.qualname}: cannot tell the number of axes of chunks `{norm_text(ch)[:50]}`")
    # the mapped array of blocks has one axis per ensemble axis: ensemble_blocks(chunks of the ensemble shape)
    blocks = c.args[1]
    bd = df.single_def(at, blocks.id) if isinstance(blocks, ast.Name) else None
    ctx.require(bd is not None and isinstance(bd.value, ast.Call) and last_attr(bd.value) == "ensemble_blocks",
                f"{f.qualname}: the mapped blocks are not self.ensemble_blocks(...)")
    from ..terms import Poly

    in_dims = Poly.atom("len(self.ensemble_shape)")
    added = out_dims - in_dims
    defs = df.reaching(at, na.id) if isinstance(na, ast.Name) else []
    ctx.require(bool(defs) and all(d.kind == "assign" and d.value is not None for d in defs),
                f"{f.qualname}: new_axis is not a local with plain definitions")
    for k, d in enumerate(sorted(defs, key=lambda d_: d_.node)):
        got = _seq_length(df, d.node, d.value)
        ctx.require(got is not None, f"{f.qualname}: cannot count the axes in `{norm_text(d.value)[:50]}`")
        ctx.check(got == added, rule, f"{f.qualname}:new_axis definition #{k + 1}", f.loc(d.value),
                  f"{got.key()} new axes = axes of the chunks ({out_dims.key()}) - ensemble axes",
                  f"`{norm_text(d.value)[:70]}` declares {got.key()} new axes, but the chunks have {out_dims.key()} axes "
                  f"and the mapped blocks {in_dims.key()}: dask assembles the lazy array with another rank than the eager "
                  "arm allocates, so lazy and eager builds disagree (or the lazy one fails on compute)",
                  key_detail="count")


def run(ctx) -> None:  # noqa: F811
    from ..rules import deferred

    ctx.rule("R-NEWAXIS", "_FieldBuilder.build, lazy arm: the number of axes in every definition of `new_axis` handed to "
             "da.map_blocks equals the number of axes of `chunks` minus the axes of the mapped block array (one per "
             "ensemble axis) — a symbolic tuple-length calculus (len of concatenations, slices [k:], range(a, b), "
             "validate_chunks(shape, ..) has one entry per axis of shape).  The eager arm allocates ensemble_shape + "
             "(window,) + base_shape[1:]; a lazy array of another rank is not the same array")
    deferred.run(ctx, lambda: _check_newaxis(ctx), _inner_run_c10d)


# ---- added after the seeded change C10-r4seed2: every per-slice quantity of a yielded slice is read at the same
# ---- absolute slice position
_inner_run_c10e = run

SAMEINDEX_TEXT = ("for every generator of slices of the potential classes (Potential, PotentialArray, CrystalPotential): "
                  "the per-slice quantities handed to the object yielded in one pass of the loop — the plane(s) of the "
                  "stored array, the thickness passed to the constructor, the exit-plane flags stored on it, a depth from a "
                  "cumulated table, a buffer filled slot by slot — are direct reads of per-slice tables, and all of them "
                  "are read at the same absolute slice position: offset of the table (0 for an attribute, a for a local "
                  "bound to T[a:b], followed through single reaching definitions) plus the index, evaluated to a "
                  "polynomial in the pass number of the loop (range(a, b) gives a + k, enumerate gives k, "
                  "itertools.islice(X, a, b) element a + k, generate_chunks(.., start=s) the run [s + S, s + S + n), running "
                  "counters e0 + d*k), first_slice and the other names.  Two reads whose positions differ belong to "
                  "different slices for some window or pass: the yielded slice then carries the thickness / flags / data "
                  "of another slice than the one of the full sequence it stands for.  Runs must also have the same "
                  "length (x[i] is the run [i, i + 1))")


def _check_sameindex(ctx) -> None:
    from ..rules import sameindex

    rule = "R-SAMEINDEX"
    gens = [g for g in _window_generators(ctx.repo) if g.module.name == IAM]
    ctx.require(len(gens) >= 3, f"{rule}: only {len(gens)} window generators in {IAM}")
    n = 0
    for g in gens:
        n += sameindex.check(ctx, rule, g)
    ctx.require(n >= 9, f"{rule} compared only {n} per-slice reads (expected >= 9)")


def run(ctx) -> None:  # noqa: F811
    from ..rules import deferred

    ctx.rule("R-SAMEINDEX", SAMEINDEX_TEXT)
    ctx.undecided("per-slice quantities that are computed from several table elements (stencils, differences of slice "
                  "limits) and definitions of a slice buffer under guards the analysis does not evaluate are not compared "
                  "by R-SAMEINDEX")
    deferred.run(ctx, lambda: _check_sameindex(ctx), _inner_run_c10e)
