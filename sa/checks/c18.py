"""C18 — chunk computations partition arrays exactly (abtem/core/chunks.py)."""
from __future__ import annotations

import ast
from typing import Optional

from ..cfg import CFG, DataFlow, forward_states
from ..model import AnalysisError, FuncInfo, call_name, dotted, norm_text, walk_no_nested
from ..rules.gridterms import bind_loop_target, elementwise, strip_key
from ..terms import FlowNormalizer, Normalizer, Poly

MOD = "abtem.core.chunks"
GUARD = "assert_chunks_match_shape"
ACCUMULATE = {"accumulate", "itertools.accumulate", "np.cumsum", "numpy.cumsum"}
PRODUCT = {"np.prod", "numpy.prod", "math.prod", "prod"}


# ---------------------------------------------------------------------------------------------
class DivNorm(FlowNormalizer):
    """a // b is the atom fdiv(a,b); a % b is rewritten to a - b*fdiv(a,b) (division identity), so
    that c*(s//c) + s%c == s and m*(n//m) + n%m == n hold as term identities."""

    def norm(self, n: ast.AST) -> Poly:
        if isinstance(n, ast.BinOp) and isinstance(n.op, (ast.FloorDiv, ast.Mod)):
            a, b = self.norm(n.left), self.norm(n.right)
            q = Poly.atom(f"fdiv({strip_key(a)},{strip_key(b)})")
            return q if isinstance(n.op, ast.FloorDiv) else a - b * q
        return super().norm(n)


class PlainDivNorm(Normalizer):
    def norm(self, n: ast.AST) -> Poly:
        if isinstance(n, ast.BinOp) and isinstance(n.op, (ast.FloorDiv, ast.Mod)):
            a, b = self.norm(n.left), self.norm(n.right)
            q = Poly.atom(f"fdiv({strip_key(a)},{strip_key(b)})")
            return q if isinstance(n.op, ast.FloorDiv) else a - b * q
        return super().norm(n)


def enclosing_tests(func: ast.FunctionDef, target: ast.stmt) -> list[tuple[ast.expr, bool]]:
    """[(test, branch taken)] of the `if` statements enclosing `target` (outermost first)."""
    found: list = []

    def walk(body, stack) -> bool:
        for st in body:
            if st is target:
                found.extend(stack)
                return True
            if isinstance(st, ast.If):
                if walk(st.body, stack + [(st.test, True)]) or walk(st.orelse, stack + [(st.test, False)]):
                    return True
            elif isinstance(st, (ast.For, ast.While)):
                if walk(st.body, stack) or walk(st.orelse, stack):
                    return True
            elif isinstance(st, ast.With):
                if walk(st.body, stack):
                    return True
            elif isinstance(st, ast.Try):
                for b in [st.body, st.orelse, st.finalbody] + [h.body for h in st.handlers]:
                    if walk(b, stack):
                        return True
        return False

    walk(func.body, [])
    return found


def run(ctx) -> None:
    repo = ctx.repo
    ctx.rule("R-SUMGUARD", "every value returned normally by validate_chunks is either the result of a recursive "
             "validate_chunks call or a variable on which assert_chunks_match_shape(shape, v) was executed on every "
             "path with no redefinition in between; _auto_chunks returns a validate_chunks result for its own shape; "
             "the guard raises exactly when some dimension's chunks do not sum to the shape entry")
    ctx.rule("R-EQUALSPLIT", "each tuple equal_sized_chunks can return has num_chunks elements taking at most two "
             "values that differ by one, and its element sum equals num_items as a term identity (division identity "
             "n == m*(n//m) + n%m, branch facts of the form t == 0)")
    ctx.rule("R-RANGES", "chunk_ranges yields (A - c, A) with A running over accumulate(X) and c over the same X "
             "(so start_0 == 0, start_{i+1} == stop_i, stop_last == sum X); iterate_chunk_ranges turns exactly these "
             "pairs into slices and numbers blocks by range(len(c)) over the same chunks; generate_chunks yields "
             "(start, start + batch) and carries start := end into the next iteration")
    ctx.rule("R-AUTOLIMIT", "in _auto_chunks' growth loop every increment of a chunk size is followed, before the loop "
             "can be left normally, by a recomputation of the element product and a test against max_elements whose "
             "over-limit arm undoes that same increment")
    ctx.rule("R-FILL", "fill_in_chunk_sizes expands an integer chunk size c for a dimension of size s into a tuple whose "
             "sum is s as a term identity (c*(s//c) + s%c)")
    ctx.undecided("that _auto_chunks finds a chunking within the limit whenever one exists (only 'the returned product "
                  "was tested against the limit' is decided); the byte-size -> max_elements conversion; "
                  "num_chunks = ceil(num_items/chunk_size) in equal_sized_chunks")

    _sum_guard(ctx, repo)
    _equal_split(ctx, repo)
    _ranges(ctx, repo)
    _auto_limit(ctx, repo)
    _fill(ctx, repo)


# ---------------------------------------------------------------------------------------------
def _guard_semantics(ctx, g: FuncInfo) -> None:
    """assert_chunks_match_shape(shape, chunks): raises iff exists (s, c) in zip(shape, chunks): sum(c) != s."""
    p_shape, p_chunks = g.positional_params[:2]

    def pair_compare(test: ast.expr, binding: dict[str, ast.expr]) -> Optional[str]:
        """'eq'/'ne' when `test` compares sum(<elt of chunks>) with <elt of shape>."""
        if not (isinstance(test, ast.Compare) and len(test.ops) == 1 and isinstance(test.ops[0], (ast.Eq, ast.NotEq))):
            return None
        a, b = test.left, test.comparators[0]
        for x, y in ((a, b), (b, a)):
            if isinstance(x, ast.Call) and call_name(x) in ("sum", "np.sum") and len(x.args) == 1 and isinstance(
                    x.args[0], ast.Name) and isinstance(y, ast.Name):
                cx, sy = binding.get(x.args[0].id), binding.get(y.id)
                if dotted(cx) == p_chunks and dotted(sy) == p_shape:
                    return "eq" if isinstance(test.ops[0], ast.Eq) else "ne"
                return "wrong-binding"
        return None

    verdict = None  # True: raises iff mismatch
    found = None
    for st in walk_no_nested(g.node):
        if isinstance(st, ast.If) and any(isinstance(x, ast.Raise) for x in st.body):
            t = st.test
            neg = False
            if isinstance(t, ast.UnaryOp) and isinstance(t.op, ast.Not):
                t, neg = t.operand, True
            if isinstance(t, ast.Call) and call_name(t) in ("all", "any") and len(t.args) == 1:
                ew = elementwise(t.args[0])
                if ew is None:
                    continue
                kind = pair_compare(ew[0], ew[1])
                found = st
                # raise iff not all(eq)  |  raise iff any(ne)
                verdict = (call_name(t) == "all" and neg and kind == "eq") or (
                    call_name(t) == "any" and not neg and kind == "ne")
            elif pair_compare(t, _loop_binding(g.node, st)) is not None:
                found = st
                verdict = (not neg and pair_compare(t, _loop_binding(g.node, st)) == "ne") or (
                    neg and pair_compare(t, _loop_binding(g.node, st)) == "eq")
        if isinstance(st, ast.Assert):
            t = st.test
            if isinstance(t, ast.Call) and call_name(t) == "all" and len(t.args) == 1:
                ew = elementwise(t.args[0])
                if ew is not None:
                    found = st
                    verdict = pair_compare(ew[0], ew[1]) == "eq"
    ctx.require(found is not None, f"{GUARD}: the sum-vs-shape comparison was not recognised")
    ctx.check(bool(verdict), "R-SUMGUARD", f"{g.qualname}:semantics", g.loc(found),
              "raises iff some sum(chunks[d]) != shape[d]",
              f"`{norm_text(found.test)[:90]}` does not raise exactly when a dimension's chunks fail to sum to the "
              "shape entry (wrong comparison, polarity or pairing of shape with chunks)", key_detail="semantics")


def _loop_binding(func: ast.FunctionDef, inner: ast.stmt) -> dict[str, ast.expr]:
    for st in ast.walk(func):
        if isinstance(st, ast.For) and any(x is inner for x in ast.walk(st)):
            return bind_loop_target(st.target, st.iter)
    return {}


def _sum_guard(ctx, repo) -> None:
    vc = repo.function(MOD, "validate_chunks")
    g = repo.function(MOD, GUARD)
    _guard_semantics(ctx, g)
    shape_p = vc.positional_params[0]
    df = DataFlow(vc.node)
    cfg = df.cfg
    guards = []
    for n in cfg.nodes:
        if n.kind == "stmt" and isinstance(n.ast, ast.Expr) and isinstance(n.ast.value, ast.Call) and call_name(
                n.ast.value) == GUARD:
            guards.append(n)
    rets = [n for n in cfg.nodes if n.kind == "stmt" and isinstance(n.ast, ast.Return)]
    ctx.require(bool(rets), "validate_chunks has no return")
    n_arms = 0
    for r in rets:
        val = r.ast.value
        if val is None:
            ctx.violation("R-SUMGUARD", f"{vc.qualname}:return None", vc.loc(r.ast), "validate_chunks returns None",
                          "none")
            continue
        if isinstance(val, ast.Call) and call_name(val) == vc.name:
            ctx.ok("R-SUMGUARD", f"{vc.qualname}:return recursive", vc.loc(r.ast), "result of a recursive call")
            continue
        if not isinstance(val, ast.Name):
            ctx.violation("R-SUMGUARD", f"{vc.qualname}:return {norm_text(val)[:50]}", vc.loc(r.ast),
                          f"validate_chunks returns `{norm_text(val)[:60]}` without passing it through {GUARD}",
                          "unguarded-expr")
            continue
        v = val.id
        ok_guard = None
        for gn in guards:
            c = gn.ast.value
            args = list(c.args) + [k.value for k in c.keywords]
            if len(c.args) < 2 and not c.keywords:
                continue
            b = {p: a for p, a in zip(g.positional_params, c.args)}
            b.update({k.arg: k.value for k in c.keywords if k.arg})
            a_shape, a_chunks = b.get(g.positional_params[0]), b.get(g.positional_params[1])
            if not (isinstance(a_chunks, ast.Name) and a_chunks.id == v):
                continue
            if not cfg.dominates(gn.idx, r.idx):
                continue
            same_defs = {id(d) for d in df.reaching(gn.idx, v)} == {id(d) for d in df.reaching(r.idx, v)}
            shape_ok = isinstance(a_shape, ast.Name) and a_shape.id == shape_p and all(
                d.kind == "param" for d in df.reaching(gn.idx, shape_p))
            if same_defs and shape_ok:
                ok_guard = gn
        arms = df.reaching(r.idx, v)
        for d in arms:
            n_arms += 1
            dst = cfg.nodes[d.node].ast
            what = norm_text(d.value)[:60] if d.value is not None else d.kind
            ctx.check(ok_guard is not None, "R-SUMGUARD", f"{vc.qualname}:arm {v} = {what}", vc.loc(dst),
                      f"guarded by {GUARD}({shape_p}, {v}) before the return",
                      f"the value `{v} = {what}` reaches `return {v}` on a path that does not execute "
                      f"{GUARD}({shape_p}, {v}) after the assignment: chunks that do not sum to the shape are returned "
                      "as validated", key_detail=what)
    ctx.require(n_arms >= 4, f"validate_chunks: only {n_arms} producing arms found")

    ac = repo.function(MOD, "_auto_chunks")
    dfa = DataFlow(ac.node)
    a_shape = ac.positional_params[0]
    for st in walk_no_nested(ac.node):
        if isinstance(st, ast.Return) and st.value is not None:
            node = dfa.cfg.node_of(st)
            val = st.value
            if isinstance(val, ast.Name):
                d = dfa.single_def(node.idx, val.id)
                val = d.value if d is not None and d.kind == "assign" else None
            good = isinstance(val, ast.Call) and call_name(val) == vc.name and val.args and isinstance(
                val.args[0], ast.Name) and val.args[0].id == a_shape
            ctx.check(bool(good), "R-SUMGUARD", f"{ac.qualname}:return", ac.loc(st),
                      f"returns {vc.name}({a_shape}, ...)",
                      f"_auto_chunks returns `{norm_text(st.value)[:60]}` which is not the result of "
                      f"{vc.name}({a_shape}, ...): automatically chosen chunks are not checked against the shape",
                      key_detail="auto-return")


# ---------------------------------------------------------------------------------------------
def _count_true(pred: ast.expr, loopvar: str, length: Poly, nz) -> Optional[Poly]:
    """Number of i in range(length) satisfying a threshold predicate on i (threshold assumed within [0, length])."""
    if not (isinstance(pred, ast.Compare) and len(pred.ops) == 1):
        return None
    a, b, op = pred.left, pred.comparators[0], pred.ops[0]
    flip = {ast.Lt: ast.Gt, ast.Gt: ast.Lt, ast.LtE: ast.GtE, ast.GtE: ast.LtE}
    if isinstance(b, ast.Name) and b.id == loopvar and not (isinstance(a, ast.Name) and a.id == loopvar):
        a, b = b, a
        op = flip.get(type(op), type(None))()
    if not (isinstance(a, ast.Name) and a.id == loopvar):
        return None
    if loopvar in {x.id for x in ast.walk(b) if isinstance(x, ast.Name)}:
        return None
    t = nz.norm(b)
    one = Poly.const(1)
    if isinstance(op, ast.GtE):
        return length - t
    if isinstance(op, ast.Gt):
        return length - t - one
    if isinstance(op, ast.Lt):
        return t
    if isinstance(op, ast.LtE):
        return t + one
    return None


def _tuple_shape(expr: ast.expr, nz):
    """(length, [(count, value)]) of a tuple-building expression, or None."""
    e = expr
    while isinstance(e, ast.Call) and call_name(e) in ("tuple", "list") and len(e.args) == 1 and not isinstance(
            e.args[0], (ast.GeneratorExp, ast.ListComp)):
        e = e.args[0]
    if isinstance(e, ast.BinOp) and isinstance(e.op, ast.Mult):
        seq, k = (e.left, e.right) if isinstance(e.left, (ast.List, ast.Tuple)) else (e.right, e.left)
        if isinstance(seq, (ast.List, ast.Tuple)) and len(seq.elts) == 1:
            m = nz.norm(k)
            return m, [(m, nz.norm(seq.elts[0]))]
    ew = elementwise(e)
    if ew is not None:
        elt, binding = ew
        if len(binding) != 1:
            return None
        (var, it), = binding.items()
        if not (isinstance(it, ast.Call) and call_name(it) == "range" and len(it.args) == 1):
            return None
        m = nz.norm(it.args[0])
        names = {x.id for x in ast.walk(elt) if isinstance(x, ast.Name)}
        if isinstance(elt, ast.IfExp):
            cnt = _count_true(elt.test, var, m, nz)
            if cnt is None or var in {x.id for x in ast.walk(elt.body) if isinstance(x, ast.Name)} | {
                    x.id for x in ast.walk(elt.orelse) if isinstance(x, ast.Name)}:
                return None
            return m, [(cnt, nz.norm(elt.body)), (m - cnt, nz.norm(elt.orelse))]
        if var in names:
            return None
        return m, [(m, nz.norm(elt))]
    return None


def _equal_split(ctx, repo) -> None:
    f = repo.function(MOD, "equal_sized_chunks")
    ctx.require(len(f.positional_params) >= 2, "equal_sized_chunks lost its parameters")
    n_name, m_name = f.positional_params[0], f.positional_params[1]
    df = DataFlow(f.node)
    N, M = Poly.atom(n_name), Poly.atom(m_name)
    rets = [st for st in walk_no_nested(f.node) if isinstance(st, ast.Return) and st.value is not None]
    examined = 0
    for r in rets:
        node = df.cfg.node_of(r)
        if isinstance(r.value, ast.Tuple) and not r.value.elts:
            tests = enclosing_tests(f.node, r)
            nz0 = DivNorm(df, node.idx)
            empty_ok = any(br and isinstance(t, ast.Compare) and isinstance(t.ops[0], ast.Eq) and
                           (nz0.norm(t.left) - nz0.norm(t.comparators[0])) in (N, -N) for t, br in tests)
            ctx.check(empty_ok, "R-EQUALSPLIT", f"{f.qualname}:return ()", f.loc(r),
                      f"the empty tuple is returned only when {n_name} == 0",
                      f"the empty tuple is returned on a path not guarded by {n_name} == 0", key_detail="empty")
            examined += 1
            continue
        if isinstance(r.value, ast.Name):
            defs = df.reaching(node.idx, r.value.id)
        else:
            defs = [None]
        for d in defs:
            if d is None:
                expr, at, dst = r.value, node.idx, r
            else:
                if d.kind != "assign" or d.value is None:
                    raise AnalysisError(f"equal_sized_chunks: `{r.value.id}` defined by a {d.kind}")
                expr, at, dst = d.value, d.node, df.cfg.nodes[d.node].ast
            nz = DivNorm(df, at)
            shp = _tuple_shape(expr, nz)
            if shp is None:
                raise AnalysisError(f"equal_sized_chunks: cannot derive the element structure of "
                                    f"`{ast.unparse(expr)[:70]}`")
            length, parts = shp
            examined += 1
            cname = f"{f.qualname}:chunks = {norm_text(expr)[:50]}"
            ctx.check(length == M, "R-EQUALSPLIT", cname + ":length", f.loc(dst), f"{strip_key(length)} elements",
                      f"the tuple has {strip_key(length)} elements, not {m_name}", key_detail="length")
            values = []
            for _, v in parts:
                if v not in values:
                    values.append(v)
            spread_ok = len(values) == 1 or (len(values) == 2 and (values[0] - values[1]) in (
                Poly.const(1), Poly.const(-1)))
            ctx.check(spread_ok, "R-EQUALSPLIT", cname + ":spread", f.loc(dst),
                      "element values " + " / ".join(strip_key(v) for v in values),
                      "chunk sizes " + " / ".join(strip_key(v) for v in values) + " differ by more than one",
                      key_detail="spread")
            total = Poly()
            for c, v in parts:
                total = total + c * v
            diff = total - N
            facts = []
            for t, br in enclosing_tests(f.node, dst):
                if isinstance(t, ast.Compare) and len(t.ops) == 1 and isinstance(t.ops[0], (ast.Eq, ast.NotEq)):
                    if br == isinstance(t.ops[0], ast.Eq):
                        facts.append(nz.norm(t.left) - nz.norm(t.comparators[0]))
            sum_ok = diff.is_zero() or any(diff == fct or diff == -fct for fct in facts)
            ctx.check(sum_ok, "R-EQUALSPLIT", cname + ":sum", f.loc(dst),
                      f"sum == {strip_key(total)} == {n_name}" + ("" if diff.is_zero() else " under the branch fact"),
                      f"the element sum is {total.key()} which is not {n_name} (difference {diff.key()}; "
                      f"branch facts: {[x.key() + ' == 0' for x in facts] or 'none'})", key_detail="sum")
    ctx.require(examined >= 2, "equal_sized_chunks: fewer than two result shapes examined")
    asserts = [st for st in walk_no_nested(f.node) if isinstance(st, ast.Assert) and "sum" in ast.unparse(st.test)]
    ctx.info("R-EQUALSPLIT", f"{f.qualname}:runtime-assert", f.where,
             f"{len(asserts)} runtime `assert sum(...) == {n_name}` present (redundant with the derived identity)")


# ---------------------------------------------------------------------------------------------
def _ranges(ctx, repo) -> None:
    f = repo.function(MOD, "chunk_ranges")
    cparam = f.positional_params[0]
    rets = [st for st in walk_no_nested(f.node) if isinstance(st, ast.Return) and st.value is not None]
    ctx.require(len(rets) == 1, "chunk_ranges: expected one return")
    outer = elementwise(rets[0].value)
    ctx.require(outer is not None and len(outer[1]) == 1, "chunk_ranges: not an element-wise expression over chunks")
    (dimvar, dimsrc), = outer[1].items()
    ctx.require(dotted(dimsrc) == cparam, f"chunk_ranges iterates `{ast.unparse(dimsrc)}`, not its parameter")
    inner = elementwise(outer[0])
    ctx.require(inner is not None, "chunk_ranges: inner expression is not element-wise")
    elt, binding = inner
    ctx.require(isinstance(elt, ast.Tuple) and len(elt.elts) == 2, "chunk_ranges: element is not a (start, stop) pair")
    alias = {}
    for name, src in binding.items():
        if isinstance(src, ast.Name) and src.id == dimvar:
            alias[name] = "c"
        elif isinstance(src, ast.Call) and call_name(src) in ACCUMULATE and len(src.args) == 1 and not src.keywords \
                and isinstance(src.args[0], ast.Name) and src.args[0].id == dimvar:
            alias[name] = "A"
        else:
            raise AnalysisError(f"chunk_ranges: iterable `{ast.unparse(src)[:50]}` is neither the chunk sizes nor "
                                "their running sum")
    ctx.require(sorted(alias.values()) == ["A", "c"], "chunk_ranges: needs one running sum and one size iterator")
    nz = Normalizer(atom_alias=alias)
    start, stop = nz.norm(elt.elts[0]), nz.norm(elt.elts[1])
    A, c = Poly.atom("A"), Poly.atom("c")
    ctx.check(stop == A and start == A - c, "R-RANGES", f"{f.qualname}:pair", f.loc(elt),
              f"(start, stop) == ({strip_key(start)}, {strip_key(stop)}) with A = accumulate(c)",
              f"chunk range is ({start.key()}, {stop.key()}) with A the running sum and c the chunk size; contiguity "
              "and coverage need (A - c, A)", key_detail="pair")

    # iterate_chunk_ranges
    it = repo.function(MOD, "iterate_chunk_ranges")
    ip = it.positional_params[0]
    df = DataFlow(it.node)
    loops = [st for st in walk_no_nested(it.node) if isinstance(st, ast.For)]
    ctx.require(len(loops) == 1, "iterate_chunk_ranges: expected one loop")
    loop = loops[0]
    b = bind_loop_target(loop.target, loop.iter)
    yields = [n for n in walk_no_nested(loop) if isinstance(n, ast.Yield)]
    ctx.require(len(yields) == 1 and isinstance(yields[0].value, ast.Tuple) and len(yields[0].value.elts) == 2,
                "iterate_chunk_ranges: expected `yield block_indices, slices`")
    y_idx, y_slc = yields[0].value.elts
    ynode = None
    for st in walk_no_nested(loop):
        if isinstance(st, ast.Expr) and st.value is yields[0]:
            ynode = df.cfg.node_of(st)
    ctx.require(ynode is not None, "iterate_chunk_ranges: yield statement not found in the CFG")

    def resolve(e: ast.expr, at: int, depth=0) -> ast.expr:
        while isinstance(e, ast.Name) and depth < 6:
            d = df.single_def(at, e.id)
            if d is None or d.kind != "assign" or d.value is None:
                break
            e, at, depth = d.value, d.node, depth + 1
        return e

    header = df.cfg.node_of(loop).idx
    # the ranges side
    rng_var = [n for n, src in b.items() if isinstance(src, ast.Call) and call_name(src) in (
        "itertools.product", "product") and any(isinstance(a, ast.Starred) and isinstance(a.value, ast.Call) and
                                                 call_name(a.value) == f.name for a in src.args)]
    ok_r = False
    detail = "ranges do not come from product(*chunk_ranges(chunks))"
    if len(rng_var) == 1:
        src = b[rng_var[0]]
        inner_call = src.args[0].value
        ok_r = len(src.args) == 1 and len(inner_call.args) == 1 and dotted(inner_call.args[0]) == ip
        sl = resolve(y_slc, ynode.idx)
        ew = elementwise(sl)
        ok_s = False
        if ew is not None and len(ew[1]) == 1:
            (v, s2), = ew[1].items()
            e2 = ew[0]
            ok_s = isinstance(s2, ast.Name) and s2.id == rng_var[0] and isinstance(e2, ast.Call) and call_name(
                e2) == "slice" and ((len(e2.args) == 1 and isinstance(e2.args[0], ast.Starred) and dotted(
                    e2.args[0].value) == v) or (len(e2.args) == 2 and ast.unparse(e2.args[0]) == f"{v}[0]"
                                                 and ast.unparse(e2.args[1]) == f"{v}[1]"))
        if not ok_s:
            detail = f"slices are built as `{norm_text(sl)[:60]}`, not slice(start, stop) of each chunk range"
        ok_r = ok_r and ok_s
    ctx.check(ok_r, "R-RANGES", f"{it.qualname}:slices", it.loc(loop),
              f"slices == slice(*r) for r in product(*{f.name}({ip}))", detail, key_detail="slices")
    # the block-index side: product(*(range(n) for n in <len(c) for c in chunks>))
    idx_var = [n for n, src in b.items() if n not in rng_var]
    ok_i = False
    if len(idx_var) == 1 and isinstance(y_idx, ast.Name) and y_idx.id == idx_var[0]:
        src = b[idx_var[0]]
        if isinstance(src, ast.Call) and call_name(src) in ("itertools.product", "product") and len(src.args) == 1 \
                and isinstance(src.args[0], ast.Starred):
            ew = elementwise(src.args[0].value)
            if ew is not None and len(ew[1]) == 1:
                (v, s2), = ew[1].items()
                e2 = ew[0]
                if isinstance(e2, ast.Call) and call_name(e2) == "range" and len(e2.args) == 1:
                    cnt = e2.args[0]
                    lens = resolve(s2, header)
                    # either range(len(c)) for c in chunks, or range(n) for n in tuple(len(c) for c in chunks)
                    if isinstance(cnt, ast.Call) and call_name(cnt) == "len" and dotted(cnt.args[0]) == v and dotted(
                            lens) == ip:
                        ok_i = True
                    elif isinstance(cnt, ast.Name) and cnt.id == v:
                        ew2 = elementwise(lens)
                        if ew2 is not None and len(ew2[1]) == 1:
                            (v3, s3), = ew2[1].items()
                            ok_i = dotted(s3) == ip and isinstance(ew2[0], ast.Call) and call_name(
                                ew2[0]) == "len" and dotted(ew2[0].args[0]) == v3
    ctx.check(ok_i, "R-RANGES", f"{it.qualname}:block-indices", it.loc(loop),
              f"block indices == product(*(range(len(c)) for c in {ip}))",
              "block indices are not the product of range(len(c)) over the same chunks in the same order",
              key_detail="indices")

    # generate_chunks
    gc = repo.function(MOD, "generate_chunks")
    dfg = DataFlow(gc.node)
    loops = [st for st in walk_no_nested(gc.node) if isinstance(st, ast.For) and isinstance(st.iter, ast.Call)
             and call_name(st.iter) == "equal_sized_chunks"]
    ctx.require(len(loops) == 1 and isinstance(loops[0].target, ast.Name),
                "generate_chunks: loop over equal_sized_chunks(...) not found")
    loop = loops[0]
    batch = loop.target.id
    ys = [st for st in walk_no_nested(loop) if isinstance(st, ast.Expr) and isinstance(st.value, ast.Yield)]
    ctx.require(len(ys) == 1 and isinstance(ys[0].value.value, ast.Tuple) and len(ys[0].value.value.elts) == 2,
                "generate_chunks: expected one `yield start, end`")
    yn = dfg.cfg.node_of(ys[0])
    e0, e1 = ys[0].value.value.elts
    nz = FlowNormalizer(dfg, yn.idx)
    p0, p1 = nz.norm(e0), nz.norm(e1)
    ctx.require(isinstance(e0, ast.Name), "generate_chunks: the yielded start is not a variable")
    svar = e0.id
    ctx.check((p1 - p0) == Poly.atom(batch), "R-RANGES", f"{gc.qualname}:yield-width", gc.loc(ys[0]),
              f"yield ({strip_key(p0)}, {strip_key(p1)})",
              f"yielded range ({p0.key()}, {p1.key()}) is not `{batch}` items wide", key_detail="width")
    header = dfg.cfg.node_of(loop).idx
    body = dfg.cfg.loop_body_nodes(header)
    carried = [d for d in dfg.reaching(yn.idx, svar) if d.node in body]
    outside = [d for d in dfg.reaching(yn.idx, svar) if d.node not in body]
    good = len(carried) == 1 and carried[0].kind == "assign" and len(outside) >= 1
    if good:
        d = carried[0]
        nv = FlowNormalizer(dfg, d.node).norm(d.value)
        good = nv == p1
        why = f"next start := {strip_key(nv)}"
    else:
        why = f"`{svar}` has {len(carried)} in-loop definitions reaching the yield"
    ctx.check(good, "R-RANGES", f"{gc.qualname}:carry", gc.loc(loop), why + " == previous end",
              f"the start of chunk i+1 is not the end of chunk i ({why}; previous end {p1.key()})",
              key_detail="carry")
    first_param = all(d.kind == "param" for d in outside)
    ctx.check(first_param and svar in gc.params, "R-RANGES", f"{gc.qualname}:first-start", gc.where,
              f"first start is the `{svar}` argument",
              f"the first chunk does not start at the `{svar}` argument", key_detail="first")


# ---------------------------------------------------------------------------------------------
def _auto_limit(ctx, repo) -> None:
    f = repo.function(MOD, "_auto_chunks")
    ctx.require("max_elements" in f.params, "_auto_chunks lost its `max_elements` parameter")
    df = DataFlow(f.node)
    cfg = df.cfg
    # the limit test(s)
    tests = []
    for n in cfg.nodes:
        if n.kind == "test" and n.loops:
            t = n.ast.test
            neg = False
            while isinstance(t, ast.UnaryOp) and isinstance(t.op, ast.Not):
                t, neg = t.operand, not neg
            if isinstance(t, ast.Compare) and len(t.ops) == 1 and isinstance(t.ops[0], (ast.Gt, ast.GtE, ast.Lt, ast.LtE)):
                a, b, op = t.left, t.comparators[0], t.ops[0]
                names_a = {x.id for x in ast.walk(a) if isinstance(x, ast.Name)}
                names_b = {x.id for x in ast.walk(b) if isinstance(x, ast.Name)}
                if "max_elements" in names_b and "max_elements" not in names_a:
                    big, lim, over_when = a, b, isinstance(op, (ast.Gt, ast.GtE))
                    strict_ok = True
                elif "max_elements" in names_a and "max_elements" not in names_b:
                    big, lim, over_when = b, a, isinstance(op, (ast.Lt, ast.LtE))
                else:
                    continue
                # within-limit arm must imply total <= limit: `total > lim` (F arm) or `total <= lim` (T arm);
                # `total >= lim`/F and `total < lim`/T are stricter, also fine
                over_label = "T" if (over_when != neg) else "F"
                tests.append((n, big, lim, over_label))
    ctx.require(len(tests) >= 1, "_auto_chunks: no comparison against max_elements inside the growth loop")
    ctx.require(len(tests) == 1, "_auto_chunks: several comparisons against max_elements inside the loop")
    tnode, big, lim, over_label = tests[0]
    loop_header = tnode.loops[-1]
    nzt = FlowNormalizer(df, tnode.idx)
    limp = nzt.norm(lim)
    ctx.check(limp == Poly.atom("max_elements"), "R-AUTOLIMIT", f"{f.qualname}:limit-term", f.loc(tnode.ast),
              "the product is compared with max_elements itself",
              f"the element product is compared with {limp.key()}, not with max_elements", key_detail="limit")
    # the product and the list it is taken over
    ctx.require(isinstance(big, ast.Name), "_auto_chunks: the tested quantity is not a variable")
    tdefs = df.reaching(tnode.idx, big.id)
    ctx.require(len(tdefs) == 1 and tdefs[0].kind == "assign", f"_auto_chunks: `{big.id}` has no single definition")
    tdef = tdefs[0]
    pv = tdef.value
    while isinstance(pv, ast.Call) and call_name(pv) in ("int", "float") and len(pv.args) == 1:
        pv = pv.args[0]
    lst = None
    if isinstance(pv, ast.Call):
        cn = call_name(pv)
        if cn in PRODUCT and len(pv.args) == 1:
            lst = dotted(pv.args[0])
        elif cn in ("reduce", "functools.reduce") and len(pv.args) == 2 and (
                dotted(pv.args[0]) in ("mul", "operator.mul") or (
                isinstance(pv.args[0], ast.Lambda) and isinstance(pv.args[0].body, ast.BinOp) and isinstance(
                    pv.args[0].body.op, ast.Mult))):
            lst = dotted(pv.args[1])
    ctx.require(lst is not None, f"_auto_chunks: `{norm_text(pv)[:50]}` is not recognised as the element product")
    body = cfg.loop_body_nodes(loop_header)
    incs, decs = {}, {}
    for n in cfg.nodes:
        if n.idx not in body or n.kind != "stmt":
            continue
        st = n.ast
        tgt = None
        if isinstance(st, ast.Assign) and len(st.targets) == 1:
            tgt = st.targets[0]
        elif isinstance(st, ast.AugAssign):
            tgt = st.target
        if not (isinstance(tgt, ast.Subscript) and dotted(tgt.value) == lst):
            continue
        is_dec = (isinstance(st, ast.AugAssign) and isinstance(st.op, ast.Sub)) or (
            isinstance(st, ast.Assign) and isinstance(st.value, ast.BinOp) and isinstance(st.value.op, ast.Sub)
            and ast.unparse(st.value.left) == ast.unparse(tgt))
        (decs if is_dec else incs)[n.idx] = tgt
    ctx.require(len(incs) >= 1, f"_auto_chunks: no store into {lst}[...] inside the growth loop")

    def same_slot(i_idx: int, d_idx: int) -> bool:
        a, b = incs[i_idx], decs[d_idx]
        if ast.unparse(a.slice) != ast.unparse(b.slice):
            return False
        for nm in {x.id for x in ast.walk(a.slice) if isinstance(x, ast.Name)}:
            if {id(x) for x in df.reaching(i_idx, nm)} != {id(x) for x in df.reaching(d_idx, nm)}:
                return False
        return True

    def transfer(node, state, label, succ):
        if node.idx in incs:
            return ("inc", node.idx)
        if node.idx == tdef.node and state[0] == "inc":
            return ("fresh", state[1])
        if node.idx == tnode.idx and state[0] == "fresh":
            return ("over", state[1]) if label == over_label else ("clean", -1)
        if node.idx in decs and state[0] == "over" and same_slot(state[1], node.idx):
            return ("clean", -1)
        return state

    at = forward_states(cfg, ("clean", -1), transfer)
    # nodes just outside the loop, reached from inside it (normal exits only)
    exits = set()
    for i in body | {loop_header}:
        for s in cfg.nodes[i].succ:
            if s not in body and s != loop_header and s != cfg.rexit:
                # the state that matters is the one produced on the edge; evaluate per edge
                for stt in at[i]:
                    ns = transfer(cfg.nodes[i], stt, cfg.elabel.get((i, s)), s)
                    if ns is not None:
                        exits.add((i, s, ns))
    ctx.require(bool(exits), "_auto_chunks: the growth loop has no normal exit")
    for inc_idx, tgt in sorted(incs.items()):
        bad = sorted({(i, st[0]) for (i, s, st) in exits if st[0] != "clean" and st[1] == inc_idx})
        why = {"inc": "without recomputing the element product",
               "fresh": "after recomputing the product but before comparing it with max_elements",
               "over": "on the over-limit arm without undoing the increment of the same slot"}
        msgs = [f"via `{norm_text(cfg.nodes[i].ast)[:40] if cfg.nodes[i].ast is not None else cfg.nodes[i].kind}` "
                f"{why[k]}" for i, k in bad]
        ctx.check(not bad, "R-AUTOLIMIT", f"{f.qualname}:increment {norm_text(tgt)}", f.loc(cfg.nodes[inc_idx].ast),
                  f"every normal loop exit after this increment passes `{norm_text(tnode.ast.test)}` "
                  "(within-limit arm) or undoes it",
                  "the growth loop can be left with this increment applied " + "; ".join(msgs) +
                  ": the returned chunks may exceed max_elements", key_detail="exit")


# ---------------------------------------------------------------------------------------------
def _tuple_sum(e: ast.expr, nz) -> Optional[Poly]:
    if isinstance(e, ast.Tuple):
        t = Poly()
        for x in e.elts:
            if isinstance(x, ast.Starred):
                return None
            t = t + nz.norm(x)
        return t
    if isinstance(e, ast.BinOp) and isinstance(e.op, ast.Mult):
        for seq, k in ((e.left, e.right), (e.right, e.left)):
            s = _tuple_sum(seq, nz) if isinstance(seq, ast.Tuple) else None
            if s is not None:
                return s * nz.norm(k)
        return None
    if isinstance(e, ast.BinOp) and isinstance(e.op, ast.Add):
        a, b = _tuple_sum(e.left, nz), _tuple_sum(e.right, nz)
        return None if a is None or b is None else a + b
    return None


def _fill(ctx, repo) -> None:
    f = repo.function(MOD, "fill_in_chunk_sizes")
    df = DataFlow(f.node)
    loops = [st for st in walk_no_nested(f.node) if isinstance(st, ast.For)]
    ctx.require(len(loops) == 1, "fill_in_chunk_sizes: expected one loop")
    b = bind_loop_target(loops[0].target, loops[0].iter)
    p_shape, p_chunks = f.positional_params[:2]
    svar = [n for n, src in b.items() if dotted(src) == p_shape]
    cvar = [n for n, src in b.items() if dotted(src) == p_chunks]
    ctx.require(len(svar) == 1 and len(cvar) == 1, "fill_in_chunk_sizes: loop does not pair shape with chunks")
    s, c = svar[0], cvar[0]
    S = Poly.atom(s)
    nz = PlainDivNorm()
    appends = [st for st in walk_no_nested(loops[0]) if isinstance(st, ast.Expr) and isinstance(st.value, ast.Call)
               and isinstance(st.value.func, ast.Attribute) and st.value.func.attr == "append" and len(st.value.args) == 1]
    ctx.require(len(appends) >= 2, "fill_in_chunk_sizes: append sites not found")
    n_checked = 0
    for ap in appends:
        arg = ap.value.args[0]
        node = df.cfg.node_of(ap)
        if isinstance(arg, ast.Name) and arg.id == c:
            ctx.info("R-FILL", f"{f.qualname}:append {c}", f.loc(ap), "explicit tuple passed through unchanged "
                     "(its sum is checked by the validate_chunks guard)")
            continue
        if isinstance(arg, ast.Name):
            defs = df.reaching(node.idx, arg.id)
            base = [d for d in defs if d.kind == "assign"]
            augs = [d for d in defs if d.kind == "aug"]
            if len(base) != 1 or len(base) + len(augs) != len(defs):
                raise AnalysisError(f"fill_in_chunk_sizes: cannot follow the definitions of `{arg.id}`")
            total = _tuple_sum(base[0].value, nz)
            if total is None:
                raise AnalysisError(f"fill_in_chunk_sizes: `{ast.unparse(base[0].value)[:50]}` is not a tuple expression")
            for d in augs:
                st = d.value  # the AugAssign statement
                if not isinstance(st.op, ast.Add):
                    raise AnalysisError("fill_in_chunk_sizes: unexpected augmented assignment")
                add = _tuple_sum(st.value, nz)
                if add is None:
                    raise AnalysisError(f"fill_in_chunk_sizes: `{ast.unparse(st.value)[:50]}` is not a tuple expression")
                guards = [t for t, br in enclosing_tests(f.node, st) if br and nz.norm(t) == add]
                if not guards:
                    raise AnalysisError("fill_in_chunk_sizes: conditional extension is not guarded by the truth of "
                                        "the very term it adds")
                total = total + add
        else:
            total = _tuple_sum(arg, nz)
            if total is None:
                raise AnalysisError(f"fill_in_chunk_sizes: `{ast.unparse(arg)[:50]}` is not a tuple expression")
        n_checked += 1
        ctx.check(total == S, "R-FILL", f"{f.qualname}:append {norm_text(arg)[:40]}", f.loc(ap),
                  f"sum of the appended tuple == {s}",
                  f"the tuple appended for an integer chunk size sums to {total.key()}, not to the dimension size {s}",
                  key_detail=norm_text(arg)[:40])
    ctx.require(n_checked >= 2, "fill_in_chunk_sizes: fewer than two integer arms examined")


# ---- added after the seeded change C18-seed7: explicit tuple chunks are budgeted by their largest block
_inner_run_c18 = run


def run(ctx) -> None:  # noqa: F811
    import ast as _ast

    from ..model import call_name as _cn, norm_text as _nt, walk_no_nested as _walk

    ctx.rule("R-TUPLEBOUND", "_auto_chunks accounts an explicit tuple of block sizes by an upper bound of its blocks "
             "(max(c)): budgeting it by one of its elements lets the blocks of that dimension exceed what the element "
             "limit was computed for")
    f = ctx.repo.function("abtem.core.chunks", "_auto_chunks")
    arms = [i for i in _walk(f.node) if isinstance(i, _ast.If) and "tuple" in _nt(i.test) and "isinstance" in _nt(i.test)]
    ctx.require(len(arms) >= 1, "_auto_chunks: tuple arm not found")
    n = 0
    for arm in arms:
        tested = [a for a in _ast.walk(arm.test) if isinstance(a, _ast.Call) and _cn(a) == "isinstance"]
        var = _nt(tested[0].args[0]) if tested else "c"
        for st in arm.body:
            for c in _ast.walk(st):
                if isinstance(c, _ast.Call) and isinstance(c.func, _ast.Attribute) and c.func.attr == "append" and c.args:
                    n += 1
                    a = c.args[0]
                    ok = isinstance(a, _ast.Call) and _cn(a) in ("max", "np.max") and a.args and _nt(a.args[0]) == var
                    ctx.check(ok, "R-TUPLEBOUND", f"{f.qualname}:{_nt(c.func.value)}", f.loc(c),
                              f"tuple chunks budgeted by max({var})",
                              f"`{_nt(c)}` budgets an explicit tuple of block sizes by `{_nt(a)}`, which is not an upper "
                              "bound of its blocks", key_detail=_nt(c.func.value))
    ctx.require(n >= 1, "_auto_chunks: no budget entries for tuple chunks found")
    _inner_run_c18(ctx)


# ---- added after the seeded change C18-r3seed7: the -1 sentinel never enters the element budget
_inner_run_c18b = run


def run(ctx) -> None:  # noqa: F811
    import ast as _ast

    from ..cfg import DataFlow as _DF
    from ..model import call_name as _cn, norm_text as _nt, walk_no_nested as _walk

    ctx.rule("R-SENTINEL", "the chunk specification may contain the sentinel -1 ('one block along this dimension'); in "
             "_auto_chunks the per-dimension budget entries (current_chunks / max_chunks, whose product is compared with "
             "max_elements) are taken from a sequence in which -1 has been replaced by the dimension's size — the "
             "sequence the budget loop iterates derives from `chunks` through an expression that tests for the "
             "sentinel (c == -1, c < 0), or the integer arm tests for it itself.  A raw -1 makes the product negative "
             "or too small, so the 'auto' dimensions grow past the limit")
    f = ctx.repo.function("abtem.core.chunks", "_auto_chunks")
    df = _DF(f.node)
    loops = [l for l in _walk(f.node) if isinstance(l, _ast.For) and any(
        isinstance(c, _ast.Call) and _cn(c) == "isinstance" for i in l.body for c in _ast.walk(i) if isinstance(i, _ast.If))
        and any(isinstance(c, _ast.Call) and isinstance(c.func, _ast.Attribute) and c.func.attr == "append"
                for st in l.body for c in _ast.walk(st))]
    ctx.require(len(loops) == 1, f"{f.qualname}: budget loop (isinstance dispatch with append) not found")
    loop = loops[0]

    def tests_sentinel(e: _ast.AST) -> bool:
        for c in _ast.walk(e):
            if isinstance(c, _ast.Compare) and len(c.ops) == 1:
                sides = [c.left, c.comparators[0]]
                for s_ in sides:
                    if isinstance(s_, _ast.UnaryOp) and isinstance(s_.op, _ast.USub) and isinstance(s_.operand, _ast.Constant) \
                            and s_.operand.value == 1:
                        return True
                    if isinstance(s_, _ast.Constant) and s_.value in (-1,):
                        return True
                    if isinstance(s_, _ast.Constant) and s_.value == 0 and isinstance(c.ops[0], (_ast.Lt, _ast.GtE, _ast.Gt, _ast.LtE)):
                        return True
        return False

    # the sequence(s) the loop iterates, followed through single definitions
    handled = any(tests_sentinel(st) for st in loop.body)
    it = loop.iter
    seqs = it.args if isinstance(it, _ast.Call) and _cn(it) in ("zip", "enumerate") else [it]
    at = df.cfg.node_of(loop).idx
    for s_ in seqs:
        e, node = s_, at
        for _ in range(6):
            if tests_sentinel(e):
                handled = True
                break
            if isinstance(e, _ast.Name):
                d = df.single_def(node, e.id)
                if d is None or d.value is None:
                    break
                e, node = d.value, d.node
                continue
            if isinstance(e, _ast.Call) and _cn(e) in ("tuple", "list") and len(e.args) == 1:
                e = e.args[0]
                continue
            break
    ctx.check(handled, "R-SENTINEL", f"{f.qualname}:-1 replaced before budgeting", f.loc(loop),
              "the budget loop iterates chunks with -1 replaced by the dimension size",
              f"the budget loop `for {_nt(loop.target)} in {_nt(loop.iter)[:50]}` reads the raw chunk specification: a -1 "
              "sentinel is appended to the element budget as -1, the product with the other dimensions is negative or "
              "too small and the 'auto' dimensions grow beyond max_elements", key_detail="sentinel")
    _inner_run_c18b(ctx)


# ---- added after the mutation sweep (sweepH-b): one entry per dimension, the length guard, pairing of shape with
# ---- chunks, block bound of an integer chunk size, integrity of the limit, every batch yielded
_inner_run_c18_sweep = run
LENGUARD = "check_chunks_match_shape_length"


def _contribution(st: ast.AST) -> Optional[tuple[str, int]]:
    """(accumulator name, number of items added) for `acc.append(x)`, `acc += (x,)`, `acc = acc + (x,)`;
    (name, -1) for any other statement that changes a list/tuple accumulator in a way not understood."""
    if isinstance(st, ast.Expr) and isinstance(st.value, ast.Call) and isinstance(st.value.func, ast.Attribute) \
            and isinstance(st.value.func.value, ast.Name):
        a = st.value.func.attr
        if a == "append" and len(st.value.args) == 1:
            return st.value.func.value.id, 1
        if a in ("extend", "insert", "pop", "remove", "clear"):
            return st.value.func.value.id, -1
    seq = None
    if isinstance(st, ast.AugAssign) and isinstance(st.op, ast.Add) and isinstance(st.target, ast.Name):
        seq, name = st.value, st.target.id
    elif isinstance(st, ast.Assign) and len(st.targets) == 1 and isinstance(st.targets[0], ast.Name) and isinstance(
            st.value, ast.BinOp) and isinstance(st.value.op, ast.Add):
        name = st.targets[0].id
        if isinstance(st.value.left, ast.Name) and st.value.left.id == name:
            seq = st.value.right
        elif isinstance(st.value.right, ast.Name) and st.value.right.id == name:
            seq = st.value.left
    if seq is not None and isinstance(seq, (ast.Tuple, ast.List)) and not any(isinstance(e, ast.Starred) for e in seq.elts):
        return name, len(seq.elts)
    return None


def _once_per_iteration(ctx, rule: str, f: FuncInfo, df: DataFlow, loop: ast.For, what: str) -> int:
    """Every accumulator that receives entries inside `loop` receives exactly one on every path through one
    iteration that returns to the loop header (raising paths excluded; leaving the loop early is not understood)."""
    cfg = df.cfg
    header = cfg.node_of(loop).idx
    body = cfg.loop_body_nodes(header)
    accs: dict[str, list[int]] = {}
    for i in sorted(body):
        n = cfg.nodes[i]
        if n.kind != "stmt":
            continue
        c = _contribution(n.ast)
        if c is not None:
            if c[1] != 1:
                raise AnalysisError(f"{f.qualname}: `{norm_text(n.ast)[:60]}` adds {c[1] if c[1] >= 0 else 'an unknown number of'} "
                                    f"entries to `{c[0]}` in one step")
            accs.setdefault(c[0], []).append(i)
        if isinstance(n.ast, (ast.Break, ast.Return)) or (n.kind == "stmt" and any(
                s not in body and s != header and s != cfg.rexit for s in n.succ)):
            raise AnalysisError(f"{f.qualname}: the {what} loop is left early by `{norm_text(n.ast)[:40]}`")
    n_acc = 0
    for acc, sites in sorted(accs.items(), key=lambda kv: min(kv[1])):
        # a sequence (re)created inside the iteration is a temporary of that iteration, not a per-dimension result
        if any(d.var == acc and d.strong and d.node in body and d.kind == "assign" and not _contribution(cfg.nodes[d.node].ast)
               for d in df.defs):
            continue
        # nested accumulators of an inner loop are not per-iteration entries of this one
        if any(len(cfg.nodes[i].loops) != len(cfg.nodes[header].loops) + 1 for i in sites):
            raise AnalysisError(f"{f.qualname}: `{acc}` is extended inside a nested loop")

        def transfer(node, state, label, succ, _sites=set(sites)):
            if node.idx == header:
                return 0 if succ in body else state
            if node.idx in _sites:
                return min(state + 1, 2)
            return state

        at = forward_states(cfg, 0, transfer)
        counts = set()
        for i in body:
            if header in cfg.nodes[i].succ:
                for st in at[i]:
                    counts.add(transfer(cfg.nodes[i], st, cfg.elabel.get((i, header)), header))
        ctx.require(bool(counts), f"{f.qualname}: the {what} loop has no back edge")
        bad = sorted(c for c in counts if c != 1)
        n_acc += 1
        ctx.check(not bad, rule, f"{f.qualname}:{what}:entries of sequence #{n_acc}", f.loc(loop),
                  f"every iteration that does not raise adds exactly one entry to `{acc}` ({len(sites)} sites)",
                  f"an iteration of the {what} loop can add {' or '.join(str(b) if b < 2 else '2+' for b in bad)} entries to "
                  f"`{acc}`: the result no longer has one entry per dimension (and zip() in the sum guard silently "
                  "truncates to the shorter sequence)", key_detail="once")
    return n_acc


def _per_dimension(ctx, repo) -> None:
    f = repo.function(MOD, "fill_in_chunk_sizes")
    df = DataFlow(f.node)
    n = 0
    for loop in [st for st in walk_no_nested(f.node) if isinstance(st, ast.For)]:
        n += _once_per_iteration(ctx, "R-PERDIM", f, df, loop, "fill")
    ctx.require(n >= 1, f"{f.qualname}: no per-dimension accumulator found")
    g = repo.function(MOD, "_auto_chunks")
    dg = DataFlow(g.node)
    n = 0
    for k, loop in enumerate(st for st in walk_no_nested(g.node) if isinstance(st, ast.For)):
        has = any(_contribution(s) for s in walk_no_nested(loop))
        if has:
            kind = "budget" if any(isinstance(c, ast.Call) and call_name(c) == "isinstance" for c in ast.walk(loop)) else "assembly"
            n += _once_per_iteration(ctx, "R-PERDIM", g, dg, loop, kind)
    ctx.require(n >= 3, f"{g.qualname}: budget lists / assembled chunks not found ({n} accumulators)")


def _length_guard(ctx, repo) -> None:
    g = repo.function(MOD, LENGUARD)
    p_shape, p_chunks = g.positional_params[:2]
    ifs = [st for st in walk_no_nested(g.node) if isinstance(st, ast.If) and any(isinstance(x, ast.Raise) for x in st.body)]
    ctx.require(len(ifs) == 1 and not ifs[0].orelse, f"{g.qualname}: expected one `if ...: raise`")
    conj = ifs[0].test.values if isinstance(ifs[0].test, ast.BoolOp) and isinstance(ifs[0].test.op, ast.And) else [ifs[0].test]
    verdict, restricted = None, []
    for t in conj:
        neg = False
        while isinstance(t, ast.UnaryOp) and isinstance(t.op, ast.Not):
            t, neg = t.operand, not neg
        if isinstance(t, ast.Compare) and len(t.ops) == 1 and isinstance(t.ops[0], (ast.Eq, ast.NotEq)):
            sides = []
            for s_ in (t.left, t.comparators[0]):
                sides.append(dotted(s_.args[0]) if isinstance(s_, ast.Call) and call_name(s_) == "len" and len(s_.args) == 1 else None)
            ctx.require(None not in sides, f"{g.qualname}: cannot read `{norm_text(t)[:60]}`")
            verdict = sorted(sides) == sorted([p_shape, p_chunks]) and (isinstance(t.ops[0], ast.NotEq) != neg)
        elif isinstance(t, ast.Call) and call_name(t) == "isinstance" and len(t.args) == 2 and not neg:
            restricted.append((dotted(t.args[0]), dotted(t.args[1])))
        else:
            raise AnalysisError(f"{g.qualname}: cannot read the condition `{norm_text(t)[:60]}`")
    ctx.require(verdict is not None, f"{g.qualname}: no comparison of the two lengths found")
    good = verdict and all(r == (p_chunks, "tuple") for r in restricted)
    ctx.check(good, "R-LENGUARD", f"{g.qualname}:semantics", g.loc(ifs[0]),
              f"raises iff {p_chunks} is a tuple and len({p_chunks}) != len({p_shape})",
              f"`{norm_text(ifs[0].test)[:90]}` does not raise exactly for a tuple of chunks whose length differs from the "
              "number of dimensions", key_detail="semantics")

    vc = repo.function(MOD, "validate_chunks")
    v_shape, v_chunks = vc.positional_params[:2]
    df = DataFlow(vc.node)
    cfg = df.cfg
    guards = []
    for n in cfg.nodes:
        if n.kind == "stmt" and isinstance(n.ast, ast.Expr) and isinstance(n.ast.value, ast.Call) and call_name(n.ast.value) == LENGUARD:
            c = n.ast.value
            b = {p: a for p, a in zip(g.positional_params, c.args)}
            b.update({k.arg: k.value for k in c.keywords if k.arg})
            a_s, a_c = b.get(p_shape), b.get(p_chunks)
            fresh = all(d.kind == "param" for v in (v_shape, v_chunks) for d in df.reaching(n.idx, v))
            if isinstance(a_s, ast.Name) and isinstance(a_c, ast.Name) and a_s.id == v_shape and a_c.id == v_chunks and fresh:
                guards.append(n)
    rets = [n for n in cfg.nodes if n.kind == "stmt" and isinstance(n.ast, ast.Return)]
    ctx.require(bool(rets), "validate_chunks has no return")
    for k, r in enumerate(rets):
        ok = any(cfg.dominates(gn.idx, r.idx) for gn in guards)
        ctx.check(ok, "R-LENGUARD", f"{vc.qualname}:return #{k}", vc.loc(r.ast),
                  f"{LENGUARD}({v_shape}, {v_chunks}) is executed on the caller's arguments before every return",
                  f"a return of validate_chunks is reached without {LENGUARD}({v_shape}, {v_chunks}) on the caller's "
                  "arguments: the sum guard pairs shape with chunks through zip(), so a chunks tuple with fewer (or more) "
                  "entries than dimensions is returned as validated", key_detail="dominates")


def _is_sentinel_test(t: ast.AST, var: str) -> Optional[bool]:
    """True: `t` holds iff var is the sentinel; False: iff it is not; None: not a sentinel test of var."""
    if not (isinstance(t, ast.Compare) and len(t.ops) == 1):
        return None
    a, b, op = t.left, t.comparators[0], t.ops[0]

    def const(e):
        if isinstance(e, ast.Constant) and isinstance(e.value, int) and not isinstance(e.value, bool):
            return e.value
        if isinstance(e, ast.UnaryOp) and isinstance(e.op, ast.USub) and isinstance(e.operand, ast.Constant) and isinstance(e.operand.value, int):
            return -e.operand.value
        return None
    flip = {ast.Lt: ast.Gt, ast.Gt: ast.Lt, ast.LtE: ast.GtE, ast.GtE: ast.LtE, ast.Eq: ast.Eq, ast.NotEq: ast.NotEq}
    if isinstance(b, ast.Name) and b.id == var and const(a) is not None:
        a, b, op = b, a, flip[type(op)]()
    if not (isinstance(a, ast.Name) and a.id == var and const(b) is not None):
        return None
    c = const(b)
    table = {(ast.Eq, -1): True, (ast.NotEq, -1): False, (ast.Lt, 0): True, (ast.GtE, 0): False, (ast.LtE, -1): True,
             (ast.Gt, -1): False}
    return table.get((type(op), c))


def _pairing(ctx, repo) -> None:
    f = repo.function(MOD, "_auto_chunks")
    p_shape, p_chunks = f.positional_params[:2]
    df = DataFlow(f.node)
    loops = [l for l in walk_no_nested(f.node) if isinstance(l, ast.For) and any(
        isinstance(c, ast.Call) and call_name(c) == "isinstance" for c in ast.walk(l)) and any(
        _contribution(s) for s in walk_no_nested(l))]
    ctx.require(len(loops) == 1, f"{f.qualname}: budget loop not found")
    loop = loops[0]
    at = df.cfg.node_of(loop).idx
    b = bind_loop_target(loop.target, loop.iter)

    def is_param(e, p):
        return isinstance(e, ast.Name) and e.id == p and all(d.kind == "param" for d in df.reaching(at, p))

    svars = [v for v, src in b.items() if is_param(src, p_shape)]
    others = [v for v in b if v not in svars]
    ctx.require(len(svars) <= 1 and len(others) == 1 and len(b) == 2, f"{f.qualname}: budget loop does not iterate (size, chunk) pairs")
    cvar = others[0]
    # the chunk sequence: the parameter itself or its sentinel-free copy
    src, node = b[cvar], at
    def strip(e):
        while isinstance(e, ast.Call) and call_name(e) in ("tuple", "list") and len(e.args) == 1 and isinstance(e.args[0], ast.Name):
            e = e.args[0]
        return e

    src = strip(src)
    while isinstance(src, ast.Name) and not (src.id == p_chunks and all(d.kind == "param" for d in df.reaching(node, p_chunks))):
        d = df.single_def(node, src.id)
        ctx.require(d is not None and d.kind == "assign" and d.value is not None, f"{f.qualname}: `{src.id}` has no single definition")
        src, node = strip(d.value), d.node
    if isinstance(src, ast.Name):
        ctx.info("R-PAIRING", f"{f.qualname}:sentinel replacement", f.loc(loop), "the budget loop reads the chunk "
                 "specification itself (see R-SENTINEL)")
    else:
        ew = elementwise(src)
        ctx.require(ew is not None, f"{f.qualname}: cannot read the chunk sequence `{norm_text(src)[:60]}`")
        elt, eb = ew
        es = [v for v, s_ in eb.items() if isinstance(s_, ast.Name) and s_.id == p_shape]
        ec = [v for v, s_ in eb.items() if isinstance(s_, ast.Name) and s_.id == p_chunks]
        fresh = all(d.kind == "param" for p in (p_shape, p_chunks) for d in df.reaching(node, p))
        ctx.require(len(es) == 1 and len(ec) == 1 and len(eb) == 2 and fresh,
                    f"{f.qualname}: the sentinel-free chunks are not computed from zip({p_shape}, {p_chunks})")
        ctx.require(isinstance(elt, ast.IfExp), f"{f.qualname}: `{norm_text(elt)[:50]}` is not a conditional replacement")
        pol = _is_sentinel_test(elt.test, ec[0])
        if pol is None and _is_sentinel_test(elt.test, es[0]) is not None:
            ctx.violation("R-PAIRING", f"{f.qualname}:sentinel replacement", f.loc(elt),
                          f"`{norm_text(elt)[:60]}` looks for the sentinel -1 in the shape, not in the chunk specification "
                          "(shape and chunks are paired the wrong way round): -1 and 'auto' entries are replaced by full "
                          "dimensions or passed on raw", key_detail="replace")
        else:
            ctx.require(pol is not None, f"{f.qualname}: `{norm_text(elt.test)[:50]}` is not a test for the -1 sentinel")
            whole, keep = (elt.body, elt.orelse) if pol else (elt.orelse, elt.body)
            good = dotted(whole) == es[0] and dotted(keep) == ec[0]
            ctx.check(good, "R-PAIRING", f"{f.qualname}:sentinel replacement", f.loc(elt),
                      "-1 becomes the dimension size, every other entry is kept",
                      f"`{norm_text(elt)[:60]}`: the sentinel -1 must become the dimension size and every other entry "
                      "('auto', an integer, a tuple) must be kept; here 'auto' entries are lost / -1 stays, so the chosen "
                      "chunks are whole dimensions regardless of max_elements", key_detail="replace")
    # the arms of the budget loop
    chain = [s for s in loop.body if isinstance(s, ast.If)]
    ctx.require(len(chain) == 1, f"{f.qualname}: budget loop is not one if-chain")
    cur = chain[0]
    n_arms = 0
    while True:
        t = cur.test
        subj, kind = None, None
        arm_body, rest = cur.body, cur.orelse
        if isinstance(t, ast.Compare) and len(t.ops) == 1 and isinstance(t.ops[0], ast.NotEq) and cur.orelse:
            arm_body, rest = cur.orelse, cur.body  # `if c != "auto": <others> else: <auto arm>`
        if isinstance(t, ast.Compare) and len(t.ops) == 1 and isinstance(t.ops[0], (ast.Eq, ast.NotEq)):
            for x, y in ((t.left, t.comparators[0]), (t.comparators[0], t.left)):
                if isinstance(y, ast.Constant) and isinstance(y.value, str) and isinstance(x, ast.Name):
                    subj, kind = x.id, "auto"
        elif isinstance(t, ast.Call) and call_name(t) == "isinstance" and len(t.args) == 2 and isinstance(t.args[0], ast.Name):
            subj, kind = t.args[0].id, dotted(t.args[1])
        ctx.require(subj is not None, f"{f.qualname}: cannot read the arm `{norm_text(t)[:50]}` of the budget loop")
        vals = [s.value.args[0] for s in arm_body if isinstance(s, ast.Expr) and _contribution(s)]
        n_arms += 1
        construct = f"{f.qualname}:budget arm {kind}"
        if subj != cvar:
            ctx.violation("R-PAIRING", construct, f.loc(cur), f"the arm tests `{subj}`, which is bound to "
                          f"`{norm_text(b[subj])[:40] if subj in b else 'something else'}`, not to the chunk specification: sizes and chunks are paired the wrong "
                          "way round, so every dimension is budgeted (and finally chunked) by its full size",
                          key_detail="subject")
        elif kind == "auto":
            names = [v for v in vals if isinstance(v, ast.Name)]
            consts = [v for v in vals if isinstance(v, ast.Constant)]
            ctx.require(len(names) + len(consts) == len(vals) and len(vals) >= 2, f"{f.qualname}: cannot read the 'auto' arm")
            good = len(svars) == 1 and all(v.id == svars[0] for v in names) and all(
                isinstance(v.value, int) and v.value >= 1 for v in consts) and names and consts
            ctx.check(bool(good), "R-PAIRING", construct, f.loc(cur),
                      f"an 'auto' dimension starts at a positive constant and may grow up to its size `{svars[0] if svars else '?'}`",
                      "an 'auto' dimension is not budgeted by (a positive constant, the size of that dimension)",
                      key_detail="auto")
        elif kind == "int":
            good = all(isinstance(v, ast.Name) and v.id == cvar for v in vals) and vals
            ctx.check(bool(good), "R-PAIRING", construct, f.loc(cur), "an integer chunk size is budgeted by itself",
                      "an integer chunk size is not budgeted by its own value", key_detail="int")
        else:
            ctx.info("R-PAIRING", construct, f.loc(cur), "see R-TUPLEBOUND")
        if len(rest) == 1 and isinstance(rest[0], ast.If):
            cur = rest[0]
            continue
        break
    ctx.require(n_arms >= 3, f"{f.qualname}: fewer than three arms in the budget loop")


def _tuple_elems(e: ast.expr, nz) -> Optional[list[Poly]]:
    if isinstance(e, ast.Tuple):
        if any(isinstance(x, ast.Starred) for x in e.elts):
            return None
        return [nz.norm(x) for x in e.elts]
    if isinstance(e, ast.BinOp) and isinstance(e.op, ast.Mult):
        for seq in (e.left, e.right):
            if isinstance(seq, ast.Tuple):
                return _tuple_elems(seq, nz)
        return None
    if isinstance(e, ast.BinOp) and isinstance(e.op, ast.Add):
        a, b = _tuple_elems(e.left, nz), _tuple_elems(e.right, nz)
        return None if a is None or b is None else a + b
    return None


def _block_bound(ctx, repo) -> None:
    f = repo.function(MOD, "fill_in_chunk_sizes")
    df = DataFlow(f.node)
    loops = [st for st in walk_no_nested(f.node) if isinstance(st, ast.For)]
    ctx.require(len(loops) == 1, "fill_in_chunk_sizes: expected one loop")
    b = bind_loop_target(loops[0].target, loops[0].iter)
    p_shape, p_chunks = f.positional_params[:2]
    svar = [n for n, src in b.items() if dotted(src) == p_shape]
    cvar = [n for n, src in b.items() if dotted(src) == p_chunks]
    ctx.require(len(svar) == 1 and len(cvar) == 1, "fill_in_chunk_sizes: loop does not pair shape with chunks")
    s, c = svar[0], cvar[0]
    nz = PlainDivNorm()
    S, C = Poly.atom(s), Poly.atom(c)
    REM = nz.norm(ast.parse(f"{s} % {c}", mode="eval").body)
    n = 0
    for ap in [st for st in walk_no_nested(loops[0]) if isinstance(st, ast.Expr) and _contribution(st)]:
        arg = ap.value.args[0]
        if isinstance(arg, ast.Name) and arg.id == c:
            continue
        exprs = [(arg, ap)]
        if isinstance(arg, ast.Name):
            exprs = []
            for d in df.reaching(df.cfg.node_of(ap).idx, arg.id):
                stn = df.cfg.nodes[d.node].ast
                if isinstance(stn, ast.Assign) and isinstance(stn.value, ast.Name) and stn.value.id == c:
                    continue  # the explicit tuple of blocks passed through (its sum is checked by the guard)
                exprs.append((stn.value if isinstance(stn, (ast.Assign, ast.AugAssign)) else None, stn))
        for e, stn in exprs:
            els = _tuple_elems(e, nz) if e is not None else None
            if els is None:
                raise AnalysisError(f"fill_in_chunk_sizes: cannot read the blocks of `{norm_text(stn)[:60]}`")
            sentinel = any(_is_sentinel_test(t, c) is not None and _is_sentinel_test(t, c) == br
                           for t, br in enclosing_tests(f.node, stn))
            for el in els:
                n += 1
                good = el == C or el == REM or (el == S and sentinel)
                role = "chunk size" if el == C else "remainder" if el == REM else "whole dimension" if el == S else "other"
                ctx.check(good, "R-BLOCKBOUND", f"{f.qualname}:block = {role}" + (" [sentinel arm]" if sentinel else ""), f.loc(stn),
                          f"block of size {strip_key(el)}" + (" for the sentinel -1" if sentinel else f" <= {c}"),
                          f"an integer chunk size `{c}` (not the sentinel -1) produces a block of size {strip_key(el)}: blocks "
                          f"must be `{c}` or the remainder `{s} % {c}`; _auto_chunks hands its chosen sizes through here, so "
                          "larger blocks exceed max_elements", key_detail="bound")
    ctx.require(n >= 3, "fill_in_chunk_sizes: fewer than three block sizes examined")


def _limit_integrity(ctx, repo) -> None:
    f = repo.function(MOD, "_auto_chunks")
    lim = "max_elements"
    ctx.require(lim in f.params, "_auto_chunks lost its `max_elements` parameter")
    df = DataFlow(f.node)
    ident = {"int", "np.floor", "math.floor", "floor", "np.floor_divide"}
    n = 0
    for st in walk_no_nested(f.node):
        if not (isinstance(st, ast.Assign) and any(dotted(t) == lim for t in st.targets)):
            continue
        n += 1
        is_str = False
        for t, br in enclosing_tests(f.node, st):
            neg = False
            while isinstance(t, ast.UnaryOp) and isinstance(t.op, ast.Not):
                t, neg = t.operand, not neg
            if isinstance(t, ast.Compare) and len(t.ops) == 1 and isinstance(t.ops[0], (ast.Eq, ast.NotEq)):
                sides = [t.left, t.comparators[0]]
                if any(dotted(x) == lim for x in sides) and any(isinstance(x, ast.Constant) and isinstance(x.value, str) for x in sides):
                    if (isinstance(t.ops[0], ast.Eq) != neg) == br:
                        is_str = True
            elif isinstance(t, ast.Call) and call_name(t) == "isinstance" and len(t.args) == 2 and dotted(t.args[0]) == lim \
                    and dotted(t.args[1]) == "str":
                if (not neg) == br:
                    is_str = True
        ctx.check(is_str, "R-LIMIT", f"{f.qualname}:limit overwritten only when it is a string #{n}", f.loc(st),
                  f"`{lim}` is recomputed only where it is known to be a string ('auto' / a byte size)",
                  f"`{norm_text(st)[:70]}` can overwrite an integer `{lim}` given by the caller: the chunks are then sized "
                  "for another limit and exceed the requested one", key_detail="kept")
        nz = FlowNormalizer(df, df.cfg.node_of(st).idx, identity_calls=ident)
        p = nz.norm(st.value)
        ctx.require(len(p.terms) == 1, f"{f.qualname}: `{norm_text(st.value)[:60]}` is not a quotient bytes / itemsize")
        (mono, coef), = p.terms.items()
        its = [(a, e) for a, e in mono if a.endswith(".itemsize")]
        mentioned = any(isinstance(x, ast.Attribute) and x.attr == "itemsize" for x in ast.walk(st.value))
        ctx.require(len(its) == 1 or (not its and mentioned), f"{f.qualname}: no item size in `{norm_text(st.value)[:60]}`")
        good = bool(its) and its[0][1] == -1 and coef == 1 and all(e == 1 for a, e in mono if not a.endswith(".itemsize"))
        ctx.check(good, "R-LIMIT", f"{f.qualname}:elements = bytes / itemsize #{n}", f.loc(st),
                  f"{lim} = {strip_key(p)}",
                  f"{lim} = {strip_key(p)}: a byte budget is converted to elements by dividing by the item size once; "
                  "anything else lets the chunks exceed the byte limit", key_detail="bytes")
    ctx.require(n >= 1, f"{f.qualname}: no conversion of a byte budget to `{lim}` found")


def _every_batch(ctx, repo) -> None:
    gc = repo.function(MOD, "generate_chunks")
    es = repo.function(MOD, "equal_sized_chunks")
    loops = [st for st in walk_no_nested(gc.node) if isinstance(st, ast.For) and isinstance(st.iter, ast.Call)
             and call_name(st.iter) == es.name]
    ctx.require(len(loops) == 1 and isinstance(loops[0].target, ast.Name), "generate_chunks: loop over equal_sized_chunks(...) not found")
    loop = loops[0]
    from ..model import bind_args
    b = bind_args(loop.iter, es)
    p = gc.positional_params
    q = es.positional_params
    good = len(p) >= 2 and len(q) >= 2 and dotted(b.get(q[0])) == p[0] and dotted(b.get(q[1])) == p[1]
    ctx.check(good, "R-RANGES", f"{gc.qualname}:splits its own num_items", gc.loc(loop.iter),
              f"{es.name}({q[0]}={p[0]}, {q[1]}={p[1]})",
              f"`{norm_text(loop.iter)[:70]}` does not split `{p[0]}` items into `{p[1]}` chunks: the yielded ranges do not "
              f"end at start + {p[0]}", key_detail="args")
    batch = loop.target.id
    n = 0
    for st in walk_no_nested(loop):
        if not isinstance(st, (ast.Break, ast.Continue, ast.Return)):
            continue
        n += 1
        tests = enclosing_tests(gc.node, st)
        verdict = None if tests else False
        for t, br in tests:
            if isinstance(t, ast.Compare) and len(t.ops) == 1 and isinstance(t.ops[0], (ast.Eq, ast.NotEq)):
                sides = [t.left, t.comparators[0]]
                zero = any(isinstance(x, ast.Constant) and x.value == 0 and not isinstance(x.value, bool) for x in sides)
                var = [dotted(x) for x in sides if dotted(x) in (p[0], batch)]
                if zero and var:
                    v = (isinstance(t.ops[0], ast.Eq) == br)
                    verdict = v if verdict is None else (verdict or v)
        ctx.require(verdict is not None, f"{gc.qualname}: cannot read the guard of `{norm_text(st)}` inside the loop")
        ctx.check(verdict, "R-RANGES", f"{gc.qualname}:every batch is yielded #{n}", gc.loc(st),
                  f"`{norm_text(st)}` only where nothing is left to yield ({p[0]} == 0 / an empty batch)",
                  f"`{norm_text(st)}` skips the yield for a non-empty batch: the yielded ranges no longer cover "
                  f"[start, start + {p[0]})", key_detail="skip")
    if n == 0:
        ctx.ok("R-RANGES", f"{gc.qualname}:every batch is yielded", gc.loc(loop), "no break / continue / return in the loop")


def _shape_argument(ctx, repo) -> None:
    vc = repo.function(MOD, "validate_chunks")
    v_shape = vc.positional_params[0]
    df = DataFlow(vc.node)
    n = 0
    for c in [c for c in walk_no_nested(vc.node) if isinstance(c, ast.Call)]:
        callee = call_name(c)
        if callee not in ("_auto_chunks", "fill_in_chunk_sizes", vc.name):
            continue
        g = repo.function(MOD, callee)
        from ..model import bind_args
        b = bind_args(c, g)
        a = b.get(g.positional_params[0])
        n += 1
        ctx.check(isinstance(a, ast.Name) and a.id == v_shape, "R-LENGUARD", f"{vc.qualname}:{callee} gets the shape #{n}",
                  vc.loc(c), f"{callee}({g.positional_params[0]}={v_shape}, ...)",
                  f"`{norm_text(c)[:70]}` passes `{norm_text(a)[:30] if a is not None else '?'}` as the shape", key_detail="shape-arg")
    ctx.require(n >= 3, f"{vc.qualname}: delegations not found")


def run(ctx) -> None:  # noqa: F811
    ctx.rule("R-PERDIM", "fill_in_chunk_sizes, and the budget and assembly loops of _auto_chunks, add exactly one entry per "
             "dimension to every sequence they build, on every path of an iteration that does not raise (counting "
             "appends / `+= (x,)` along the CFG of the loop body). The sum guard pairs shape and chunks with zip(), which "
             "truncates silently, so a missing entry yields chunks that do not cover every dimension")
    ctx.rule("R-LENGUARD", "validate_chunks executes check_chunks_match_shape_length(shape, chunks) on its own unmodified "
             "arguments before every return, that function raises exactly when chunks is a tuple whose length differs "
             "from len(shape), and the helpers it delegates to receive the caller's shape")
    ctx.rule("R-PAIRING", "_auto_chunks: the sentinel-free copy of the chunk specification is `size if chunk is the "
             "sentinel else chunk` over zip(shape, chunks); the budget loop dispatches on the chunk entry (not on the "
             "size), budgets an 'auto' dimension by (positive constant, size of the dimension) and an integer by itself")
    ctx.rule("R-BLOCKBOUND", "fill_in_chunk_sizes: for an integer chunk size c every produced block is c or s % c; the whole "
             "dimension (s,) is produced only under a test that identifies the sentinel -1")
    ctx.rule("R-LIMIT", "_auto_chunks: max_elements is reassigned only on branches where it is known to be a string, and "
             "the new value is (bytes) / itemsize — an integer limit reaches the growth loop unchanged")
    _per_dimension(ctx, ctx.repo)
    _length_guard(ctx, ctx.repo)
    _shape_argument(ctx, ctx.repo)
    _pairing(ctx, ctx.repo)
    _block_bound(ctx, ctx.repo)
    _limit_integrity(ctx, ctx.repo)
    _every_batch(ctx, ctx.repo)
    _inner_run_c18_sweep(ctx)
