"""C09 — slicing conserves the potential (abtem/slicing.py): the slicing clauses.

Decided: "the slice thicknesses sum to the cell height" (R-GUARD), "every atom is assigned to exactly
one slice" for the index-based slicer (R-ONELABEL) and the half-open slice membership of the
coordinate-based slicer (R-HALFOPEN).
"""
from __future__ import annotations

import ast
from typing import Optional

from ..cfg import CFG, DataFlow, forward_states
from ..model import AnalysisError, FuncInfo, bind_args, call_name, dotted, last_attr, norm_text, walk_no_nested
from ..terms import Normalizer, Poly
from ..rules.flowdeps import Deps

MOD = "abtem.slicing"
CLOSE_FUNCS = {"isclose", "allclose"}
SUM_FUNCS = {"sum", "fsum", "nansum"}
CASTS = {"float", "np.float64", "np.float32", "np.asarray", "np.array", "tuple", "list", "np.abs", "abs"}


# ----------------------------------------------------------------------------------------- helpers
def _inline(df: DataFlow, node_idx: int, e: ast.AST, depth: int = 0) -> ast.AST:
    """Follow single strong assignments of plain names (temporaries)."""
    while isinstance(e, ast.Name) and depth < 6:
        d = df.single_def(node_idx, e.id)
        if d is None or d.kind != "assign" or d.value is None:
            break
        st = df.cfg.nodes[d.node].ast
        if not (isinstance(st, ast.Assign) and len(st.targets) == 1 and isinstance(st.targets[0], ast.Name)):
            break
        e, node_idx = d.value, d.node
        depth += 1
    return e


def _strip_casts(e: ast.AST) -> ast.AST:
    while isinstance(e, ast.Call) and call_name(e) in CASTS and len(e.args) == 1 and not e.keywords:
        e = e.args[0]
    return e


def _summed_name(df: DataFlow, node_idx: int, e: ast.AST) -> Optional[str]:
    """`np.sum(V)`, `sum(V)`, `math.fsum(V)`, `V.sum()`, `np.array(V).sum()` -> 'V'."""
    e = _strip_casts(_inline(df, node_idx, e))
    if isinstance(e, ast.Call):
        inner = None
        if last_attr(e) in SUM_FUNCS and isinstance(e.func, ast.Attribute) and not e.args and \
                dotted(e.func.value) not in ("np", "numpy", "math", "xp"):
            inner = e.func.value
        elif last_attr(e) in SUM_FUNCS and e.args:
            inner = e.args[0]
        if inner is not None:
            inner = _strip_casts(inner)
            if isinstance(inner, ast.Name):
                return inner.id
    return None


def _is_param_value(df: DataFlow, node_idx: int, e: ast.AST, param: str) -> bool:
    e = _strip_casts(_inline(df, node_idx, e))
    if isinstance(e, ast.Name) and e.id == param:
        # every reaching definition is the parameter itself or a cast of it
        for d in df.reaching(node_idx, param):
            if d.kind == "param":
                continue
            v = _strip_casts(d.value) if d.value is not None else None
            if not (isinstance(v, ast.Name) and v.id == param):
                return False
        return True
    return False


class _Guard:
    """The sum-equals-height test: isclose(sum(V), thickness) in either argument order."""

    def __init__(self, df: DataFlow, param: str):
        self.df, self.param = df, param

    def match(self, node_idx: int, e: ast.AST) -> Optional[str]:
        if isinstance(e, ast.Call) and last_attr(e) in CLOSE_FUNCS and len(e.args) >= 2:
            a, b = e.args[0], e.args[1]
            for x, y in ((a, b), (b, a)):
                v = _summed_name(self.df, node_idx, x)
                if v is not None and _is_param_value(self.df, node_idx, y, self.param):
                    return v
        return None


def _none_test(e: ast.AST, param: str) -> Optional[bool]:
    """`param is not None` -> True, `param is None` -> False, else None."""
    if isinstance(e, ast.Compare) and len(e.ops) == 1 and isinstance(e.left, ast.Name) and e.left.id == param and \
            isinstance(e.comparators[0], ast.Constant) and e.comparators[0].value is None:
        if isinstance(e.ops[0], (ast.IsNot, ast.NotEq)):
            return True
        if isinstance(e.ops[0], (ast.Is, ast.Eq)):
            return False
    return None


# ----------------------------------------------------------------------------------------- R-GUARD
def _check_guard(ctx, f: FuncInfo, param: str) -> None:
    rule = "R-GUARD"
    ctx.require(param in f.params, f"{f.qualname} lost its `{param}` parameter")
    df = DataFlow(f.node)
    cfg = df.cfg
    guard = _Guard(df, param)

    returns = [n for n in cfg.nodes if n.kind == "stmt" and isinstance(n.ast, ast.Return)]
    ctx.require(bool(returns), f"{f.qualname} has no return")

    # is there any recognisable guard at all?  If not: is some other test relating the two quantities
    # present (=> outside the analyser's language) or none (=> the property is simply unguarded)?
    guard_sites = []
    for n in cfg.nodes:
        if n.kind == "test":
            for c in ast.walk(n.ast.test):
                if guard.match(n.idx, c) is not None:
                    guard_sites.append(n)
    if not guard_sites:
        for n in cfg.nodes:
            if n.kind == "test":
                sl = df.backward_slice(n.idx, n.ast.test)
                names = {x.id for x in ast.walk(n.ast.test) if isinstance(x, ast.Name)}
                if param in names and any(last_attr(c) in SUM_FUNCS | CLOSE_FUNCS for c in ast.walk(n.ast.test)
                                          if isinstance(c, ast.Call)):
                    raise AnalysisError(f"{f.qualname}: the test `{norm_text(n.ast.test)[:80]}` relates a sum to "
                                        f"`{param}` in a form the analyser does not model")

    def assume(e: ast.AST, truth: bool, states: frozenset, node_idx: int) -> frozenset:
        """Refine the set of atomic states (tn, guarded-var) under `e == truth` (short-circuit aware)."""
        if isinstance(e, ast.UnaryOp) and isinstance(e.op, ast.Not):
            return assume(e.operand, not truth, states, node_idx)
        if isinstance(e, ast.BoolOp):
            is_and = isinstance(e.op, ast.And)
            if is_and == truth:  # all operands have value `truth`
                for v in e.values:
                    states = assume(v, truth, states, node_idx)
                return states
            out: set = set()
            cur = states
            for v in e.values:  # the first operand with value `truth`-deciding ends evaluation
                out |= assume(v, truth, cur, node_idx)
                cur = assume(v, not truth, cur, node_idx)
            return frozenset(out)
        nt = _none_test(e, param)
        if nt is not None:
            want_some = (nt == truth)
            out = set()
            for tn, g in states:
                if want_some and tn != "none":
                    out.add(("some", g))
                if not want_some and tn != "some":
                    out.add(("none", g))
            return frozenset(out)
        v = guard.match(node_idx, e)
        if v is not None and truth:
            return frozenset((tn, v) for tn, g in states)
        return states

    def transfer(node, state, label, succ):
        st = node.ast
        if node.kind == "test" and label in ("T", "F"):
            ns = assume(st.test, label == "T", state, node.idx)
            return ns if ns else None
        if node.kind in ("stmt", "loop", "with") and st is not None:
            killed = set()
            for di in df.node_defs.get(node.idx, []):
                d = df.defs[di]
                if d.var == param and d.kind != "param":
                    v = _strip_casts(d.value) if d.value is not None else None
                    if not (isinstance(v, ast.Name) and v.id == param):
                        raise AnalysisError(f"{f.qualname}: `{param}` is reassigned to something other than a cast "
                                            f"of itself ({norm_text(st)[:60]})")
                else:
                    killed.add(d.var)
            if killed:
                return frozenset((tn, None if g in killed else g) for tn, g in state)
        return state

    at = forward_states(cfg, frozenset({("?", None)}), transfer, max_states=256)
    for rn in returns:
        st = rn.ast
        rv = st.value
        rname = None
        if rv is not None:
            r = _strip_casts(rv)
            if isinstance(r, ast.Name):
                rname = r.id
        bad = []
        for S in at[rn.idx]:
            for tn, g in S:
                if tn != "none" and (g is None or g != rname):
                    bad.append((tn, g))
        construct = f"{f.qualname}:return {norm_text(rv) if rv is not None else 'None'}"
        if not at[rn.idx]:
            ctx.info(rule, construct, f.loc(st), "unreachable return")
            continue
        what = "no path" if not bad else (
            f"a path reaches this return with `{param}` " +
            ("given" if any(tn == "some" for tn, _ in bad) else "possibly given") +
            (" without passing the test isclose(sum(<returned value>), " + param + ")-or-raise"
             if all(g is None for _, g in bad) else
             f" after a sum test on `{[g for _, g in bad if g][0]}`, which is not the returned value `{rname}`"))
        ctx.check(not bad, rule, construct, f.loc(st),
                  f"every path on which `{param}` is given passes isclose(sum({rname}), {param}) or raises",
                  f"{what}: slice thicknesses that do not add up to the cell height are accepted",
                  key_detail="unguarded-return")


def _check_height_call(ctx, caller: FuncInfo, callee: FuncInfo, source_params: set[str]) -> None:
    rule = "R-GUARD"
    calls = [c for c in walk_no_nested(caller.node) if isinstance(c, ast.Call) and call_name(c) == callee.name]
    ctx.require(len(calls) == 1, f"{caller.qualname}: expected exactly one call of {callee.name}, found {len(calls)}")
    c = calls[0]
    b = bind_args(c, callee)
    arg = b.get("thickness")
    construct = f"{caller.qualname}:call {callee.name}"
    if arg is None or (isinstance(arg, ast.Constant) and arg.value is None):
        ctx.violation(rule, construct, caller.loc(c),
                      f"{norm_text(c)[:90]} does not pass the cell height as `thickness`, so the sum of the slice "
                      "thicknesses is never compared with it", key_detail="height-arg")
        return
    df = DataFlow(caller.node)
    node = df.cfg.node_of(_stmt_containing(caller.node, c))
    dep = Deps(df).deps(node.idx, arg)
    z_index = any(isinstance(s, ast.Subscript) and any(isinstance(k, ast.Constant) and k.value == 2
                                                      for k in ast.walk(s.slice)) for s in _expand(df, node.idx, arg))
    good = bool(dep.params & source_params) and z_index
    ctx.check(good, rule, construct, caller.loc(c),
              f"thickness={norm_text(arg)} is the z extent of {sorted(dep.params & source_params)}",
              f"the `thickness` argument {norm_text(arg)} is not the z component (index 2) of the cell/box the "
              f"object is built from (depends on {sorted(dep.roots())})", key_detail="height-arg")
    # the validated tuple must be what the object reports as its slice thickness
    st = _stmt_containing(caller.node, c)
    stored = isinstance(st, ast.Assign) and any(dotted(t) and dotted(t).startswith("self.") for t in st.targets)
    ctx.require(stored, f"{caller.qualname}: the validated slice thickness is not stored on the object")


def _expand(df: DataFlow, node_idx: int, e: ast.AST, _depth: int = 0) -> list[ast.AST]:
    """All sub-expressions of `e` with temporaries (single strong plain assignments) followed recursively."""
    out = []
    for n in ast.walk(e):
        out.append(n)
        if isinstance(n, ast.Name) and isinstance(n.ctx, ast.Load) and _depth < 6:
            d = df.single_def(node_idx, n.id)
            if d is not None and d.kind == "assign" and d.value is not None:
                out += _expand(df, d.node, d.value, _depth + 1)
    return out


def _stmt_containing(func: ast.AST, expr: ast.AST) -> ast.stmt:
    best = None
    for st in ast.walk(func):
        if isinstance(st, ast.stmt) and not isinstance(st, (ast.FunctionDef, ast.ClassDef, ast.If, ast.For, ast.While,
                                                            ast.With, ast.Try)):
            if any(n is expr for n in ast.walk(st)):
                best = st
    if best is None:
        raise AnalysisError("expression is not inside a simple statement")
    return best


# ----------------------------------------------------------------------------------------- R-ONELABEL
class _PropInliner:
    """Resolve `self.p` through single-return property getters and `len(self)` through `__len__`."""

    def __init__(self, cls):
        self.cls = cls

    def resolve_attr(self, name: str, depth: int = 0) -> Optional[ast.expr]:
        if depth > 6:
            return None
        f = self.cls.find_method(name, "getter")
        if f is None or not f.is_property:
            return None
        body = f.body
        if len(body) == 1 and isinstance(body[0], ast.Return) and body[0].value is not None:
            return body[0].value
        return None

    def expand(self, e: ast.AST, depth: int = 0) -> ast.AST:
        """Rewrite an expression with properties / len(self) inlined (bounded depth)."""
        outer = self

        class T(ast.NodeTransformer):
            def visit_Attribute(self, n):
                self.generic_visit(n)
                if isinstance(n.value, ast.Name) and n.value.id == "self" and depth < 6:
                    r = outer.resolve_attr(n.attr, depth)
                    if r is not None:
                        return outer.expand(r, depth + 1)
                return n

            def visit_Call(self, n):
                self.generic_visit(n)
                if call_name(n) == "len" and len(n.args) == 1 and isinstance(n.args[0], ast.Name) and \
                        n.args[0].id == "self" and depth < 6:
                    f = outer.cls.find_method("__len__", "getter")
                    if f is not None and len(f.body) == 1 and isinstance(f.body[0], ast.Return):
                        return outer.expand(f.body[0].value, depth + 1)
                return n

        import copy

        return T().visit(copy.deepcopy(e))


def _check_onelabel(ctx, repo) -> None:
    rule = "R-ONELABEL"
    cls = repo.cls(MOD, "SliceIndexedAtoms")
    init = repo.method(MOD, "SliceIndexedAtoms", "__init__")
    reader = repo.method(MOD, "SliceIndexedAtoms", "get_atoms_in_slices")
    df = DataFlow(init.node)
    inl = _PropInliner(cls)

    # the attribute the reader indexes by slice number
    idx_attrs = set()
    for n in walk_no_nested(reader.node):
        if isinstance(n, ast.Subscript) and dotted(n.value) and dotted(n.value).startswith("self._"):
            names = {x.id for x in ast.walk(n.slice) if isinstance(x, ast.Name)}
            if "first_slice" in names:
                idx_attrs.add(dotted(n.value))
    stores = []
    for st in walk_no_nested(init.node):
        if isinstance(st, ast.Assign):
            for t in st.targets:
                if dotted(t) in idx_attrs:
                    stores.append((st, dotted(t)))
    ctx.require(len(stores) == 1, f"{init.qualname}: expected one store of the per-slice index table read by "
                                  f"get_atoms_in_slices, found {len(stores)} (candidates {sorted(idx_attrs)})")
    st, attr = stores[0]
    node = df.cfg.node_of(st)
    dep = Deps(df).deps(node.idx, st.value)
    digit = [c for c in dep.calls if last_attr(c) in ("digitize", "searchsorted")]
    digit = list({id(c): c for c in digit}.values())
    lti = [c for c in dep.calls if last_attr(c) == "label_to_index"]
    lti = list({id(c): c for c in lti}.values())
    construct = f"{init.qualname}:{attr}"
    ctx.require(len(lti) == 1, f"{init.qualname}: {attr} is not built by exactly one label_to_index call")
    if not ctx.check(len(digit) == 1 and last_attr(digit[0]) == "digitize", rule, construct + ":one-binning",
                     init.loc(st), "slice labels come from exactly one np.digitize call",
                     f"{attr} is derived from {len(digit)} binning calls "
                     f"({', '.join(norm_text(c)[:50] for c in digit) or 'none'}): an atom can receive zero or several "
                     "slice labels", key_detail="one-binning"):
        return
    dg, lt = digit[0], lti[0]
    dnode = df.cfg.node_of(_stmt_containing(init.node, dg))
    lnode = df.cfg.node_of(_stmt_containing(init.node, lt))

    # (a) labels argument of label_to_index is the digitize result, unfiltered
    lti_f = repo.function("abtem.core.utils", "label_to_index")
    lb = bind_args(lt, lti_f)
    labels = _inline(df, lnode.idx, lb.get("labels")) if lb.get("labels") is not None else None
    for _ in range(4):  # value-preserving wrappers
        if isinstance(labels, ast.Call) and last_attr(labels) in ("astype", "copy", "ravel", "flatten") and \
                isinstance(labels.func, ast.Attribute):
            labels = _inline(df, lnode.idx, labels.func.value)
        elif isinstance(labels, ast.Call) and call_name(labels) in ("np.asarray", "np.array", "np.ascontiguousarray") \
                and labels.args:
            labels = _inline(df, lnode.idx, labels.args[0])
        elif isinstance(labels, ast.Call) and (call_name(labels) or "").split(".")[-1] in ("minimum", "clip", "fmin") \
                and labels.args:
            # clamping to the last slice keeps one label per atom (labels above the last edge -> last slice)
            labels = _inline(df, lnode.idx, labels.args[0])
    ctx.check(labels is dg, rule, construct + ":labels", init.loc(lt),
              "label_to_index receives the digitize result itself",
              f"label_to_index is applied to {norm_text(lb.get('labels')) if lb.get('labels') is not None else '?'}, "
              "not to the unmodified np.digitize labels", key_detail="labels")

    # (b) digitize over the z coordinate of *all* atoms
    x = _inline(df, dnode.idx, dg.args[0]) if dg.args else None
    ok_all = False
    why = "first argument not recognised"
    if isinstance(x, ast.Subscript) and isinstance(x.slice, ast.Tuple) and len(x.slice.elts) == 2:
        rows, col = x.slice.elts
        full = isinstance(rows, ast.Slice) and rows.lower is None and rows.upper is None and rows.step is None
        zcol = isinstance(col, ast.Constant) and col.value in (2, -1)
        base = inl.expand(x.value)
        if isinstance(base, ast.Call) and last_attr(base) == "get_positions" and isinstance(base.func, ast.Attribute) \
                and not base.args:
            src = (dotted(base.func.value) or "?") + ".positions"
        else:
            src = dotted(base)
        if src not in ("self._atoms.positions", "atoms.positions"):
            raise AnalysisError(f"{init.qualname}: np.digitize runs over `{norm_text(x)[:60]}`, which the analyser "
                                "cannot relate to the positions of the sliced atoms")
        ok_all = full and zcol
        why = (f"rows={'all' if full else norm_text(rows)}, column={norm_text(col)}, source={src}")
    elif isinstance(x, ast.Call) or isinstance(x, ast.Subscript):
        base = inl.expand(x)
        raise AnalysisError(f"{init.qualname}: digitize argument {norm_text(base)[:60]} is not of the form "
                            "positions[:, 2]")
    ctx.check(ok_all, rule, construct + ":all-atoms-z", init.loc(dg),
              "digitize runs over positions[:, 2] of every atom of the sliced Atoms",
              f"np.digitize does not run over the z coordinate of every atom ({why}): some atoms get no slice label "
              "or are binned along the wrong axis", key_detail="all-atoms-z")

    # (c) bin edges are the cumulative sum of the object's slice thicknesses
    bins = dg.args[1] if len(dg.args) > 1 else None
    ctx.require(bins is not None, "np.digitize called without bins")
    bdep = Deps(df).deps(dnode.idx, bins)
    cums = [c for c in bdep.calls if last_attr(c) in ("cumsum", "accumulate")]
    thick_src = False
    for c in cums:
        for n in ast.walk(inl.expand(c)):
            if dotted(n) == "self._slice_thickness":
                thick_src = True
    ctx.check(bool(cums) and thick_src, rule, construct + ":edges", init.loc(dg),
              "bin edges = cumulative sum of self.slice_thickness",
              f"the digitize bin edges {norm_text(bins)} are not a cumulative sum of the object's slice thicknesses "
              f"(cumsum calls: {len(cums)}, reads slice_thickness: {thick_src}): atoms are labelled with the wrong "
              "slice", key_detail="edges")

    # (d) label range: min_label 0 (default), max_label = number of slices - 1
    nz = Normalizer()
    n_slices = Poly.atom("NSLICES")

    def nslices_poly(e: ast.AST) -> Poly:
        e2 = inl.expand(_inline(df, lnode.idx, e))

        def hook(nzr, call):
            if call_name(call) == "len" and len(call.args) == 1 and dotted(call.args[0]) == "self._slice_thickness":
                return n_slices
            return None

        return Normalizer(call_hook=hook).norm(e2)

    maxl = lb.get("max_label")
    if maxl is None or (isinstance(maxl, ast.Constant) and maxl.value is None):
        ctx.violation(rule, construct + ":max-label", init.loc(lt),
                      "label_to_index is called without max_label: trailing empty slices are dropped and the table "
                      "has fewer entries than there are slices", key_detail="max-label")
    else:
        p = nslices_poly(maxl)
        ctx.check(p == n_slices - Poly.const(1), rule, construct + ":max-label", init.loc(lt),
                  "max_label = len(slice_thickness) - 1",
                  f"max_label normalises to {p.key()} instead of NSLICES - 1: the last slice(s) lose their atoms or "
                  "phantom slices are added", key_detail="max-label")
    minl = lb.get("min_label")
    if minl is not None:
        p = nslices_poly(minl)
        ctx.check(p == Poly.const(0), rule, construct + ":min-label", init.loc(lt), "min_label = 0",
                  f"min_label normalises to {p.key()} instead of 0: slice 0 loses its atoms", key_detail="min-label")

    # (e) the table keeps one entry per label, in label order
    v = st.value
    shape_ok, why = _identity_collection(v, lt)
    ctx.check(shape_ok, rule, construct + ":one-entry-per-slice", init.loc(st),
              "one index array per slice label, in order", why, key_detail="one-entry-per-slice")

    # (f) reader: a single slice reads exactly entry [first_slice]
    sub_ok = False
    for n in walk_no_nested(reader.node):
        if isinstance(n, ast.Subscript) and dotted(n.value) == attr and isinstance(n.slice, ast.Name) and \
                n.slice.id == "first_slice":
            sub_ok = True
    ctx.check(sub_ok, rule, f"{reader.qualname}:{attr}[first_slice]", reader.where,
              "slice k reads table entry k",
              f"get_atoms_in_slices never reads {attr}[first_slice]: slice k does not receive the atoms labelled k",
              key_detail="reader")


def _identity_collection(v: ast.AST, src: ast.Call):
    """`list(src)`, `tuple(src)`, `[x for x in src]` (no filter, identity / cast element)."""
    if isinstance(v, ast.Call) and call_name(v) in ("list", "tuple") and len(v.args) == 1 and v.args[0] is src:
        return True, ""
    if isinstance(v, (ast.ListComp, ast.GeneratorExp)) or (
            isinstance(v, ast.Call) and call_name(v) in ("list", "tuple") and len(v.args) == 1
            and isinstance(v.args[0], (ast.ListComp, ast.GeneratorExp))):
        comp = v if isinstance(v, (ast.ListComp, ast.GeneratorExp)) else v.args[0]
        if len(comp.generators) == 1 and comp.generators[0].iter is src and isinstance(comp.generators[0].target,
                                                                                       ast.Name):
            g = comp.generators[0]
            if g.ifs:
                return False, ("the comprehension filters entries (`if " + norm_text(g.ifs[0]) + "`): dropping a "
                               "slice's entry shifts every later slice index")
            elt = _strip_casts(comp.elt)
            if isinstance(elt, ast.Name) and elt.id == g.target.id:
                return True, ""
            return False, f"the comprehension stores {norm_text(comp.elt)} instead of the index array of each label"
    raise AnalysisError("the per-slice index table is not list(label_to_index(..)) or an identity comprehension")


# ----------------------------------------------------------------------------------------- R-HALFOPEN
def _check_halfopen(ctx, repo) -> None:
    rule = "R-HALFOPEN"
    f = repo.method(MOD, "SlicedAtoms", "get_atoms_in_slices")
    df = DataFlow(f.node)
    comps = []
    for st in walk_no_nested(f.node):
        if isinstance(st, ast.Compare) and len(st.ops) == 1 and isinstance(st.ops[0], (ast.Lt, ast.LtE, ast.Gt, ast.GtE)):
            sides = [st.left, st.comparators[0]]
            at = df.cfg.node_of(_stmt_containing(f.node, st)).idx
            zs = [any(dotted(n) and dotted(n).endswith("positions") for n in ast.walk(_inline(df, at, s)))
                  for s in sides]
            if zs[0] != zs[1]:
                comps.append((st, zs[0]))
    ctx.require(len(comps) == 2, f"{f.qualname}: expected two comparisons of the z coordinate with the slice limits, "
                                 f"found {len(comps)}")
    kinds = {}
    for cmp_, z_left in comps:
        op = cmp_.ops[0]
        other = cmp_.comparators[0] if z_left else cmp_.left
        # normalise to  z OP limit
        sym = {ast.Lt: "<", ast.LtE: "<=", ast.Gt: ">", ast.GtE: ">="}[type(op)]
        if not z_left:
            sym = {"<": ">", "<=": ">=", ">": "<", ">=": "<="}[sym]
        node = df.cfg.node_of(_stmt_containing(f.node, cmp_))
        dep = Deps(df).deps(node.idx, other)
        # which limit is it?  entrance ([..][0]) of first_slice or exit ([..][1]) of last_slice
        which = None
        for s in _expand(df, node.idx, other):
            if isinstance(s, ast.Subscript) and isinstance(s.slice, ast.Constant) and s.slice.value in (0, 1) and \
                    isinstance(s.value, ast.Subscript) and "slice_limits" in norm_text(s.value):
                which = "lower" if s.slice.value == 0 else "upper"
        if which is None:
            raise AnalysisError(f"{f.qualname}: cannot tell which slice limit {norm_text(other)} is")
        kinds[which] = (sym, cmp_, dep)
    ctx.require(set(kinds) == {"lower", "upper"}, f"{f.qualname}: lower/upper limit comparisons not both found")
    lo, hi = kinds["lower"][0], kinds["upper"][0]
    ctx.check(lo == ">=" and hi == "<", rule, f"{f.qualname}:membership", f.loc(kinds["lower"][1]),
              "z >= entrance and z < exit (half-open: a boundary atom belongs to the upper slice only)",
              f"slice membership is `z {lo} entrance and z {hi} exit`: with zero padding an atom on a slice boundary is "
              + ("counted in two slices" if (lo == ">=" and hi == "<=") else
                 "counted in no slice" if (lo == ">" and hi == "<") else
                 "assigned to the lower slice" if (lo == ">" and hi == "<=") else "misassigned"),
              key_detail="membership")
    ctx.check(kinds["lower"][2].depends_on("first_slice") and kinds["upper"][2].depends_on("last_slice"), rule,
              f"{f.qualname}:limits", f.loc(kinds["upper"][1]),
              "entrance limit from first_slice, exit limit from last_slice",
              "the entrance/exit limits are not taken from first_slice/last_slice respectively",
              key_detail="limits")


# ----------------------------------------------------------------------------------------- run
def run(ctx) -> None:
    repo = ctx.repo
    ctx.rule("R-GUARD", "every return of _validate_slice_thickness reached with `thickness` given is preceded on "
             "every path by the test isclose(sum(<the returned tuple>), thickness) whose failing outcome raises "
             "(path-sensitive typestate over the CFG, short-circuit aware); the slicers pass the z extent of "
             "their cell/box as `thickness`")
    ctx.rule("R-ONELABEL", "SliceIndexedAtoms' per-slice index table is built from exactly one np.digitize over "
             "positions[:, 2] of every atom, with bin edges = cumsum(slice_thickness), passed unmodified to "
             "label_to_index with min_label 0 and max_label = len(slice_thickness) - 1 (term normal form through "
             "__len__/num_slices/slice_thickness), stored one entry per label without filtering, and entry k is "
             "what slice k reads")
    ctx.rule("R-HALFOPEN", "SlicedAtoms.get_atoms_in_slices selects z >= entrance(first_slice) and z < "
             "exit(last_slice): half-open membership, so that with zero padding every atom is in exactly one slice "
             "and a boundary atom belongs to the upper one")
    ctx.undecided("additivity of the potential over unions of atom sets (numerical)")
    ctx.undecided("independence of the projected potential from the slice thicknesses (numerical)")
    ctx.undecided("the boundary tie-break of SliceIndexedAtoms (sign of the 1e-12 nudge on the bin edges): a literal, "
                  "deliberately not armed")
    ctx.undecided("atoms with z >= cell height (digitize label == number of slices) are outside every slice; "
                  "_prepare_atoms wraps and snaps them, which is not checked here")

    vst = repo.function(MOD, "_validate_slice_thickness")
    _check_guard(ctx, vst, "thickness")
    _check_height_call(ctx, repo.method(MOD, "BaseSlicedAtoms", "__init__"), vst, {"atoms"})
    _check_height_call(ctx, repo.method("abtem.potentials.iam", "_FieldBuilder", "__init__"), vst, {"box", "cell"})
    _check_onelabel(ctx, repo)
    _check_halfopen(ctx, repo)


# ---- added after the seeded change C09-seed4: accumulation rule for the delta superposition
_inner_run_c09 = run


def run(ctx) -> None:  # noqa: F811
    import ast as _ast

    from ..model import call_name as _cn, norm_text as _nt, walk_no_nested as _walk

    ctx.rule("R-ACCUMULATE", "superpose_deltas adds every atom's weights into the output with an *accumulating* scatter "
             "(ufunc.at, scatter_add or bincount): an augmented fancy-index assignment `array[i, j] += v` with index "
             "arrays writes each repeated pixel once, so two atoms of one species falling on the same pixels in one "
             "slice lose weight and the potential of a union is not the sum of the potentials")
    f = ctx.repo.function("abtem.integrals", "superpose_deltas")
    target = f.positional_params[1] if len(f.positional_params) > 1 else "array"
    sinks = 0
    for st in _walk(f.node):
        if isinstance(st, _ast.AugAssign) and isinstance(st.target, _ast.Subscript) and \
                isinstance(st.target.value, _ast.Name) and st.target.value.id == target:
            idx = st.target.slice
            elts = idx.elts if isinstance(idx, _ast.Tuple) else [idx]
            fancy = [e for e in elts if not isinstance(e, (_ast.Slice, _ast.Constant))]
            if fancy:
                sinks += 1
                ctx.violation("R-ACCUMULATE", f"{f.qualname}:{_nt(st.target)}", f.loc(st),
                              f"`{_nt(st)[:70]}` is a buffered fancy-index update: repeated indices are written once, "
                              "not summed", key_detail="fancy-aug")
        if isinstance(st, _ast.Expr) and isinstance(st.value, _ast.Call):
            c = st.value
            name = _cn(c) or ""
            if (name.endswith(".add.at") or name.endswith("scatter_add")) and c.args and \
                    isinstance(c.args[0], _ast.Name) and c.args[0].id == target:
                sinks += 1
                ctx.ok("R-ACCUMULATE", f"{f.qualname}:{name}", f.loc(c), "accumulating scatter")
        if isinstance(st, _ast.AugAssign) and isinstance(st.target, _ast.Name) and st.target.id == target and any(
                isinstance(c, _ast.Call) and (_cn(c) or "").endswith("bincount") for c in _ast.walk(st.value)):
            sinks += 1
            ctx.ok("R-ACCUMULATE", f"{f.qualname}:bincount", f.loc(st), "accumulating bincount")
    ctx.require(sinks >= 1, "superpose_deltas: no write into the output array recognised")
    _inner_run_c09(ctx)


# ---- added after the seeded change C09-r3seed1: the two tolerances of the slice assignment agree
_inner_run_c09b = run


def run(ctx) -> None:  # noqa: F811
    import ast as _ast

    from ..model import AnalysisError as _AE, dotted as _dotted, fold_constant as _fold, norm_text as _nt, \
        walk_no_nested as _walk

    ctx.rule("R-TOLERANCES", "writer/reader agreement of two tolerances: SliceIndexedAtoms nudges its bin edges down by a "
             "tolerance t so that an atom exactly on an edge goes to the upper slice, and _FieldBuilderFromAtoms."
             "_prepare_atoms snaps atoms within s of the cell top back to z = 0 because those would fall above the last "
             "(nudged) edge.  Every atom is assigned to exactly one slice only if the nudge is a constant that does not "
             "exceed the snap (t <= s): a nudge that grows with the edge index exceeds s for enough slices, and atoms "
             "between cell_z - t_n and cell_z - s are then neither snapped nor binned — they vanish from the potential")
    repo = ctx.repo
    init = repo.method("abtem.slicing", "SliceIndexedAtoms", "__init__")
    nudges = [st for st in _walk(init.node) if isinstance(st, _ast.AugAssign) and isinstance(st.op, (_ast.Sub, _ast.Add))
              and "edge" in (_dotted(st.target) or "")]
    ctx.require(len(nudges) == 1, f"{init.qualname}: expected one in-place nudge of the bin edges, found {len(nudges)}")
    prep = repo.method("abtem.potentials.iam", "_FieldBuilderFromAtoms", "_prepare_atoms")
    from ..model import ordered_compare as _oc

    snaps = []  # comparisons `<height> - <constant> < z` in either orientation: (comparison, the constant)
    for c in _walk(prep.node):
        o = _oc(c)
        if o is not None and isinstance(o[0], _ast.BinOp) and isinstance(o[0].op, _ast.Sub):
            try:
                snaps.append((c, float(_fold(o[0].right, {}))))
            except Exception:  # noqa: BLE001
                pass
    ctx.require(len(snaps) == 1, f"{prep.qualname}: the snap `z > cell_z - s` was not found")
    s_val = snaps[0][1]
    try:
        t_val = float(_fold(nudges[0].value, {}))
        if isinstance(nudges[0].op, _ast.Add):
            t_val = -t_val
    except Exception:  # noqa: BLE001
        t_val = None
    ctx.check(t_val is not None and 0 <= t_val <= s_val, "R-TOLERANCES", f"{init.qualname}:nudge <= snap", init.loc(nudges[0]),
              f"edges nudged down by the constant {t_val} <= snap {s_val}",
              (f"the bin edges are nudged by `{_nt(nudges[0].value)[:60]}`, which is not a constant: it grows with the "
               f"number of slices and exceeds the snap tolerance {s_val} of _prepare_atoms, so atoms just below the cell "
               "top are neither wrapped to z = 0 nor inside any bin") if t_val is None else
              f"the nudge {t_val} is larger than the snap tolerance {s_val} (or negative): atoms between the two are lost",
              key_detail="tolerances")
    _inner_run_c09b(ctx)


# ---- added: atoms above the last bin edge (found on the tree: thickness sum short of the cell height)
_inner_run_c09c = run


def run(ctx) -> None:  # noqa: F811
    import ast as _ast

    from ..cfg import DataFlow as _DF
    from ..model import call_name as _cn, dotted as _dotted, norm_text as _nt, walk_no_nested as _walk

    ctx.rule("R-COVERTOP", "_validate_slice_thickness accepts a thickness sequence whose sum equals the cell height only "
             "up to np.isclose; SliceIndexedAtoms bins z with np.digitize over the cumulative thicknesses and builds its "
             "index table for labels 0 .. n-1.  An atom with z at or above the last edge gets label n: unless the labels "
             "are clamped to the last slice (np.minimum / clip) or the last edge is replaced by the cell height / +inf, "
             "such an atom belongs to no slice and is missing from the potential")
    repo = ctx.repo
    init = repo.method("abtem.slicing", "SliceIndexedAtoms", "__init__")
    df = _DF(init.node)
    dig = [c for c in _walk(init.node) if isinstance(c, _ast.Call) and (_cn(c) or "").split(".")[-1] == "digitize"]
    ctx.require(len(dig) == 1, f"{init.qualname}: expected one np.digitize")
    st = next(s_ for s_ in _walk(init.node) if isinstance(s_, _ast.stmt) and any(x is dig[0] for x in _ast.walk(s_))
              and not isinstance(s_, (_ast.If, _ast.For, _ast.With, _ast.Try, _ast.FunctionDef)))
    # (a) clamped labels: the digitize result passes through minimum/clip before label_to_index
    users = [c for c in _walk(init.node) if isinstance(c, _ast.Call) and (_cn(c) or "").split(".")[-1] == "label_to_index"]
    ctx.require(len(users) == 1 and users[0].args, f"{init.qualname}: label_to_index call not found")
    ust = next(s_ for s_ in _walk(init.node) if isinstance(s_, _ast.stmt) and any(x is users[0] for x in _ast.walk(s_))
               and not isinstance(s_, (_ast.If, _ast.For, _ast.With, _ast.Try, _ast.FunctionDef)))
    sl = df.backward_slice(df.cfg.node_of(ust).idx, users[0].args[0])
    chain = [df.cfg.nodes[n_].ast for n_ in sl.def_nodes if df.cfg.nodes[n_].ast is not None] + [ust]
    clamped = any(isinstance(c, _ast.Call) and (_cn(c) or "").split(".")[-1] in ("minimum", "clip", "fmin")
                  for s_ in chain for c in _ast.walk(s_))
    # (b) last edge opened: bin_edges[-1] = <cell height / inf>
    opened = any(isinstance(s_, _ast.Assign) and isinstance(s_.targets[0], _ast.Subscript) and
                 _nt(s_.targets[0].slice) == "-1" and "edge" in (_dotted(s_.targets[0].value) or "")
                 for s_ in _walk(init.node))
    ctx.check(clamped or opened, "R-COVERTOP", f"{init.qualname}:atoms above the last edge", init.loc(dig[0]),
              "labels are clamped to the last slice" if clamped else "the last edge is opened",
              f"`{_nt(st)[:70]}` labels atoms at or above the last cumulative thickness with n, and the index table only "
              "keeps labels 0..n-1: with a thickness sequence that sums to the cell height only within the np.isclose "
              "tolerance of _validate_slice_thickness, an atom in the gap below the cell top is in no slice",
              key_detail="covertop")
    _inner_run_c09c(ctx)


# ---- added after the mutation sweep: the z padding of SlicedAtoms only widens the membership interval
_inner_run_c09d = run


def run(ctx) -> None:  # noqa: F811
    import ast as _ast

    from ..cfg import DataFlow as _DF
    from ..model import dotted as _dotted, norm_text as _nt, walk_no_nested as _walk
    from ..terms import FlowNormalizer as _FN, Poly as _Poly

    ctx.rule("R-PADSIGN", "SlicedAtoms.get_atoms_in_slices compares z with (entrance + r_lo) and (exit + r_hi), where "
             "entrance/exit are the slice limits and r_lo, r_hi the remaining terms (the z padding of a finite "
             "projection): r_lo == -r_hi and r_hi has positive coefficients only, i.e. the padding widens the interval "
             "symmetrically.  A lower limit entrance + padding excludes the atoms in [entrance, entrance + padding) "
             "from their own slice: they belong to no slice with their core, and the potential is not conserved")
    from ..rules import deferred as _deferred

    def new():
        f = ctx.repo.method(MOD, "SlicedAtoms", "get_atoms_in_slices")
        df = _DF(f.node)
        rem = {}
        site = {}
        for c in _walk(f.node):
            if not (isinstance(c, _ast.Compare) and len(c.ops) == 1 and isinstance(c.ops[0], (_ast.Lt, _ast.LtE, _ast.Gt, _ast.GtE))):
                continue
            at = df.cfg.node_of(_stmt_containing(f.node, c)).idx
            sides = [c.left, c.comparators[0]]
            zs = [any(_dotted(n) and _dotted(n).endswith("positions") for n in _ast.walk(_inline(df, at, s))) for s in sides]
            if zs[0] == zs[1]:
                continue
            other = sides[1] if zs[0] else sides[0]
            p = _FN(df, at).norm(other)
            lim = _Poly({m: v for m, v in p.terms.items() if any("slice_limits" in a for a, _ in m)})
            r = p - lim
            if not lim.is_monomial():
                raise AnalysisError(f"{f.qualname}: limit `{_nt(other)[:50]}` is not one slice limit plus a remainder")
            (mono, coef), = lim.terms.items()
            names = [a for a, _ in mono if "slice_limits" in a]
            if coef != 1 or len(mono) != 1 or not names[0].endswith(("[0]", "[1]")):
                raise AnalysisError(f"{f.qualname}: cannot tell which slice limit `{_nt(other)[:50]}` is")
            which = "lower" if names[0].endswith("[0]") else "upper"
            rem[which], site[which] = r, c
        ctx.require(set(rem) == {"lower", "upper"}, f"{f.qualname}: the two comparisons of z with the slice limits were not found")
        lo, hi = rem["lower"], rem["upper"]
        ok = lo == -hi and all(v > 0 for v in hi.terms.values())
        ctx.check(ok, "R-PADSIGN", f"{f.qualname}:padding widens the interval", f.loc(site["lower"]),
                  f"z in [entrance - ({hi.key()}), exit + ({hi.key()}))",
                  f"z is compared with entrance + ({lo.key()}) and exit + ({hi.key()}): the padding does not widen the interval "
                  "on both sides, so atoms within the padding distance of a slice face are missing from the slice they lie in",
                  key_detail="padsign")

    _deferred.run(ctx, new, _inner_run_c09d)


# ---- added after the mutation sweep: the species classes partition the atoms
_inner_run_c09e = run


def run(ctx) -> None:  # noqa: F811
    import ast as _ast

    from ..model import dotted as _dotted, norm_text as _nt, walk_no_nested as _walk
    from ..rules import deferred as _deferred

    ctx.rule("R-SPECIESMASK", "the integrators build the potential species by species: inside `for Z in "
             "np.unique(X.numbers)` the atoms of a pass are selected by a comparison of X.numbers with Z, and the slicers "
             "filter by `atomic_number` in the same way.  The classes partition the atoms — every atom contributes exactly "
             "once, with the scattering factor of its own species — iff that comparison is an equality; `!=` puts an atom "
             "into every class but its own, so the potential of a union of species is not the sum of their potentials")

    def new():
        n = 0
        repo = ctx.repo
        funcs = [f for f in repo.all_functions() if f.module.name in ("abtem.integrals", "abtem.slicing")]
        for f in funcs:
            k = 0
            for lp in _walk(f.node):
                keys: set[str] = set()
                scope = None
                if isinstance(lp, _ast.For) and isinstance(lp.target, _ast.Name) and isinstance(lp.iter, _ast.Call) and \
                        (_dotted(lp.iter.func) or "").split(".")[-1] == "unique" and lp.iter.args and \
                        (_dotted(lp.iter.args[0]) or "").endswith(".numbers"):
                    keys, scope, src = {lp.target.id}, lp, _dotted(lp.iter.args[0])
                elif lp is f.node and "atomic_number" in f.params and f.module.name == "abtem.slicing":
                    keys, scope, src = {"atomic_number"}, f.node, None
                if scope is None:
                    continue
                for c in _ast.walk(scope):
                    if not (isinstance(c, _ast.Compare) and len(c.ops) == 1):
                        continue
                    sides = [c.left, c.comparators[0]]
                    names = [s.id if isinstance(s, _ast.Name) else None for s in sides]
                    nums = [(_dotted(s) or "").endswith(".numbers") for s in sides]
                    if not ((names[0] in keys and nums[1]) or (names[1] in keys and nums[0])):
                        continue
                    k += 1
                    n += 1
                    ctx.check(isinstance(c.ops[0], _ast.Eq), "R-SPECIESMASK", f"{f.qualname}:species selection #{k}", f.loc(c),
                              f"`{_nt(c)}` selects the atoms of one species",
                              f"`{_nt(c)}` does not select the atoms *of* the species: every atom is put into the classes of "
                              "the other species (or dropped when there is only one), so contributions are counted with the "
                              "wrong scattering factor and the potential of a union is not the sum of the potentials",
                              key_detail="mask")
        ctx.require(n >= 4, f"R-SPECIESMASK found only {n} species selections")

    _deferred.run(ctx, new, _inner_run_c09e)
