"""C22 — Cartesian and polar aberration conversions describe the same aberration (abtem/transfer.py).

R-HARMONIC: abstract interpretation in the domain of first harmonics.  Every Cartesian component
written by polar2cartesian is folded to   s * C * cos(c*phi0 + delta)   (sin x = cos(x - pi/2);
closed constant sub-expressions are folded numerically with a whitelisted evaluator), i.e. to the
vector (p, q) with  component = C*(p*cos(m phi0) + q*sin(m phi0)).  Every polar value written by
cartesian2polar is folded to  sigma*sqrt(X^2+Y^2)  or  tau*arctan2(U, V)/m'.  The round trip
reproduces  C*cos(m*(phi - phi0))  for every phi iff
      m' = m,   sigma*V = (1, 0),   sigma*tau*U = (0, 1),   {X, Y} = {U, V}.
"""
from __future__ import annotations

import ast
import math
from dataclasses import dataclass
from typing import Optional

from ..model import AnalysisError, dotted, last_attr, norm_text, walk_no_nested

MOD = "abtem.transfer"
TOL = 1e-9
_CONST_FUNCS = {"sqrt": math.sqrt, "arctan": math.atan, "atan": math.atan, "cos": math.cos, "sin": math.sin,
                "tan": math.tan, "arcsin": math.asin, "arccos": math.acos, "exp": math.exp, "abs": abs,
                "deg2rad": math.radians, "radians": math.radians, "float": float}


# ------------------------------------------------------------------ forward value domain
@dataclass
class Lin:
    """c0 + sum coef[sym] * sym   (sym: keys read from the input mapping)."""
    c0: float
    coef: dict

    def is_const(self):
        return not self.coef


@dataclass
class Mono:
    """scale * prod(amps) * prod cos(c*phase + delta)."""
    scale: float
    amps: tuple
    trigs: tuple  # (phase symbol, c, delta)


def _lin(x) -> Optional[Lin]:
    return x if isinstance(x, Lin) else None


def _as_mono(x) -> Mono:
    if isinstance(x, Mono):
        return x
    if isinstance(x, Lin):
        if x.is_const():
            return Mono(x.c0, (), ())
        if abs(x.c0) < TOL and len(x.coef) == 1:
            (s, c), = x.coef.items()
            return Mono(c, (s,), ())
    raise AnalysisError("conversion: a sum of coefficients is used as a factor (shape not modelled)")


class Forward:
    """Evaluator for the straight-line body of a conversion function."""

    def __init__(self, fname: str, in_names: set[str]):
        self.fname = fname
        self.in_names = in_names  # names under which the input mapping is visible
        self.env: dict[str, object] = {}
        self.reads: set[str] = set()

    def ev(self, n: ast.expr):
        if isinstance(n, ast.Constant) and isinstance(n.value, (int, float)) and not isinstance(n.value, bool):
            return Lin(float(n.value), {})
        if isinstance(n, ast.Name):
            if n.id in self.env:
                return self.env[n.id]
            raise AnalysisError(f"{self.fname}: name `{n.id}` has no straight-line definition")
        if isinstance(n, ast.Attribute):
            if dotted(n) in ("np.pi", "math.pi", "numpy.pi", "xp.pi"):
                return Lin(math.pi, {})
            raise AnalysisError(f"{self.fname}: unsupported attribute `{norm_text(n)}`")
        if isinstance(n, ast.Subscript) and isinstance(n.value, ast.Name) and n.value.id in self.in_names:
            if isinstance(n.slice, ast.Constant) and isinstance(n.slice.value, str):
                self.reads.add(n.slice.value)
                return Lin(0.0, {n.slice.value: 1.0})
            raise AnalysisError(f"{self.fname}: input mapping indexed with a non-literal key")
        if isinstance(n, ast.UnaryOp) and isinstance(n.op, (ast.USub, ast.UAdd)):
            v = self.ev(n.operand)
            return v if isinstance(n.op, ast.UAdd) else self.scale(v, -1.0)
        if isinstance(n, ast.BinOp):
            a, b = self.ev(n.left), self.ev(n.right)
            if isinstance(n.op, (ast.Add, ast.Sub)):
                la, lb = _lin(a), _lin(b)
                if la is None or lb is None:
                    raise AnalysisError(f"{self.fname}: sum of harmonic terms `{norm_text(n)[:60]}` is not modelled")
                sg = 1.0 if isinstance(n.op, ast.Add) else -1.0
                coef = dict(la.coef)
                for k, v in lb.coef.items():
                    coef[k] = coef.get(k, 0.0) + sg * v
                return Lin(la.c0 + sg * lb.c0, {k: v for k, v in coef.items() if abs(v) > TOL})
            if isinstance(n.op, ast.Mult):
                la, lb = _lin(a), _lin(b)
                if la is not None and la.is_const():
                    return self.scale(b, la.c0)
                if lb is not None and lb.is_const():
                    return self.scale(a, lb.c0)
                ma, mb = _as_mono(a), _as_mono(b)
                return Mono(ma.scale * mb.scale, tuple(sorted(ma.amps + mb.amps)), ma.trigs + mb.trigs)
            if isinstance(n.op, ast.Div):
                lb = _lin(b)
                if lb is None or not lb.is_const() or abs(lb.c0) < TOL:
                    raise AnalysisError(f"{self.fname}: division by a non-constant `{norm_text(n.right)[:40]}`")
                return self.scale(a, 1.0 / lb.c0)
            if isinstance(n.op, ast.Pow):
                la, lb = _lin(a), _lin(b)
                if la is not None and lb is not None and la.is_const() and lb.is_const():
                    return Lin(la.c0 ** lb.c0, {})
                raise AnalysisError(f"{self.fname}: power of a non-constant `{norm_text(n)[:40]}`")
        if isinstance(n, ast.Call) and len(n.args) == 1 and not n.keywords:
            fn = last_attr(n)
            a = self.ev(n.args[0])
            la = _lin(a)
            if la is not None and la.is_const() and fn in _CONST_FUNCS:
                return Lin(float(_CONST_FUNCS[fn](la.c0)), {})
            if fn in ("cos", "sin") and la is not None:
                if len(la.coef) != 1:
                    raise AnalysisError(f"{self.fname}: trigonometric argument `{norm_text(n.args[0])[:50]}` does not "
                                        "depend on exactly one angle")
                (sym, c), = la.coef.items()
                delta = la.c0 - (math.pi / 2 if fn == "sin" else 0.0)
                return Mono(1.0, (), ((sym, c, delta),))
            if fn in ("float", "asarray", "array"):
                return a
        raise AnalysisError(f"{self.fname}: expression `{norm_text(n)[:70]}` is outside the harmonic domain")

    @staticmethod
    def scale(v, k: float):
        if isinstance(v, Lin):
            return Lin(v.c0 * k, {s: c * k for s, c in v.coef.items()})
        return Mono(v.scale * k, v.amps, v.trigs)


# ------------------------------------------------------------------ inverse value domain
@dataclass
class Inv:
    kind: str  # id | mag | ang
    scale: float
    keys: tuple  # id: (k,)  mag: (x, y) unordered  ang: (u, v) ordered


class Backward:
    def __init__(self, fname: str, in_names: set[str]):
        self.fname = fname
        self.in_names = in_names
        self.env: dict[str, object] = {}
        self.reads: set[str] = set()

    def _read(self, n: ast.expr) -> Optional[str]:
        if isinstance(n, ast.Name) and isinstance(self.env.get(n.id), Inv) and self.env[n.id].kind == "id" and \
                abs(self.env[n.id].scale - 1.0) < TOL:
            return self.env[n.id].keys[0]
        if isinstance(n, ast.Subscript) and isinstance(n.value, ast.Name) and n.value.id in self.in_names and \
                isinstance(n.slice, ast.Constant) and isinstance(n.slice.value, str):
            self.reads.add(n.slice.value)
            return n.slice.value
        return None

    def _const(self, n: ast.expr) -> Optional[float]:
        try:
            v = Forward(self.fname, set())
            v.env = {k: x for k, x in self.env.items() if isinstance(x, Lin)}
            r = v.ev(n)
        except AnalysisError:
            return None
        return r.c0 if isinstance(r, Lin) and r.is_const() else None

    def _square_of(self, n: ast.expr) -> Optional[str]:
        if isinstance(n, ast.BinOp) and isinstance(n.op, ast.Pow) and self._const(n.right) == 2.0:
            return self._read(n.left)
        if isinstance(n, ast.BinOp) and isinstance(n.op, ast.Mult):
            a, b = self._read(n.left), self._read(n.right)
            return a if a is not None and a == b else None
        if isinstance(n, ast.Call) and last_attr(n) == "square" and len(n.args) == 1:
            return self._read(n.args[0])
        return None

    def ev(self, n: ast.expr) -> Inv:
        c = self._const(n)
        if c is not None:
            return Inv("const", c, ())
        k = self._read(n)
        if k is not None:
            return Inv("id", 1.0, (k,))
        if isinstance(n, ast.Name) and isinstance(self.env.get(n.id), Inv):
            return self.env[n.id]
        if isinstance(n, ast.UnaryOp) and isinstance(n.op, (ast.USub, ast.UAdd)):
            v = self.ev(n.operand)
            return v if isinstance(n.op, ast.UAdd) else Inv(v.kind, -v.scale, v.keys)
        if isinstance(n, ast.BinOp) and isinstance(n.op, (ast.Mult, ast.Div)):
            cl, cr = self._const(n.left), self._const(n.right)
            if isinstance(n.op, ast.Mult) and cl is not None:
                v = self.ev(n.right)
                return Inv(v.kind, v.scale * cl, v.keys)
            if cr is not None and abs(cr) > TOL:
                v = self.ev(n.left)
                return Inv(v.kind, v.scale * cr if isinstance(n.op, ast.Mult) else v.scale / cr, v.keys)
        if isinstance(n, ast.Call) and not n.keywords:
            fn = last_attr(n)
            if fn == "sqrt" and len(n.args) == 1:
                a = n.args[0]
                if isinstance(a, ast.BinOp) and isinstance(a.op, ast.Add):
                    x, y = self._square_of(a.left), self._square_of(a.right)
                    if x is not None and y is not None:
                        return Inv("mag", 1.0, (x, y))
            if fn == "hypot" and len(n.args) == 2:
                x, y = self._read(n.args[0]), self._read(n.args[1])
                if x is not None and y is not None:
                    return Inv("mag", 1.0, (x, y))
            if fn == "copysign" and len(n.args) == 2:
                # a signed magnitude: |.| carrying the sign of one input key
                m_, sk = self.ev(n.args[0]), self._read(n.args[1])
                if m_.kind == "mag" and sk is not None:
                    return Inv("smag", m_.scale, m_.keys + (sk,))
            if fn in ("arctan2", "atan2") and len(n.args) == 2:
                u, v = self._read(n.args[0]), self._read(n.args[1])
                if u is not None and v is not None:
                    return Inv("ang", 1.0, (u, v))
            if fn in ("float", "asarray", "array") and len(n.args) == 1:
                return self.ev(n.args[0])
        raise AnalysisError(f"{self.fname}: expression `{norm_text(n)[:70]}` is outside the magnitude/angle domain")


# ------------------------------------------------------------------ driver
class _Desugar(ast.NodeTransformer):
    """Semantics-preserving rewriting of a conversion function into the straight-line form the evaluators read:
       * `for v in (<constant tuple>): body` is unrolled with v replaced by each constant, and "C" + "12", int("2"),
         "12"[1] are folded;
       * local dicts created empty (`d = {}` / `a, b = {}, {}`) and used with constant string keys become one local
         per key (d["12"] -> d__12);
       * `<input>.get(K, 0)` is `<input>[K]` (missing coefficients count as zero, like the defaultdict form);
       * `K in <input>` is left as a branch on the input, which the driver evaluates both ways."""

    def __init__(self, in_name: str):
        self.in_name = in_name
        self.local_dicts: set[str] = set()

    # ---- folding helpers
    @staticmethod
    def _fold(e: ast.expr) -> ast.expr:
        if isinstance(e, ast.BinOp) and isinstance(e.op, ast.Add) and isinstance(e.left, ast.Constant) and \
                isinstance(e.right, ast.Constant) and isinstance(e.left.value, str) and isinstance(e.right.value, str):
            return ast.copy_location(ast.Constant(value=e.left.value + e.right.value), e)
        if isinstance(e, ast.Subscript) and isinstance(e.value, ast.Constant) and isinstance(e.value.value, str) and \
                isinstance(e.slice, ast.Constant) and isinstance(e.slice.value, int):
            try:
                return ast.copy_location(ast.Constant(value=e.value.value[e.slice.value]), e)
            except IndexError:
                return e
        if isinstance(e, ast.Call) and isinstance(e.func, ast.Name) and e.func.id in ("int", "float") and \
                len(e.args) == 1 and isinstance(e.args[0], ast.Constant) and isinstance(e.args[0].value, (str, int, float)):
            try:
                return ast.copy_location(ast.Constant(value={"int": int, "float": float}[e.func.id](e.args[0].value)), e)
            except ValueError:
                return e
        if isinstance(e, ast.JoinedStr) and all(isinstance(v, ast.Constant) or (
                isinstance(v, ast.FormattedValue) and isinstance(v.value, ast.Constant)) for v in e.values):
            txt = "".join(str(v.value if isinstance(v, ast.Constant) else v.value.value) for v in e.values)
            return ast.copy_location(ast.Constant(value=txt), e)
        return e

    def generic_visit(self, node):
        node = super().generic_visit(node)
        return self._fold(node) if isinstance(node, ast.expr) else node

    def visit_For(self, node: ast.For):
        it = node.iter
        if isinstance(it, (ast.Tuple, ast.List)) and all(isinstance(e, ast.Constant) for e in it.elts) and \
                isinstance(node.target, ast.Name) and not node.orelse:
            out = []
            for c in it.elts:
                class Sub(ast.NodeTransformer):
                    def visit_Name(s, n):
                        if n.id == node.target.id and isinstance(n.ctx, ast.Load):
                            return ast.copy_location(ast.Constant(value=c.value), n)
                        return n
                import copy as _copy
                for st in node.body:
                    st2 = Sub().visit(_copy.deepcopy(st))
                    r = self.visit(st2)
                    out += r if isinstance(r, list) else [r]
            return out
        return self.generic_visit(node)

    def visit_Assign(self, node: ast.Assign):
        # a, b = {}, {}   /   d = {} / d = dict()
        def empty_dict(v):
            return (isinstance(v, ast.Dict) and not v.keys) or (isinstance(v, ast.Call) and isinstance(v.func, ast.Name)
                                                                and v.func.id == "dict" and not v.args and not v.keywords)
        t = node.targets[0]
        if len(node.targets) == 1 and isinstance(t, ast.Tuple) and isinstance(node.value, ast.Tuple) and \
                len(t.elts) == len(node.value.elts) and all(isinstance(x, ast.Name) for x in t.elts) and \
                all(empty_dict(v) for v in node.value.elts):
            self.local_dicts |= {x.id for x in t.elts}
            return []
        node = self.generic_visit(node)
        t = node.targets[0]
        if isinstance(t, ast.Subscript) and isinstance(t.value, ast.Name) and t.value.id in self.local_dicts and \
                isinstance(t.slice, ast.Constant) and isinstance(t.slice.value, str):
            node.targets = [ast.copy_location(ast.Name(id=f"{t.value.id}__{t.slice.value}", ctx=ast.Store()), t)]
        return node

    def visit_Subscript(self, node: ast.Subscript):
        node = self.generic_visit(node)
        if isinstance(node, ast.Subscript) and isinstance(node.ctx, ast.Load) and isinstance(node.value, ast.Name) and \
                node.value.id in self.local_dicts and isinstance(node.slice, ast.Constant) and isinstance(node.slice.value, str):
            return ast.copy_location(ast.Name(id=f"{node.value.id}__{node.slice.value}", ctx=ast.Load()), node)
        return node

    def visit_Call(self, node: ast.Call):
        node = self.generic_visit(node)
        if isinstance(node, ast.Call) and isinstance(node.func, ast.Attribute) and node.func.attr == "get" and \
                isinstance(node.func.value, ast.Name) and node.func.value.id == self.in_name and 1 <= len(node.args) <= 2:
            dflt = node.args[1] if len(node.args) == 2 else None
            if dflt is None or (isinstance(dflt, ast.Constant) and dflt.value in (0, 0.0)):
                return ast.copy_location(ast.Subscript(value=node.func.value, slice=node.args[0], ctx=ast.Load()), node)
        return node


def _needs_desugar(fn: ast.FunctionDef, in_name: str) -> bool:
    for n in ast.walk(fn):
        if isinstance(n, ast.For):
            return True
        if isinstance(n, ast.Call) and isinstance(n.func, ast.Attribute) and n.func.attr == "get" and \
                isinstance(n.func.value, ast.Name) and n.func.value.id == in_name:
            return True
    return False


def _straight_line(f, evaluator, out_kind):
    """Run the evaluator over the top-level statements; returns {key: (value, stmt)} of the stores into
    the returned mapping."""
    if not getattr(f, "_desugared", False) and _needs_desugar(f.node, f.positional_params[0]):
        import copy as _copy

        node2 = _copy.deepcopy(f.node)
        d = _Desugar(f.positional_params[0])
        new_body = []
        for st in node2.body:
            r = d.visit(st)
            new_body += r if isinstance(r, list) else [r]
        # local dicts created one at a time: `d = {}`
        node2.body = [st for st in new_body if st is not None]
        ast.fix_missing_locations(node2)
        f2 = type(f)(f.module, node2, f.cls)
        f2._desugared = True
        return _straight_line(f2, evaluator, out_kind)
    rets = [s for s in f.body if isinstance(s, ast.Return)]
    if len(rets) != 1 or f.body[-1] is not rets[0] or not isinstance(rets[0].value, ast.Name):
        raise AnalysisError(f"{f.qualname}: expected a single trailing `return <mapping>`")
    out = rets[0].value.id
    stores: dict[str, tuple] = {}
    inp = f.positional_params[0]
    body = list(f.body[:-1])
    # a branch on input values: the conversion must not depend on which arm is taken.  Evaluate both arms
    # (finite enumeration, at most 8 variants) and compare the stores; variant 0 (all true arms) is returned.
    if any(isinstance(st, ast.If) for st in body):
        import copy as _copy

        def variants(stmts):
            for k, st in enumerate(stmts):
                if isinstance(st, ast.If):
                    rest = stmts[k + 1:]
                    outv = []
                    for arm in (st.body, st.orelse):
                        for tail in variants(list(arm) + rest):
                            outv.append(stmts[:k] + tail)
                    return outv[:8]
            return [stmts]

        allv = variants(body)
        results = []
        for vbody in allv:
            ev2 = _copy.deepcopy(evaluator)
            fake = _copy.copy(f)
            node2 = _copy.copy(f.node)
            node2.body = vbody + [rets[0]]
            fake = type(f)(f.module, node2, f.cls)
            results.append(_straight_line(fake, ev2, out_kind))
        base = results[0]
        conflicts = []
        for r in results[1:]:
            for k in sorted(set(base) | set(r)):
                a, b = base.get(k), r.get(k)
                if a is None or b is None or repr(a[0]) != repr(b[0]):
                    conflicts.append(k)
        evaluator.branch_conflicts = sorted(set(conflicts))
        evaluator.env.update(_copy.deepcopy(evaluator).env)
        # re-evaluate variant 0 on the real evaluator so that its environment is filled
        node0 = _copy.copy(f.node)
        node0.body = allv[0] + [rets[0]]
        return _straight_line(type(f)(f.module, node0, f.cls), evaluator, out_kind)
    for st in body:
        if isinstance(st, (ast.For, ast.While, ast.Try, ast.With)):
            raise AnalysisError(f"{f.qualname}: control flow inside a conversion function is not modelled")
        if isinstance(st, ast.Expr):
            continue
        if not isinstance(st, ast.Assign) or len(st.targets) != 1:
            raise AnalysisError(f"{f.qualname}: unsupported statement `{norm_text(st)[:60]}`")
        t = st.targets[0]
        if isinstance(t, ast.Name):
            if t.id == out:
                if not ((isinstance(st.value, ast.Call) and dotted(st.value.func) == "dict" and not st.value.args
                         and not st.value.keywords) or (isinstance(st.value, ast.Dict) and not st.value.keys)):
                    raise AnalysisError(f"{f.qualname}: output mapping is not created empty")
                continue
            if t.id in evaluator.in_names:
                # polar = defaultdict(lambda: 0, polar): same mapping with default 0
                v = st.value
                ok = isinstance(v, ast.Call) and last_attr(v) in ("defaultdict", "dict") and any(
                    isinstance(a, ast.Name) and a.id in evaluator.in_names for a in v.args)
                if not ok:
                    raise AnalysisError(f"{f.qualname}: input mapping rebound to `{norm_text(v)[:50]}`")
                continue
            evaluator.env[t.id] = evaluator.ev(st.value)
            continue
        if isinstance(t, ast.Subscript) and isinstance(t.value, ast.Name) and t.value.id == out and isinstance(
                t.slice, ast.Constant) and isinstance(t.slice.value, str):
            stores[t.slice.value] = (evaluator.ev(st.value), st)
            continue
        raise AnalysisError(f"{f.qualname}: unsupported store `{norm_text(t)[:60]}`")
    if not stores:
        raise AnalysisError(f"{f.qualname}: no stores into the returned mapping")
    return stores


def _vec(m: Mono):
    """Mono with one amplitude and one harmonic -> (amp, phase symbol, |c|, (p, q))."""
    if len(m.amps) != 1 or len(m.trigs) != 1:
        return None
    sym, c, delta = m.trigs[0]
    if abs(c) < TOL:
        return None
    sg = 1.0 if c > 0 else -1.0
    p = m.scale * math.cos(delta)
    q = -m.scale * sg * math.sin(delta)
    return m.amps[0], sym, abs(c), (p, q)


def _close(a, b):
    return abs(a[0] - b[0]) < 1e-7 and abs(a[1] - b[1]) < 1e-7


def _fmt(v):
    return "(" + ", ".join(f"{round(x, 6) + 0.0:+g}" for x in v) + ")"


def run(ctx) -> None:
    repo = ctx.repo
    ctx.rule("R-HARMONIC", "for every magnitude/angle pair (C, phi0) with azimuthal multiple m, polar2cartesian writes two "
             "components A, B = C*(p*cos(m phi0) + q*sin(m phi0)) and cartesian2polar rebuilds C' = sigma*sqrt(A^2+B^2), "
             "phi0' = tau*arctan2(U, V)/m' with m' = m, {U, V} = {A, B}, sigma*V = C*cos(m phi0) and "
             "sigma*tau*U = C*sin(m phi0); rotationally symmetric coefficients are copied both ways")
    ctx.rule("R-KEYSETS", "cartesian2polar reads exactly the keys polar2cartesian writes and writes exactly the keys "
             "polar2cartesian reads (a key missing on one side silently becomes 0 through the defaultdict)")
    ctx.undecided("floating-point rounding of the folded constants (k = sqrt(3 + sqrt(8)), 4*arctan(1/k) = pi/2 are "
                  "folded numerically with tolerance 1e-9)")
    ctx.undecided("whether the Cartesian components follow an external sign convention (only the round trip is stated)")

    p2c = repo.function(MOD, "polar2cartesian")
    c2p = repo.function(MOD, "cartesian2polar")
    fw = Forward(p2c.qualname, {p2c.positional_params[0]})
    cart = _straight_line(p2c, fw, "forward")
    for k in getattr(fw, "branch_conflicts", []):
        ctx.violation("R-HARMONIC", f"{p2c.qualname}:{k}", p2c.loc(cart[k][1]) if k in cart else p2c.where,
                      f"the Cartesian component `{k}` is computed differently depending on a branch on the input "
                      "coefficients (e.g. only for positive magnitudes): for inputs taking the other arm the component "
                      "is missing or different and the round trip no longer reproduces chi", key_detail="branch")
    bw = Backward(c2p.qualname, {c2p.positional_params[0]})
    pol = _straight_line(c2p, bw, "backward")
    for k in getattr(bw, "branch_conflicts", []):
        ctx.violation("R-HARMONIC", f"{c2p.qualname}:{k}", c2p.loc(pol[k][1]) if k in pol else c2p.where,
                      f"the polar coefficient `{k}` is computed differently depending on a branch on the input "
                      "coefficients", key_detail="branch")

    # ---------------- R-KEYSETS
    ctx.check(bw.reads == set(cart), "R-KEYSETS", f"{c2p.qualname}:reads", c2p.where,
              f"{len(bw.reads)} Cartesian keys read = keys written by polar2cartesian",
              f"cartesian2polar reads {sorted(bw.reads - set(cart))} which polar2cartesian never writes, and ignores "
              f"{sorted(set(cart) - bw.reads)} which it does write", key_detail="cart")
    ctx.check(set(pol) == fw.reads, "R-KEYSETS", f"{c2p.qualname}:writes", c2p.where,
              f"{len(pol)} polar keys written = keys read by polar2cartesian",
              f"cartesian2polar does not return {sorted(fw.reads - set(pol))} although polar2cartesian consumes them; "
              f"returns {sorted(set(pol) - fw.reads)} which polar2cartesian ignores", key_detail="polar")

    # ---------------- classify the forward components
    scalars: dict[str, tuple] = {}   # cart key -> (polar sym, scale)
    comps: dict[str, tuple] = {}     # cart key -> (amp, phase sym, m, vec)
    for key, (val, st) in cart.items():
        if isinstance(val, Lin):
            if abs(val.c0) < TOL and len(val.coef) == 1:
                (s, c), = val.coef.items()
                scalars[key] = (s, c)
                continue
            raise AnalysisError(f"{p2c.qualname}: component {key} = `{norm_text(st.value)[:50]}` not recognised")
        v = _vec(val)
        if v is None:
            raise AnalysisError(f"{p2c.qualname}: component {key} = `{norm_text(st.value)[:50]}` is not a single harmonic")
        comps[key] = v

    # scalars: identity round trip
    n_inst = 0
    for key, (sym, c) in sorted(scalars.items()):
        back = pol.get(sym)
        n_inst += 1
        if back is None:
            ctx.violation("R-HARMONIC", f"{MOD}:scalar {sym}", p2c.loc(cart[key][1]),
                          f"{sym} is exported as {key} but never rebuilt by cartesian2polar", key_detail="scalar")
            continue
        inv, st = back
        good = inv.kind == "id" and inv.keys == (key,) and abs(inv.scale * c - 1.0) < TOL
        ctx.check(good, "R-HARMONIC", f"{MOD}:scalar {sym}", c2p.loc(st),
                  f"{sym} -> {key} (x{c:g}) -> {sym} (x{inv.scale:g})",
                  f"round trip of {sym}: forward {key} = {c:g}*{sym}, backward `{norm_text(st)[:60]}` gives "
                  f"{inv.scale * c:g}*{sym}" if inv.kind == "id" and inv.keys == (key,) else
                  f"round trip of {sym}: exported as {key} but rebuilt from `{norm_text(st.value)[:50]}`",
                  key_detail="scalar")

    # pairs
    by_amp: dict[tuple, list[str]] = {}
    for key, (amp, ph, m, vec) in comps.items():
        by_amp.setdefault((amp, ph), []).append(key)
    for (amp, ph), keys in sorted(by_amp.items()):
        n_inst += 1
        cons = f"{MOD}:pair ({amp}, {ph})"
        where = p2c.loc(cart[keys[0]][1])
        ms = {round(comps[k][2], 9) for k in keys}
        if len(keys) != 2 or len(ms) != 1:
            ctx.violation("R-HARMONIC", cons, where,
                          f"({amp}, {ph}) is exported through components {sorted(keys)} with azimuthal multiples "
                          f"{sorted(ms)}: two components with the same multiple are needed to carry magnitude and angle",
                          key_detail="pair")
            continue
        m = ms.pop()
        a_inv, p_inv = pol.get(amp), pol.get(ph)
        if a_inv is None or p_inv is None:
            continue  # reported by R-KEYSETS
        (ai, ast_), (pi_, pst) = a_inv, p_inv
        problems = []
        if ai.kind == "smag":
            problems.append(f"{amp} is rebuilt as a magnitude carrying the sign of {ai.keys[-1]} "
                            f"(`{norm_text(ast_.value)[:60]}`) while {ph} is a full-quadrant arctan2: the sign is "
                            f"counted twice, so for {ai.keys[-1]} < 0 the round trip returns the negated components")
        elif ai.kind != "mag" or set(ai.keys) != set(keys):
            problems.append(f"{amp} is rebuilt by `{norm_text(ast_.value)[:60]}`, not by sigma*sqrt of the squares of "
                            f"{sorted(keys)}")
        elif abs(abs(ai.scale) - 1.0) > TOL:
            problems.append(f"{amp} is rebuilt with factor {ai.scale:g}; only +-1 preserves the magnitude")
        if pi_.kind != "ang" or set(pi_.keys) != set(keys):
            problems.append(f"{ph} is rebuilt by `{norm_text(pst.value)[:60]}`, not by tau*arctan2 of {sorted(keys)}/m")
        if not problems:
            vecs = {k: comps[k][3] for k in keys}
            # components must be orthonormal harmonics for sqrt(A^2+B^2) = |C|
            (p1, q1), (p2, q2) = vecs[keys[0]], vecs[keys[1]]
            if abs(p1 * p1 + p2 * p2 - 1) > 1e-7 or abs(q1 * q1 + q2 * q2 - 1) > 1e-7 or abs(p1 * q1 + p2 * q2) > 1e-7:
                problems.append(f"components {keys[0]} ~ {_fmt(vecs[keys[0]])}, {keys[1]} ~ {_fmt(vecs[keys[1]])} (in "
                                f"the basis cos/sin({m:g} {ph})) are not an orthonormal pair: sqrt(A^2+B^2) != |{amp}|")
            sigma = ai.scale
            if abs(pi_.scale) < TOL:
                problems.append(f"{ph} is rebuilt with factor 0")
            else:
                mprime = 1.0 / abs(pi_.scale)
                tau = 1.0 if pi_.scale > 0 else -1.0
                if abs(mprime - m) > 1e-7:
                    problems.append(f"{ph} is rebuilt as arctan2(...)/{mprime:g} but the components rotate with "
                                    f"{m:g}*{ph}")
                u, v = vecs[pi_.keys[0]], vecs[pi_.keys[1]]
                sv = (sigma * v[0], sigma * v[1])
                su = (sigma * tau * u[0], sigma * tau * u[1])
                if not _close(sv, (1.0, 0.0)):
                    problems.append(f"sigma*V = {_fmt(sv)} in the basis (cos, sin)({m:g} {ph}), expected (1, 0): "
                                    f"{amp}'*cos(m {ph}') != {amp}*cos(m {ph})")
                if not _close(su, (0.0, 1.0)):
                    problems.append(f"sigma*tau*U = {_fmt(su)}, expected (0, 1): {amp}'*sin(m {ph}') != "
                                    f"{amp}*sin(m {ph})")
        ctx.check(not problems, "R-HARMONIC", cons, where,
                  f"m={m:g}; " + ", ".join(f"{k} ~ {_fmt(comps[k][3])}" for k in sorted(keys))
                  + f"; sigma={ai.scale:+g}, angle factor={pi_.scale:+.4g}, arctan2{pi_.keys}"
                  if ai.kind == "mag" and pi_.kind == "ang" else "",
                  "; ".join(problems), key_detail="pair")
    ctx.require(n_inst >= 3, "fewer than three coefficient groups recognised in the conversion functions")
    # polar keys rebuilt from something that is neither a scalar nor a pair partner
    for sym, (inv, st) in sorted(pol.items()):
        if inv.kind == "const":
            ctx.violation("R-HARMONIC", f"{MOD}:constant {sym}", c2p.loc(st),
                          f"{sym} is rebuilt as the constant {inv.scale:g}", key_detail="const")


# ---- added after the seeded change C22-r4seed0: every conversion returns a mapping of its own
_inner_run_c22 = run

_FRESH_MAPPING_CALLS = {"dict", "defaultdict", "OrderedDict"}


def _fresh_mapping(v: ast.AST) -> bool:
    if isinstance(v, (ast.Dict, ast.DictComp)):
        return True
    if isinstance(v, ast.Call) and (last_attr(v) or dotted(v.func) or "") in _FRESH_MAPPING_CALLS:
        return True
    if isinstance(v, ast.Call) and isinstance(v.func, ast.Attribute) and v.func.attr == "copy" and not v.args:
        return True
    if isinstance(v, ast.Call) and dotted(v.func) in ("copy.copy", "copy.deepcopy", "copy", "deepcopy"):
        return True
    return False


def _mutable_default(d: ast.AST) -> bool:
    return isinstance(d, (ast.Dict, ast.List, ast.Set, ast.DictComp, ast.ListComp)) or (
        isinstance(d, ast.Call) and (last_attr(d) or dotted(d.func) or "") in _FRESH_MAPPING_CALLS | {"list", "set"})


def _fresh_result(ctx, f) -> None:
    from ..cfg import DataFlow

    df = DataFlow(f.node)
    a = f.node.args
    pos = a.posonlyargs + a.args
    defaults = dict(zip([x.arg for x in pos[len(pos) - len(a.defaults):]], a.defaults))
    defaults.update({x.arg: d for x, d in zip(a.kwonlyargs, a.kw_defaults) if d is not None})
    rets = [r for r in walk_no_nested(f.node) if isinstance(r, ast.Return) and r.value is not None]
    ctx.require(bool(rets), f"{f.qualname}: no return")
    for r in rets:
        problems = []

        def origins(e, at, depth=0):
            if depth > 10:
                raise AnalysisError(f"{f.qualname}: definitions of the returned mapping are too deep")
            if _fresh_mapping(e):
                return
            if isinstance(e, ast.Name):
                rd = df.reaching(at, e.id)
                if not rd:
                    problems.append(f"`{e.id}` is not defined in the function (a module-level object shared by all calls)")
                for d in rd:
                    if d.kind == "param":
                        if e.id in defaults and _mutable_default(defaults[e.id]):
                            problems.append(f"the default value of parameter `{e.id}` (`{norm_text(defaults[e.id])}`), "
                                            "one object created at definition time and shared by all calls")
                        # a mapping handed in by the caller is the caller's own business
                    elif d.kind == "assign" and d.value is not None:
                        origins(d.value, d.node, depth + 1)
                    elif d.kind in ("store", "aug", "call"):
                        continue  # writes into the mapping, not a rebinding
                    else:
                        raise AnalysisError(f"{f.qualname}: returned mapping defined by a {d.kind}")
                return
            if isinstance(e, ast.IfExp):
                origins(e.body, at, depth + 1)
                origins(e.orelse, at, depth + 1)
                return
            raise AnalysisError(f"{f.qualname}: returned mapping `{norm_text(e)[:50]}` of unknown origin")

        origins(r.value, df.cfg.node_of(r).idx)
        ctx.check(not problems, "R-FRESHRESULT", f"{f.qualname}:returned mapping", f.loc(r),
                  "the returned mapping is created inside the call on every path",
                  "the returned mapping can be " + "; ".join(problems) + ": the next conversion overwrites the "
                  "coefficients of every result returned before, so a round-tripped set kept while another one is "
                  "converted no longer reproduces chi", key_detail="fresh")


def run(ctx) -> None:  # noqa: F811
    ctx.rule("R-FRESHRESULT", "the mapping a conversion returns is created inside that call (dict()/{}/a copy) on every "
             "path: reaching definitions of the returned name are followed back; a parameter whose default is a "
             "mutable object, or a module-level mapping, is one object shared by all calls — each call is right on its "
             "own, but a later conversion rewrites the coefficients held by earlier results")
    for name in ("polar2cartesian", "cartesian2polar"):
        _fresh_result(ctx, ctx.repo.function(MOD, name))
    _inner_run_c22(ctx)
