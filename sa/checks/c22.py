"""C22 — Cartesian and polar aberration conversions describe the same aberration (abtem/transfer.py).

R-HARMONIC: abstract interpretation in the domain of first harmonics.  Every Cartesian component
written by polar2cartesian is folded to   s * C * cos(c*phi0 + delta)   (sin x = cos(x - pi/2);
closed constant sub-expressions are folded numerically with a whitelisted evaluator), i.e. to the
vector (p, q) with  component = C*(p*cos(m phi0) + q*sin(m phi0)).  Every polar value written by
cartesian2polar is folded to  sigma*sqrt(X^2+Y^2)  or  tau*arctan2(U, V)/m'.  The round trip
reproduces  C*cos(m*(phi - phi0))  for every phi iff
      m' = m,   sigma*V = (1, 0),   sigma*tau*U = (0, 1),   {X, Y} = {U, V}.
The magnitude is read in its spellings sqrt(x^2+y^2), (..)**0.5, hypot, |x + 1j*y|, the 2-norm of the stacked pair,
sqrt of a sum over the stacked squares; np.angle(x + 1j*y) is arctan2(y, x).  An inverse expression built from other
element-wise arithmetic is evaluated at sample points: a point where the round trip fails is a violation (concrete
counterexample), agreement is an AnalysisError (nothing proven).

R-ELEMENTWISE (appended below): no reduction over a coefficient array — coefficients may be series.
"""
from __future__ import annotations

import ast
import math
from dataclasses import dataclass
from typing import Optional

from ..model import AnalysisError, dotted, last_attr, norm_text, walk_no_nested

MOD = "abtem.transfer"
TOL = 1e-9
_CONST_FUNCS = {"sqrt": math.sqrt, "arctan": math.atan, "atan": math.atan, "cos": math.cos, "sin": math.sin,
                "tan": math.tan, "arcsin": math.asin, "arccos": math.acos, "exp": math.exp, "abs": abs,
                "deg2rad": math.radians, "radians": math.radians, "float": float}


# names under which an array library (or the math module) is visible: `<module>.f(x)` is the function form of f, any
# other receiver makes `x.f()` the method form
_ARRAY_MODULES = {"np", "numpy", "xp", "cp", "cupy", "math", "np.linalg", "numpy.linalg", "xp.linalg", "cp.linalg",
                  "linalg", "la", "scipy.linalg"}
# reductions that return their operand unchanged when the operand is a single number (the algebra of the round trip
# is decided for one coefficient set; what a reduction does to a series of sets is decided by R-ELEMENTWISE)
_SCALAR_IDENTITY_REDUCERS = {"mean", "nanmean", "sum", "nansum", "max", "min", "amax", "amin", "nanmax", "nanmin",
                             "median", "nanmedian", "average", "prod", "nanprod"}


def _is_module_receiver(func: ast.expr) -> bool:
    return isinstance(func, ast.Attribute) and dotted(func.value) in _ARRAY_MODULES


def _scalar_identity_operand(n: ast.expr) -> Optional[ast.expr]:
    """operand of `np.mean(x[, axis])` / `x.mean([axis])` (any reduction that is the identity on one number)."""
    if not isinstance(n, ast.Call) or last_attr(n) not in _SCALAR_IDENTITY_REDUCERS or not isinstance(n.func, ast.Attribute):
        return None
    if any(k.arg not in ("axis", "keepdims") for k in n.keywords):
        return None
    if _is_module_receiver(n.func):
        return n.args[0] if 1 <= len(n.args) <= 2 else None
    return n.func.value if len(n.args) <= 1 else None


# ------------------------------------------------------------------ forward value domain
@dataclass
class Lin:
    """c0 + sum coef[sym] * sym   (sym: keys read from the input mapping)."""
    c0: float
    coef: dict

    def is_const(self):
        return not self.coef


@dataclass
class Mono:
    """scale * prod(amps) * prod cos(c*phase + delta)."""
    scale: float
    amps: tuple
    trigs: tuple  # (phase symbol, c, delta)


def _lin(x) -> Optional[Lin]:
    return x if isinstance(x, Lin) else None


def _as_mono(x) -> Mono:
    if isinstance(x, Mono):
        return x
    if isinstance(x, Lin):
        if x.is_const():
            return Mono(x.c0, (), ())
        if abs(x.c0) < TOL and len(x.coef) == 1:
            (s, c), = x.coef.items()
            return Mono(c, (s,), ())
    raise AnalysisError("conversion: a sum of coefficients is used as a factor (shape not modelled)")


class Forward:
    """Evaluator for the straight-line body of a conversion function."""

    def __init__(self, fname: str, in_names: set[str]):
        self.fname = fname
        self.in_names = in_names  # names under which the input mapping is visible
        self.env: dict[str, object] = {}
        self.reads: set[str] = set()

    def ev(self, n: ast.expr):
        if isinstance(n, ast.Constant) and isinstance(n.value, (int, float)) and not isinstance(n.value, bool):
            return Lin(float(n.value), {})
        if isinstance(n, ast.Name):
            if n.id in self.env:
                return self.env[n.id]
            raise AnalysisError(f"{self.fname}: name `{n.id}` has no straight-line definition")
        if isinstance(n, ast.Attribute):
            if dotted(n) in ("np.pi", "math.pi", "numpy.pi", "xp.pi"):
                return Lin(math.pi, {})
            raise AnalysisError(f"{self.fname}: unsupported attribute `{norm_text(n)}`")
        if isinstance(n, ast.Subscript) and isinstance(n.value, ast.Name) and n.value.id in self.in_names:
            if isinstance(n.slice, ast.Constant) and isinstance(n.slice.value, str):
                self.reads.add(n.slice.value)
                return Lin(0.0, {n.slice.value: 1.0})
            raise AnalysisError(f"{self.fname}: input mapping indexed with a non-literal key")
        if isinstance(n, ast.UnaryOp) and isinstance(n.op, (ast.USub, ast.UAdd)):
            v = self.ev(n.operand)
            return v if isinstance(n.op, ast.UAdd) else self.scale(v, -1.0)
        if isinstance(n, ast.BinOp):
            a, b = self.ev(n.left), self.ev(n.right)
            if isinstance(n.op, (ast.Add, ast.Sub)):
                la, lb = _lin(a), _lin(b)
                if la is None or lb is None:
                    raise AnalysisError(f"{self.fname}: sum of harmonic terms `{norm_text(n)[:60]}` is not modelled")
                sg = 1.0 if isinstance(n.op, ast.Add) else -1.0
                coef = dict(la.coef)
                for k, v in lb.coef.items():
                    coef[k] = coef.get(k, 0.0) + sg * v
                return Lin(la.c0 + sg * lb.c0, {k: v for k, v in coef.items() if abs(v) > TOL})
            if isinstance(n.op, ast.Mult):
                la, lb = _lin(a), _lin(b)
                if la is not None and la.is_const():
                    return self.scale(b, la.c0)
                if lb is not None and lb.is_const():
                    return self.scale(a, lb.c0)
                ma, mb = _as_mono(a), _as_mono(b)
                return Mono(ma.scale * mb.scale, tuple(sorted(ma.amps + mb.amps)), ma.trigs + mb.trigs)
            if isinstance(n.op, ast.Div):
                lb = _lin(b)
                if lb is None or not lb.is_const() or abs(lb.c0) < TOL:
                    raise AnalysisError(f"{self.fname}: division by a non-constant `{norm_text(n.right)[:40]}`")
                return self.scale(a, 1.0 / lb.c0)
            if isinstance(n.op, ast.Pow):
                la, lb = _lin(a), _lin(b)
                if la is not None and lb is not None and la.is_const() and lb.is_const():
                    return Lin(la.c0 ** lb.c0, {})
                raise AnalysisError(f"{self.fname}: power of a non-constant `{norm_text(n)[:40]}`")
        if _scalar_identity_operand(n) is not None:
            return self.ev(_scalar_identity_operand(n))
        if isinstance(n, ast.Call) and len(n.args) == 1 and not n.keywords:
            fn = last_attr(n)
            a = self.ev(n.args[0])
            la = _lin(a)
            if la is not None and la.is_const() and fn in _CONST_FUNCS:
                return Lin(float(_CONST_FUNCS[fn](la.c0)), {})
            if fn in ("cos", "sin") and la is not None:
                if len(la.coef) != 1:
                    raise AnalysisError(f"{self.fname}: trigonometric argument `{norm_text(n.args[0])[:50]}` does not "
                                        "depend on exactly one angle")
                (sym, c), = la.coef.items()
                delta = la.c0 - (math.pi / 2 if fn == "sin" else 0.0)
                return Mono(1.0, (), ((sym, c, delta),))
            if fn in ("float", "asarray", "array"):
                return a
        raise AnalysisError(f"{self.fname}: expression `{norm_text(n)[:70]}` is outside the harmonic domain")

    @staticmethod
    def scale(v, k: float):
        if isinstance(v, Lin):
            return Lin(v.c0 * k, {s: c * k for s, c in v.coef.items()})
        return Mono(v.scale * k, v.amps, v.trigs)


# ------------------------------------------------------------------ inverse value domain
@dataclass
class Inv:
    kind: str  # id | mag | smag | ang | const | stack | sumsq | cplx | fn
    scale: float
    keys: tuple  # id: (k,)  mag: (x, y) unordered  ang: (u, v) ordered  stack/sumsq/cplx: (x, y)  fn: keys read
    aux: object = None  # cplx: sign of the imaginary part; fn: the _Fn evaluating the expression at a sample point


class _NotNumeric(Exception):
    pass


def _sq(x):
    return x * x


def _sign(x):
    return (x > 0) - (x < 0)


_NUM1 = {"abs": abs, "absolute": abs, "fabs": abs, "sqrt": math.sqrt, "square": _sq, "cos": math.cos, "sin": math.sin,
         "tan": math.tan, "arctan": math.atan, "atan": math.atan, "exp": math.exp, "sign": _sign, "float": float,
         "asarray": float, "array": float, "float64": float, "negative": lambda x: -x, "deg2rad": math.radians,
         "rad2deg": math.degrees}
_NUM2 = {"hypot": math.hypot, "arctan2": math.atan2, "atan2": math.atan2, "maximum": max, "minimum": min, "fmax": max,
         "fmin": min, "copysign": math.copysign, "power": pow, "multiply": lambda a, b: a * b,
         "add": lambda a, b: a + b, "subtract": lambda a, b: a - b, "divide": lambda a, b: a / b,
         "true_divide": lambda a, b: a / b}
_NUM_LIST = {"max": max, "amax": max, "min": min, "amin": min, "sum": sum}


def _inv_value(inv: "Inv", sample: dict) -> float:
    """value of an inverse-domain term at a sample point {Cartesian key: number}."""
    g = lambda k: sample.get(k, 0.0)
    if inv.kind == "const":
        return inv.scale
    if inv.kind == "id":
        return inv.scale * g(inv.keys[0])
    if inv.kind == "mag":
        return inv.scale * math.hypot(g(inv.keys[0]), g(inv.keys[1]))
    if inv.kind == "smag":
        return inv.scale * math.copysign(math.hypot(g(inv.keys[0]), g(inv.keys[1])), g(inv.keys[2]))
    if inv.kind == "ang":
        return inv.scale * math.atan2(g(inv.keys[0]), g(inv.keys[1]))
    if inv.kind == "fn":
        return inv.scale * inv.aux(sample)
    raise _NotNumeric(inv.kind)


class _Fn:
    """An expression built from whitelisted element-wise operations on the input coefficients, kept as syntax and
    evaluated with the math module at sample points.  Two terms that differ at one sample point are different
    functions (a concrete counterexample); agreement at the sample points proves nothing."""

    def __init__(self, node: ast.expr, env: dict, in_names: set):
        self.node, self.env, self.in_names = node, dict(env), set(in_names)
        self.keys: set[str] = set()

    def __repr__(self):
        return f"_Fn({norm_text(self.node)})"

    def __call__(self, sample) -> float:
        return self._num(self.node, sample)

    def static_keys(self) -> set:
        """input keys the expression depends on (directly or through locals)."""
        out: set[str] = set()
        for x in ast.walk(self.node):
            if isinstance(x, ast.Subscript) and isinstance(x.value, ast.Name) and x.value.id in self.in_names and \
                    isinstance(x.slice, ast.Constant) and isinstance(x.slice.value, str):
                out.add(x.slice.value)
            if isinstance(x, ast.Name) and isinstance(self.env.get(x.id), Inv):
                out |= set(self.env[x.id].keys)
        return out

    def _num(self, n: ast.expr, sample: dict) -> float:
        if isinstance(n, ast.Constant) and isinstance(n.value, (int, float)) and not isinstance(n.value, bool):
            return float(n.value)
        if isinstance(n, ast.Attribute) and dotted(n) in ("np.pi", "math.pi", "numpy.pi", "xp.pi"):
            return math.pi
        if isinstance(n, ast.Name):
            v = self.env.get(n.id)
            if isinstance(v, Lin) and v.is_const():
                return v.c0
            if isinstance(v, Inv):
                self.keys |= set(v.keys)
                return _inv_value(v, sample)
            raise _NotNumeric(n.id)
        if isinstance(n, ast.Subscript) and isinstance(n.value, ast.Name) and n.value.id in self.in_names and \
                isinstance(n.slice, ast.Constant) and isinstance(n.slice.value, str):
            self.keys.add(n.slice.value)
            return sample.get(n.slice.value, 0.0)
        if isinstance(n, ast.UnaryOp) and isinstance(n.op, (ast.USub, ast.UAdd)):
            v = self._num(n.operand, sample)
            return -v if isinstance(n.op, ast.USub) else v
        if isinstance(n, ast.BinOp):
            a, b = self._num(n.left, sample), self._num(n.right, sample)
            if isinstance(n.op, ast.Add):
                return a + b
            if isinstance(n.op, ast.Sub):
                return a - b
            if isinstance(n.op, ast.Mult):
                return a * b
            if isinstance(n.op, ast.Div):
                return a / b
            if isinstance(n.op, ast.Pow):
                r = a ** b
                if isinstance(r, complex):
                    raise ValueError("complex power")
                return r
            raise _NotNumeric(type(n.op).__name__)
        if isinstance(n, ast.Call):
            fn = last_attr(n)
            kws = {k.arg for k in n.keywords}
            builtin = isinstance(n.func, ast.Name)
            if not (builtin or _is_module_receiver(n.func)):
                raise _NotNumeric(norm_text(n.func))
            if fn in _NUM_LIST and len(n.args) == 1 and isinstance(n.args[0], (ast.List, ast.Tuple)) and n.args[0].elts \
                    and kws <= {"axis"}:
                # a reduction over a list written out in the source, for one coefficient set
                return float(_NUM_LIST[fn](self._num(e, sample) for e in n.args[0].elts))
            if fn == "norm" and 1 <= len(n.args) <= 3 and isinstance(n.args[0], (ast.List, ast.Tuple)) and \
                    n.args[0].elts and kws <= {"axis", "ord"}:
                # a vector norm of a list written out in the source, for one coefficient set
                order = n.args[1] if len(n.args) >= 2 else next((k.value for k in n.keywords if k.arg == "ord"), None)
                vals = [abs(self._num(e, sample)) for e in n.args[0].elts]
                if order is None or (isinstance(order, ast.Constant) and order.value is None):
                    return math.sqrt(sum(v * v for v in vals))
                if dotted(order) in ("np.inf", "numpy.inf", "math.inf", "xp.inf"):
                    return max(vals)
                p_ = self._num(order, sample)
                if p_ <= 0:
                    raise _NotNumeric("norm order")
                return sum(v ** p_ for v in vals) ** (1.0 / p_)
            if builtin and fn in ("max", "min") and len(n.args) >= 2 and not kws:
                return float({"max": max, "min": min}[fn](self._num(e, sample) for e in n.args))
            if kws:
                raise _NotNumeric("keywords")
            if fn in _NUM1 and len(n.args) == 1:
                return float(_NUM1[fn](self._num(n.args[0], sample)))
            if fn in _NUM2 and len(n.args) == 2:
                r = _NUM2[fn](self._num(n.args[0], sample), self._num(n.args[1], sample))
                if isinstance(r, complex):
                    raise ValueError("complex power")
                return float(r)
        raise _NotNumeric(type(n).__name__)


class _Probe:
    """sample point giving every key the same non-zero value (used to see whether an expression is evaluable)."""

    @staticmethod
    def get(key, default=0.0):
        return 0.7321


def _first_counterexample(keys, f, fname, show=None):
    """f(sample) -> (got, want), numbers or tuples of numbers.  Returns (text of the sample restricted to the keys
    that matter, got, want, sample) for the first sample point where they differ, None when they agree everywhere."""
    evaluated = 0
    for smp in _samples(keys):
        try:
            got, want = f(smp)
        except (ValueError, ZeroDivisionError, OverflowError):
            continue  # outside the domain of the expression: not a counterexample of the round trip by itself
        evaluated += 1
        g = got if isinstance(got, tuple) else (got,)
        w = want if isinstance(want, tuple) else (want,)
        if any(abs(a - b) > 1e-6 * (1.0 + abs(b)) for a, b in zip(g, w)):
            txt = ", ".join(f"{k}={smp[k]:.4g}" for k in sorted(smp) if show is None or k in show)
            return txt, got, want, smp
    if evaluated < 8:
        raise AnalysisError(f"{fname}: an expression of the inverse conversion cannot be evaluated at the sample points")
    return None


def _samples(keys) -> list:
    """deterministic sample points: every key gets a value of either sign bounded away from zero."""
    import random

    rnd = random.Random(20240922)
    keys = sorted(keys)
    return [{k: rnd.choice((-1.0, 1.0)) * rnd.uniform(0.3, 2.0) for k in keys} for _ in range(24)]


class Backward:
    def __init__(self, fname: str, in_names: set[str]):
        self.fname = fname
        self.in_names = in_names
        self.env: dict[str, object] = {}
        self.reads: set[str] = set()

    def _read(self, n: ast.expr) -> Optional[str]:
        inner = _scalar_identity_operand(n)
        if inner is not None:
            return self._read(inner)
        if isinstance(n, ast.Call) and last_attr(n) in ("float", "asarray", "array", "float64") and len(n.args) == 1 \
                and not n.keywords:
            return self._read(n.args[0])
        if isinstance(n, ast.Name) and isinstance(self.env.get(n.id), Inv) and self.env[n.id].kind == "id" and \
                abs(self.env[n.id].scale - 1.0) < TOL:
            return self.env[n.id].keys[0]
        if isinstance(n, ast.Subscript) and isinstance(n.value, ast.Name) and n.value.id in self.in_names and \
                isinstance(n.slice, ast.Constant) and isinstance(n.slice.value, str):
            self.reads.add(n.slice.value)
            return n.slice.value
        return None

    def _const(self, n: ast.expr) -> Optional[float]:
        try:
            v = Forward(self.fname, set())
            v.env = {k: x for k, x in self.env.items() if isinstance(x, Lin)}
            r = v.ev(n)
        except AnalysisError:
            return None
        return r.c0 if isinstance(r, Lin) and r.is_const() else None

    def _square_of(self, n: ast.expr) -> Optional[str]:
        if isinstance(n, ast.BinOp) and isinstance(n.op, ast.Pow) and self._const(n.right) == 2.0:
            return self._read(n.left)
        if isinstance(n, ast.BinOp) and isinstance(n.op, ast.Mult):
            a, b = self._read(n.left), self._read(n.right)
            return a if a is not None and a == b else None
        if isinstance(n, ast.Call) and last_attr(n) == "square" and len(n.args) == 1:
            return self._read(n.args[0])
        if isinstance(n, ast.Call) and last_attr(n) == "power" and len(n.args) == 2 and self._const(n.args[1]) == 2.0:
            return self._read(n.args[0])
        return None

    # ---- the two components of a pair, stacked / squared / combined into one complex number
    def _env_pair(self, n: ast.expr, kind: str) -> Optional[Inv]:
        if isinstance(n, ast.Name) and isinstance(self.env.get(n.id), Inv) and self.env[n.id].kind == kind and \
                abs(self.env[n.id].scale - 1.0) < TOL:
            return self.env[n.id]
        return None

    def _stack_pair(self, n: ast.expr) -> Optional[tuple]:
        """(x, y) when n is the two-row array [x, y] of two input coefficients: a list / tuple display, np.array /
        np.asarray / np.stack of one (dtype and axis arguments do not change which two coefficients are stacked;
        whether a later reduction runs over the stacking axis is decided by R-ELEMENTWISE)."""
        e = self._env_pair(n, "stack")
        if e is not None:
            return e.keys
        if isinstance(n, (ast.List, ast.Tuple)) and len(n.elts) == 2:
            x, y = self._read(n.elts[0]), self._read(n.elts[1])
            return (x, y) if x is not None and y is not None else None
        if isinstance(n, ast.Call) and last_attr(n) in ("array", "asarray", "asanyarray", "stack") and n.args and \
                all(k.arg in ("axis", "dtype") for k in n.keywords) and (_is_module_receiver(n.func)
                                                                         or isinstance(n.func, ast.Name)):
            return self._stack_pair(n.args[0])
        return None

    def _squared_stack(self, n: ast.expr) -> Optional[tuple]:
        if isinstance(n, ast.BinOp) and isinstance(n.op, ast.Pow) and self._const(n.right) == 2.0:
            return self._stack_pair(n.left)
        if isinstance(n, ast.BinOp) and isinstance(n.op, ast.Mult) and isinstance(n.left, ast.Name) and \
                isinstance(n.right, ast.Name) and n.left.id == n.right.id:
            return self._stack_pair(n.left)
        if isinstance(n, ast.Call) and last_attr(n) == "square" and len(n.args) == 1:
            return self._stack_pair(n.args[0])
        if isinstance(n, ast.Call) and last_attr(n) == "power" and len(n.args) == 2 and self._const(n.args[1]) == 2.0:
            return self._stack_pair(n.args[0])
        return None

    def _sum_of_squares(self, n: ast.expr) -> Optional[tuple]:
        """(x, y) when n is x^2 + y^2, written as a sum of two squares or as a sum over the stacked pair."""
        e = self._env_pair(n, "sumsq")
        if e is not None:
            return e.keys
        if isinstance(n, ast.BinOp) and isinstance(n.op, ast.Add):
            x, y = self._square_of(n.left), self._square_of(n.right)
            return (x, y) if x is not None and y is not None else None
        if isinstance(n, ast.Call) and last_attr(n) in ("sum", "nansum") and \
                all(k.arg in ("axis", "keepdims") for k in n.keywords):
            if isinstance(n.func, ast.Attribute) and not _is_module_receiver(n.func):
                operand = n.func.value if len(n.args) <= 1 else None
            else:
                operand = n.args[0] if 1 <= len(n.args) <= 2 else None
            if operand is None:
                return None
            if isinstance(operand, (ast.List, ast.Tuple)) and len(operand.elts) == 2:
                x, y = self._square_of(operand.elts[0]), self._square_of(operand.elts[1])
                return (x, y) if x is not None and y is not None else None
            return self._squared_stack(operand)
        return None

    def _imag_term(self, n: ast.expr) -> Optional[tuple]:
        """(key, sign) when n is  +-1j * <input key>."""
        if isinstance(n, ast.UnaryOp) and isinstance(n.op, (ast.USub, ast.UAdd)):
            r = self._imag_term(n.operand)
            return None if r is None else (r[0], -r[1] if isinstance(n.op, ast.USub) else r[1])
        if isinstance(n, ast.BinOp) and isinstance(n.op, ast.Mult):
            for c, o in ((n.left, n.right), (n.right, n.left)):
                sg = 1.0
                while isinstance(c, ast.UnaryOp) and isinstance(c.op, (ast.USub, ast.UAdd)):
                    sg, c = (-sg if isinstance(c.op, ast.USub) else sg), c.operand
                if isinstance(c, ast.Constant) and isinstance(c.value, complex) and c.value.real == 0 and \
                        abs(abs(c.value.imag) - 1.0) < TOL:
                    k = self._read(o)
                    if k is not None:
                        return k, sg * (1.0 if c.value.imag > 0 else -1.0)
        return None

    def _complex_pair(self, n: ast.expr) -> Optional[tuple]:
        """(x, y, sign) when n is the complex number x + sign*1j*y of two input coefficients."""
        e = self._env_pair(n, "cplx")
        if e is not None:
            return e.keys + (e.aux,)
        if isinstance(n, ast.Call) and isinstance(n.func, ast.Name) and n.func.id == "complex" and len(n.args) == 2 \
                and not n.keywords:
            x, y = self._read(n.args[0]), self._read(n.args[1])
            return (x, y, 1.0) if x is not None and y is not None else None
        if isinstance(n, ast.BinOp) and isinstance(n.op, (ast.Add, ast.Sub)):
            flip = -1.0 if isinstance(n.op, ast.Sub) else 1.0
            x, im = self._read(n.left), self._imag_term(n.right)
            if x is not None and im is not None:
                return x, im[0], flip * im[1]
            if isinstance(n.op, ast.Add):
                im, x = self._imag_term(n.left), self._read(n.right)
                if x is not None and im is not None:
                    return x, im[0], im[1]
        return None

    def _magnitude(self, n: ast.expr) -> Optional[tuple]:
        """(x, y) when n is the element-wise magnitude sqrt(x^2 + y^2) of two input coefficients in one of its
        spellings: sqrt / **0.5 of the sum of squares, hypot, |x + 1j*y|, the 2-norm of the stacked pair."""
        if isinstance(n, ast.BinOp) and isinstance(n.op, ast.Pow) and self._const(n.right) == 0.5:
            return self._sum_of_squares(n.left)
        if not isinstance(n, ast.Call):
            return None
        fn = last_attr(n)
        if fn == "sqrt" and len(n.args) == 1 and not n.keywords:
            return self._sum_of_squares(n.args[0])
        if fn == "power" and len(n.args) == 2 and not n.keywords and self._const(n.args[1]) == 0.5:
            return self._sum_of_squares(n.args[0])
        if fn == "hypot" and len(n.args) == 2 and not n.keywords:
            x, y = self._read(n.args[0]), self._read(n.args[1])
            return (x, y) if x is not None and y is not None else None
        if fn in ("abs", "absolute") and len(n.args) == 1 and not n.keywords:
            c = self._complex_pair(n.args[0])
            return c[:2] if c is not None else None
        if fn == "norm" and 1 <= len(n.args) <= 3 and all(k.arg in ("ord", "axis", "keepdims") for k in n.keywords):
            order = n.args[1] if len(n.args) >= 2 else next((k.value for k in n.keywords if k.arg == "ord"), None)
            if order is not None and not (isinstance(order, ast.Constant) and order.value is None) and \
                    self._const(order) != 2.0:
                return None  # another norm: not the Euclidean magnitude
            return self._stack_pair(n.args[0])
        return None

    def ev(self, n: ast.expr) -> Inv:
        try:
            return self._ev(n)
        except AnalysisError as err:
            # not one of the modelled forms: keep it as a function evaluable at sample points when it is built from
            # element-wise arithmetic only (the comparison then looks for a counterexample of the round trip)
            f = _Fn(n, self.env, self.in_names)
            try:
                f(_Probe())
            except _NotNumeric:
                raise err
            except (ValueError, ZeroDivisionError, OverflowError):
                pass
            keys = f.static_keys()
            self.reads |= keys
            return Inv("fn", 1.0, tuple(sorted(keys)), f)

    def _ev(self, n: ast.expr) -> Inv:
        c = self._const(n)
        if c is not None:
            return Inv("const", c, ())
        k = self._read(n)
        if k is not None:
            return Inv("id", 1.0, (k,))
        if isinstance(n, ast.Name) and isinstance(self.env.get(n.id), Inv):
            return self.env[n.id]
        mg = self._magnitude(n)
        if mg is not None:
            return Inv("mag", 1.0, mg)
        sp = self._stack_pair(n)
        if sp is not None:
            return Inv("stack", 1.0, sp)
        ss = self._sum_of_squares(n)
        if ss is not None:
            return Inv("sumsq", 1.0, ss)
        cp = self._complex_pair(n)
        if cp is not None:
            return Inv("cplx", 1.0, cp[:2], cp[2])
        if isinstance(n, ast.UnaryOp) and isinstance(n.op, (ast.USub, ast.UAdd)):
            v = self.ev(n.operand)
            return v if isinstance(n.op, ast.UAdd) else Inv(v.kind, -v.scale, v.keys, v.aux)
        if isinstance(n, ast.BinOp) and isinstance(n.op, (ast.Mult, ast.Div)):
            cl, cr = self._const(n.left), self._const(n.right)
            if isinstance(n.op, ast.Mult) and cl is not None:
                v = self.ev(n.right)
                return Inv(v.kind, v.scale * cl, v.keys, v.aux)
            if cr is not None and abs(cr) > TOL:
                v = self.ev(n.left)
                return Inv(v.kind, v.scale * cr if isinstance(n.op, ast.Mult) else v.scale / cr, v.keys, v.aux)
        if isinstance(n, ast.Call) and not n.keywords:
            fn = last_attr(n)
            if fn == "angle" and len(n.args) == 1:
                # the argument of x + sign*1j*y is arctan2(sign*y, x) = sign*arctan2(y, x)
                cp = self._complex_pair(n.args[0])
                if cp is not None:
                    return Inv("ang", cp[2], (cp[1], cp[0]))
            if fn == "copysign" and len(n.args) == 2:
                # a signed magnitude: |.| carrying the sign of one input key
                m_, sk = self._ev(n.args[0]), self._read(n.args[1])
                if m_.kind == "mag" and sk is not None:
                    return Inv("smag", m_.scale, m_.keys + (sk,))
            if fn in ("arctan2", "atan2") and len(n.args) == 2:
                u, v = self._read(n.args[0]), self._read(n.args[1])
                if u is not None and v is not None:
                    return Inv("ang", 1.0, (u, v))
            if fn in ("float", "asarray", "array") and len(n.args) == 1:
                return self.ev(n.args[0])
        raise AnalysisError(f"{self.fname}: expression `{norm_text(n)[:70]}` is outside the magnitude/angle domain")


# ------------------------------------------------------------------ driver
class _Desugar(ast.NodeTransformer):
    """Semantics-preserving rewriting of a conversion function into the straight-line form the evaluators read:
       * `for v in (<constant tuple>): body` is unrolled with v replaced by each constant, and "C" + "12", int("2"),
         "12"[1] are folded;
       * local dicts created empty (`d = {}` / `a, b = {}, {}`) and used with constant string keys become one local
         per key (d["12"] -> d__12);
       * `<input>.get(K, 0)` is `<input>[K]` (missing coefficients count as zero, like the defaultdict form);
       * `K in <input>` is left as a branch on the input, which the driver evaluates both ways."""

    def __init__(self, in_name: str):
        self.in_name = in_name
        self.local_dicts: set[str] = set()

    # ---- folding helpers
    @staticmethod
    def _fold(e: ast.expr) -> ast.expr:
        if isinstance(e, ast.BinOp) and isinstance(e.op, ast.Add) and isinstance(e.left, ast.Constant) and \
                isinstance(e.right, ast.Constant) and isinstance(e.left.value, str) and isinstance(e.right.value, str):
            return ast.copy_location(ast.Constant(value=e.left.value + e.right.value), e)
        if isinstance(e, ast.Subscript) and isinstance(e.value, ast.Constant) and isinstance(e.value.value, str) and \
                isinstance(e.slice, ast.Constant) and isinstance(e.slice.value, int):
            try:
                return ast.copy_location(ast.Constant(value=e.value.value[e.slice.value]), e)
            except IndexError:
                return e
        if isinstance(e, ast.Call) and isinstance(e.func, ast.Name) and e.func.id in ("int", "float") and \
                len(e.args) == 1 and isinstance(e.args[0], ast.Constant) and isinstance(e.args[0].value, (str, int, float)):
            try:
                return ast.copy_location(ast.Constant(value={"int": int, "float": float}[e.func.id](e.args[0].value)), e)
            except ValueError:
                return e
        if isinstance(e, ast.JoinedStr) and all(isinstance(v, ast.Constant) or (
                isinstance(v, ast.FormattedValue) and isinstance(v.value, ast.Constant)) for v in e.values):
            txt = "".join(str(v.value if isinstance(v, ast.Constant) else v.value.value) for v in e.values)
            return ast.copy_location(ast.Constant(value=txt), e)
        return e

    def generic_visit(self, node):
        node = super().generic_visit(node)
        return self._fold(node) if isinstance(node, ast.expr) else node

    def visit_For(self, node: ast.For):
        it = node.iter
        if isinstance(it, (ast.Tuple, ast.List)) and all(isinstance(e, ast.Constant) for e in it.elts) and \
                isinstance(node.target, ast.Name) and not node.orelse:
            out = []
            for c in it.elts:
                class Sub(ast.NodeTransformer):
                    def visit_Name(s, n):
                        if n.id == node.target.id and isinstance(n.ctx, ast.Load):
                            return ast.copy_location(ast.Constant(value=c.value), n)
                        return n
                import copy as _copy
                for st in node.body:
                    st2 = Sub().visit(_copy.deepcopy(st))
                    r = self.visit(st2)
                    out += r if isinstance(r, list) else [r]
            return out
        return self.generic_visit(node)

    def visit_Assign(self, node: ast.Assign):
        # a, b = {}, {}   /   d = {} / d = dict()
        def empty_dict(v):
            return (isinstance(v, ast.Dict) and not v.keys) or (isinstance(v, ast.Call) and isinstance(v.func, ast.Name)
                                                                and v.func.id == "dict" and not v.args and not v.keywords)
        t = node.targets[0]
        if len(node.targets) == 1 and isinstance(t, ast.Tuple) and isinstance(node.value, ast.Tuple) and \
                len(t.elts) == len(node.value.elts) and all(isinstance(x, ast.Name) for x in t.elts) and \
                all(empty_dict(v) for v in node.value.elts):
            self.local_dicts |= {x.id for x in t.elts}
            return []
        node = self.generic_visit(node)
        t = node.targets[0]
        if isinstance(t, ast.Subscript) and isinstance(t.value, ast.Name) and t.value.id in self.local_dicts and \
                isinstance(t.slice, ast.Constant) and isinstance(t.slice.value, str):
            node.targets = [ast.copy_location(ast.Name(id=f"{t.value.id}__{t.slice.value}", ctx=ast.Store()), t)]
        return node

    def visit_Subscript(self, node: ast.Subscript):
        node = self.generic_visit(node)
        if isinstance(node, ast.Subscript) and isinstance(node.ctx, ast.Load) and isinstance(node.value, ast.Name) and \
                node.value.id in self.local_dicts and isinstance(node.slice, ast.Constant) and isinstance(node.slice.value, str):
            return ast.copy_location(ast.Name(id=f"{node.value.id}__{node.slice.value}", ctx=ast.Load()), node)
        return node

    def visit_Call(self, node: ast.Call):
        node = self.generic_visit(node)
        if isinstance(node, ast.Call) and isinstance(node.func, ast.Attribute) and node.func.attr == "get" and \
                isinstance(node.func.value, ast.Name) and node.func.value.id == self.in_name and 1 <= len(node.args) <= 2:
            dflt = node.args[1] if len(node.args) == 2 else None
            if dflt is None or (isinstance(dflt, ast.Constant) and dflt.value in (0, 0.0)):
                return ast.copy_location(ast.Subscript(value=node.func.value, slice=node.args[0], ctx=ast.Load()), node)
        return node


def _needs_desugar(fn: ast.FunctionDef, in_name: str) -> bool:
    for n in ast.walk(fn):
        if isinstance(n, ast.For):
            return True
        if isinstance(n, ast.Call) and isinstance(n.func, ast.Attribute) and n.func.attr == "get" and \
                isinstance(n.func.value, ast.Name) and n.func.value.id == in_name:
            return True
    return False


def _straight_line(f, evaluator, out_kind):
    """Run the evaluator over the top-level statements; returns {key: (value, stmt)} of the stores into
    the returned mapping."""
    if not getattr(f, "_desugared", False) and _needs_desugar(f.node, f.positional_params[0]):
        import copy as _copy

        node2 = _copy.deepcopy(f.node)
        d = _Desugar(f.positional_params[0])
        new_body = []
        for st in node2.body:
            r = d.visit(st)
            new_body += r if isinstance(r, list) else [r]
        # local dicts created one at a time: `d = {}`
        node2.body = [st for st in new_body if st is not None]
        ast.fix_missing_locations(node2)
        f2 = type(f)(f.module, node2, f.cls)
        f2._desugared = True
        return _straight_line(f2, evaluator, out_kind)
    rets = [s for s in f.body if isinstance(s, ast.Return)]
    if len(rets) != 1 or f.body[-1] is not rets[0] or not isinstance(rets[0].value, ast.Name):
        raise AnalysisError(f"{f.qualname}: expected a single trailing `return <mapping>`")
    out = rets[0].value.id
    stores: dict[str, tuple] = {}
    inp = f.positional_params[0]
    body = list(f.body[:-1])
    # a branch on input values: the conversion must not depend on which arm is taken.  Evaluate both arms
    # (finite enumeration, at most 8 variants) and compare the stores; variant 0 (all true arms) is returned.
    if any(isinstance(st, ast.If) for st in body):
        import copy as _copy

        def variants(stmts):
            for k, st in enumerate(stmts):
                if isinstance(st, ast.If):
                    rest = stmts[k + 1:]
                    outv = []
                    for arm in (st.body, st.orelse):
                        for tail in variants(list(arm) + rest):
                            outv.append(stmts[:k] + tail)
                    return outv[:8]
            return [stmts]

        allv = variants(body)
        results = []
        for vbody in allv:
            ev2 = _copy.deepcopy(evaluator)
            fake = _copy.copy(f)
            node2 = _copy.copy(f.node)
            node2.body = vbody + [rets[0]]
            fake = type(f)(f.module, node2, f.cls)
            results.append(_straight_line(fake, ev2, out_kind))
        base = results[0]
        conflicts = []
        for r in results[1:]:
            for k in sorted(set(base) | set(r)):
                a, b = base.get(k), r.get(k)
                if a is None or b is None or repr(a[0]) != repr(b[0]):
                    conflicts.append(k)
        evaluator.branch_conflicts = sorted(set(conflicts))
        evaluator.env.update(_copy.deepcopy(evaluator).env)
        # re-evaluate variant 0 on the real evaluator so that its environment is filled
        node0 = _copy.copy(f.node)
        node0.body = allv[0] + [rets[0]]
        return _straight_line(type(f)(f.module, node0, f.cls), evaluator, out_kind)
    for st in body:
        if isinstance(st, (ast.For, ast.While, ast.Try, ast.With)):
            raise AnalysisError(f"{f.qualname}: control flow inside a conversion function is not modelled")
        if isinstance(st, ast.Expr):
            continue
        if not isinstance(st, ast.Assign) or len(st.targets) != 1:
            raise AnalysisError(f"{f.qualname}: unsupported statement `{norm_text(st)[:60]}`")
        t = st.targets[0]
        if isinstance(t, ast.Name):
            if t.id == out:
                if not ((isinstance(st.value, ast.Call) and dotted(st.value.func) == "dict" and not st.value.args
                         and not st.value.keywords) or (isinstance(st.value, ast.Dict) and not st.value.keys)):
                    raise AnalysisError(f"{f.qualname}: output mapping is not created empty")
                continue
            if t.id in evaluator.in_names:
                # polar = defaultdict(lambda: 0, polar): same mapping with default 0
                v = st.value
                ok = isinstance(v, ast.Call) and last_attr(v) in ("defaultdict", "dict") and any(
                    isinstance(a, ast.Name) and a.id in evaluator.in_names for a in v.args)
                if not ok:
                    raise AnalysisError(f"{f.qualname}: input mapping rebound to `{norm_text(v)[:50]}`")
                continue
            evaluator.env[t.id] = evaluator.ev(st.value)
            continue
        if isinstance(t, ast.Subscript) and isinstance(t.value, ast.Name) and t.value.id == out and isinstance(
                t.slice, ast.Constant) and isinstance(t.slice.value, str):
            stores[t.slice.value] = (evaluator.ev(st.value), st)
            continue
        raise AnalysisError(f"{f.qualname}: unsupported store `{norm_text(t)[:60]}`")
    if not stores:
        raise AnalysisError(f"{f.qualname}: no stores into the returned mapping")
    return stores


def _vec(m: Mono):
    """Mono with one amplitude and one harmonic -> (amp, phase symbol, |c|, (p, q))."""
    if len(m.amps) != 1 or len(m.trigs) != 1:
        return None
    sym, c, delta = m.trigs[0]
    if abs(c) < TOL:
        return None
    sg = 1.0 if c > 0 else -1.0
    p = m.scale * math.cos(delta)
    q = -m.scale * sg * math.sin(delta)
    return m.amps[0], sym, abs(c), (p, q)


def _close(a, b):
    return abs(a[0] - b[0]) < 1e-7 and abs(a[1] - b[1]) < 1e-7


def _fmt(v):
    return "(" + ", ".join(f"{round(x, 6) + 0.0:+g}" for x in v) + ")"


def run(ctx) -> None:
    repo = ctx.repo
    ctx.rule("R-HARMONIC", "for every magnitude/angle pair (C, phi0) with azimuthal multiple m, polar2cartesian writes two "
             "components A, B = C*(p*cos(m phi0) + q*sin(m phi0)) and cartesian2polar rebuilds C' = sigma*sqrt(A^2+B^2), "
             "phi0' = tau*arctan2(U, V)/m' with m' = m, {U, V} = {A, B}, sigma*V = C*cos(m phi0) and "
             "sigma*tau*U = C*sin(m phi0); rotationally symmetric coefficients are copied both ways")
    ctx.rule("R-KEYSETS", "cartesian2polar reads exactly the keys polar2cartesian writes and writes exactly the keys "
             "polar2cartesian reads (a key missing on one side silently becomes 0 through the defaultdict)")
    ctx.undecided("floating-point rounding of the folded constants (k = sqrt(3 + sqrt(8)), 4*arctan(1/k) = pi/2 are "
                  "folded numerically with tolerance 1e-9)")
    ctx.undecided("whether the Cartesian components follow an external sign convention (only the round trip is stated)")

    p2c = repo.function(MOD, "polar2cartesian")
    c2p = repo.function(MOD, "cartesian2polar")
    fw = Forward(p2c.qualname, {p2c.positional_params[0]})
    cart = _straight_line(p2c, fw, "forward")
    for k in getattr(fw, "branch_conflicts", []):
        ctx.violation("R-HARMONIC", f"{p2c.qualname}:{k}", p2c.loc(cart[k][1]) if k in cart else p2c.where,
                      f"the Cartesian component `{k}` is computed differently depending on a branch on the input "
                      "coefficients (e.g. only for positive magnitudes): for inputs taking the other arm the component "
                      "is missing or different and the round trip no longer reproduces chi", key_detail="branch")
    bw = Backward(c2p.qualname, {c2p.positional_params[0]})
    pol = _straight_line(c2p, bw, "backward")
    for k in getattr(bw, "branch_conflicts", []):
        ctx.violation("R-HARMONIC", f"{c2p.qualname}:{k}", c2p.loc(pol[k][1]) if k in pol else c2p.where,
                      f"the polar coefficient `{k}` is computed differently depending on a branch on the input "
                      "coefficients", key_detail="branch")

    # ---------------- R-KEYSETS
    ctx.check(bw.reads == set(cart), "R-KEYSETS", f"{c2p.qualname}:reads", c2p.where,
              f"{len(bw.reads)} Cartesian keys read = keys written by polar2cartesian",
              f"cartesian2polar reads {sorted(bw.reads - set(cart))} which polar2cartesian never writes, and ignores "
              f"{sorted(set(cart) - bw.reads)} which it does write", key_detail="cart")
    ctx.check(set(pol) == fw.reads, "R-KEYSETS", f"{c2p.qualname}:writes", c2p.where,
              f"{len(pol)} polar keys written = keys read by polar2cartesian",
              f"cartesian2polar does not return {sorted(fw.reads - set(pol))} although polar2cartesian consumes them; "
              f"returns {sorted(set(pol) - fw.reads)} which polar2cartesian ignores", key_detail="polar")

    # ---------------- classify the forward components
    scalars: dict[str, tuple] = {}   # cart key -> (polar sym, scale)
    comps: dict[str, tuple] = {}     # cart key -> (amp, phase sym, m, vec)
    for key, (val, st) in cart.items():
        if isinstance(val, Lin):
            if abs(val.c0) < TOL and len(val.coef) == 1:
                (s, c), = val.coef.items()
                scalars[key] = (s, c)
                continue
            raise AnalysisError(f"{p2c.qualname}: component {key} = `{norm_text(st.value)[:50]}` not recognised")
        v = _vec(val)
        if v is None:
            raise AnalysisError(f"{p2c.qualname}: component {key} = `{norm_text(st.value)[:50]}` is not a single harmonic")
        comps[key] = v

    # scalars: identity round trip
    n_inst = 0
    for key, (sym, c) in sorted(scalars.items()):
        back = pol.get(sym)
        n_inst += 1
        if back is None:
            ctx.violation("R-HARMONIC", f"{MOD}:scalar {sym}", p2c.loc(cart[key][1]),
                          f"{sym} is exported as {key} but never rebuilt by cartesian2polar", key_detail="scalar")
            continue
        inv, st = back
        if inv.kind == "fn":
            # an element-wise expression that is not a plain copy: decided by a counterexample
            try:
                cex = _first_counterexample(set(cart), lambda smp: (_inv_value(inv, smp) * c, smp[key]),
                                            c2p.qualname, show=set(inv.keys) | {key})
            except _NotNumeric:
                raise AnalysisError(f"{c2p.qualname}: `{norm_text(st.value)[:60]}` cannot be evaluated")
            if cex is None:
                raise AnalysisError(f"{c2p.qualname}: `{norm_text(st.value)[:60]}` returns {key} at every sample point "
                                    "but is not a recognised copy (cannot be proven)")
            ctx.violation("R-HARMONIC", f"{MOD}:scalar {sym}", c2p.loc(st),
                          f"round trip of {sym}: exported as {key} = {c:g}*{sym} but rebuilt by "
                          f"`{norm_text(st.value)[:60]}`; {cex[0]} gives {sym}' = {cex[1] / c:.6g} instead of "
                          f"{cex[2] / c:.6g}", key_detail="scalar")
            continue
        good = inv.kind == "id" and inv.keys == (key,) and abs(inv.scale * c - 1.0) < TOL
        ctx.check(good, "R-HARMONIC", f"{MOD}:scalar {sym}", c2p.loc(st),
                  f"{sym} -> {key} (x{c:g}) -> {sym} (x{inv.scale:g})",
                  f"round trip of {sym}: forward {key} = {c:g}*{sym}, backward `{norm_text(st)[:60]}` gives "
                  f"{inv.scale * c:g}*{sym}" if inv.kind == "id" and inv.keys == (key,) else
                  f"round trip of {sym}: exported as {key} but rebuilt from `{norm_text(st.value)[:50]}`",
                  key_detail="scalar")

    # pairs
    by_amp: dict[tuple, list[str]] = {}
    for key, (amp, ph, m, vec) in comps.items():
        by_amp.setdefault((amp, ph), []).append(key)
    for (amp, ph), keys in sorted(by_amp.items()):
        n_inst += 1
        cons = f"{MOD}:pair ({amp}, {ph})"
        where = p2c.loc(cart[keys[0]][1])
        ms = {round(comps[k][2], 9) for k in keys}
        if len(keys) != 2 or len(ms) != 1:
            ctx.violation("R-HARMONIC", cons, where,
                          f"({amp}, {ph}) is exported through components {sorted(keys)} with azimuthal multiples "
                          f"{sorted(ms)}: two components with the same multiple are needed to carry magnitude and angle",
                          key_detail="pair")
            continue
        m = ms.pop()
        a_inv, p_inv = pol.get(amp), pol.get(ph)
        if a_inv is None or p_inv is None:
            continue  # reported by R-KEYSETS
        (ai, ast_), (pi_, pst) = a_inv, p_inv
        problems = []
        if "fn" in (ai.kind, pi_.kind):
            # magnitude or angle rebuilt by element-wise arithmetic that is none of the modelled forms: evaluate the
            # round trip Cartesian -> polar -> Cartesian at sample points.  A point where a component is not
            # reproduced is a concrete counterexample (the forward components are an orthonormal pair of harmonics,
            # so every Cartesian point is the image of some polar pair); agreement proves nothing.
            vecs = {k: comps[k][3] for k in keys}
            (p1, q1), (p2, q2) = vecs[keys[0]], vecs[keys[1]]
            if abs(p1 * p1 + p2 * p2 - 1) > 1e-7 or abs(q1 * q1 + q2 * q2 - 1) > 1e-7 or abs(p1 * q1 + p2 * q2) > 1e-7:
                raise AnalysisError(f"{MOD}: pair ({amp}, {ph}): forward components are not an orthonormal pair and the "
                                    "inverse is not in a modelled form")

            def both(smp, _ai=ai, _pi=pi_, _vecs=vecs, _m=m, _keys=keys):
                c_, f_ = _inv_value(_ai, smp), _inv_value(_pi, smp)
                got = tuple(c_ * (_vecs[k][0] * math.cos(_m * f_) + _vecs[k][1] * math.sin(_m * f_)) for k in _keys)
                return got, tuple(smp[k] for k in _keys)

            try:
                cex = _first_counterexample(set(cart), both, c2p.qualname,
                                            show=set(keys) | set(ai.keys if ai.kind == "fn" else ())
                                            | set(pi_.keys if pi_.kind == "fn" else ()))
            except _NotNumeric:
                cex = ()
            bad_st = ast_ if ai.kind == "fn" else pst
            bad_sym = amp if ai.kind == "fn" else ph
            if cex is None:
                raise AnalysisError(f"{c2p.qualname}: {bad_sym} = `{norm_text(bad_st.value)[:60]}` reproduces the "
                                    "components at every sample point but is not one of the recognised magnitude / "
                                    "angle forms (cannot be proven)")
            if cex == ():
                problems.append(f"{amp} is rebuilt by `{norm_text(ast_.value)[:60]}` and {ph} by "
                                f"`{norm_text(pst.value)[:60]}`: not sigma*sqrt of the squares of {sorted(keys)} with "
                                f"tau*arctan2/m")
            else:
                problems.append(f"{bad_sym} is rebuilt by `{norm_text(bad_st.value)[:70]}`, which is not "
                                + (f"sigma*sqrt({keys[0]}^2 + {keys[1]}^2)" if ai.kind == "fn" else
                                   f"tau*arctan2 of {sorted(keys)}/m") +
                                f": for {cex[0]} the rebuilt ({amp}, {ph}) = ({_inv_value(ai, cex[3]):.6g}, "
                                f"{_inv_value(pi_, cex[3]):.6g}) gives back ({', '.join(keys)}) = "
                                f"({', '.join(f'{x:.6g}' for x in cex[1])}) instead of "
                                f"({', '.join(f'{x:.6g}' for x in cex[2])})")
            ctx.violation("R-HARMONIC", cons, where, "; ".join(problems), key_detail="pair")
            continue
        if ai.kind == "smag":
            problems.append(f"{amp} is rebuilt as a magnitude carrying the sign of {ai.keys[-1]} "
                            f"(`{norm_text(ast_.value)[:60]}`) while {ph} is a full-quadrant arctan2: the sign is "
                            f"counted twice, so for {ai.keys[-1]} < 0 the round trip returns the negated components")
        elif ai.kind != "mag" or set(ai.keys) != set(keys):
            problems.append(f"{amp} is rebuilt by `{norm_text(ast_.value)[:60]}`, not by sigma*sqrt of the squares of "
                            f"{sorted(keys)}")
        elif abs(abs(ai.scale) - 1.0) > TOL:
            problems.append(f"{amp} is rebuilt with factor {ai.scale:g}; only +-1 preserves the magnitude")
        if pi_.kind != "ang" or set(pi_.keys) != set(keys):
            problems.append(f"{ph} is rebuilt by `{norm_text(pst.value)[:60]}`, not by tau*arctan2 of {sorted(keys)}/m")
        if not problems:
            vecs = {k: comps[k][3] for k in keys}
            # components must be orthonormal harmonics for sqrt(A^2+B^2) = |C|
            (p1, q1), (p2, q2) = vecs[keys[0]], vecs[keys[1]]
            if abs(p1 * p1 + p2 * p2 - 1) > 1e-7 or abs(q1 * q1 + q2 * q2 - 1) > 1e-7 or abs(p1 * q1 + p2 * q2) > 1e-7:
                problems.append(f"components {keys[0]} ~ {_fmt(vecs[keys[0]])}, {keys[1]} ~ {_fmt(vecs[keys[1]])} (in "
                                f"the basis cos/sin({m:g} {ph})) are not an orthonormal pair: sqrt(A^2+B^2) != |{amp}|")
            sigma = ai.scale
            if abs(pi_.scale) < TOL:
                problems.append(f"{ph} is rebuilt with factor 0")
            else:
                mprime = 1.0 / abs(pi_.scale)
                tau = 1.0 if pi_.scale > 0 else -1.0
                if abs(mprime - m) > 1e-7:
                    problems.append(f"{ph} is rebuilt as arctan2(...)/{mprime:g} but the components rotate with "
                                    f"{m:g}*{ph}")
                u, v = vecs[pi_.keys[0]], vecs[pi_.keys[1]]
                sv = (sigma * v[0], sigma * v[1])
                su = (sigma * tau * u[0], sigma * tau * u[1])
                if not _close(sv, (1.0, 0.0)):
                    problems.append(f"sigma*V = {_fmt(sv)} in the basis (cos, sin)({m:g} {ph}), expected (1, 0): "
                                    f"{amp}'*cos(m {ph}') != {amp}*cos(m {ph})")
                if not _close(su, (0.0, 1.0)):
                    problems.append(f"sigma*tau*U = {_fmt(su)}, expected (0, 1): {amp}'*sin(m {ph}') != "
                                    f"{amp}*sin(m {ph})")
        ctx.check(not problems, "R-HARMONIC", cons, where,
                  f"m={m:g}; " + ", ".join(f"{k} ~ {_fmt(comps[k][3])}" for k in sorted(keys))
                  + f"; sigma={ai.scale:+g}, angle factor={pi_.scale:+.4g}, arctan2{pi_.keys}"
                  if ai.kind == "mag" and pi_.kind == "ang" else "",
                  "; ".join(problems), key_detail="pair")
    ctx.require(n_inst >= 3, "fewer than three coefficient groups recognised in the conversion functions")
    # polar keys rebuilt from something that is neither a scalar nor a pair partner
    for sym, (inv, st) in sorted(pol.items()):
        if inv.kind == "const":
            ctx.violation("R-HARMONIC", f"{MOD}:constant {sym}", c2p.loc(st),
                          f"{sym} is rebuilt as the constant {inv.scale:g}", key_detail="const")


# ---- added after the seeded change C22-r4seed0: every conversion returns a mapping of its own
_inner_run_c22 = run

_FRESH_MAPPING_CALLS = {"dict", "defaultdict", "OrderedDict"}


def _fresh_mapping(v: ast.AST) -> bool:
    if isinstance(v, (ast.Dict, ast.DictComp)):
        return True
    if isinstance(v, ast.Call) and (last_attr(v) or dotted(v.func) or "") in _FRESH_MAPPING_CALLS:
        return True
    if isinstance(v, ast.Call) and isinstance(v.func, ast.Attribute) and v.func.attr == "copy" and not v.args:
        return True
    if isinstance(v, ast.Call) and dotted(v.func) in ("copy.copy", "copy.deepcopy", "copy", "deepcopy"):
        return True
    return False


def _mutable_default(d: ast.AST) -> bool:
    return isinstance(d, (ast.Dict, ast.List, ast.Set, ast.DictComp, ast.ListComp)) or (
        isinstance(d, ast.Call) and (last_attr(d) or dotted(d.func) or "") in _FRESH_MAPPING_CALLS | {"list", "set"})


def _fresh_result(ctx, f) -> None:
    from ..cfg import DataFlow

    df = DataFlow(f.node)
    a = f.node.args
    pos = a.posonlyargs + a.args
    defaults = dict(zip([x.arg for x in pos[len(pos) - len(a.defaults):]], a.defaults))
    defaults.update({x.arg: d for x, d in zip(a.kwonlyargs, a.kw_defaults) if d is not None})
    rets = [r for r in walk_no_nested(f.node) if isinstance(r, ast.Return) and r.value is not None]
    ctx.require(bool(rets), f"{f.qualname}: no return")
    for r in rets:
        problems = []

        def origins(e, at, depth=0):
            if depth > 10:
                raise AnalysisError(f"{f.qualname}: definitions of the returned mapping are too deep")
            if _fresh_mapping(e):
                return
            if isinstance(e, ast.Name):
                rd = df.reaching(at, e.id)
                if not rd:
                    problems.append(f"`{e.id}` is not defined in the function (a module-level object shared by all calls)")
                for d in rd:
                    if d.kind == "param":
                        if e.id in defaults and _mutable_default(defaults[e.id]):
                            problems.append(f"the default value of parameter `{e.id}` (`{norm_text(defaults[e.id])}`), "
                                            "one object created at definition time and shared by all calls")
                        # a mapping handed in by the caller is the caller's own business
                    elif d.kind == "assign" and d.value is not None:
                        origins(d.value, d.node, depth + 1)
                    elif d.kind in ("store", "aug", "call"):
                        continue  # writes into the mapping, not a rebinding
                    else:
                        raise AnalysisError(f"{f.qualname}: returned mapping defined by a {d.kind}")
                return
            if isinstance(e, ast.IfExp):
                origins(e.body, at, depth + 1)
                origins(e.orelse, at, depth + 1)
                return
            raise AnalysisError(f"{f.qualname}: returned mapping `{norm_text(e)[:50]}` of unknown origin")

        origins(r.value, df.cfg.node_of(r).idx)
        ctx.check(not problems, "R-FRESHRESULT", f"{f.qualname}:returned mapping", f.loc(r),
                  "the returned mapping is created inside the call on every path",
                  "the returned mapping can be " + "; ".join(problems) + ": the next conversion overwrites the "
                  "coefficients of every result returned before, so a round-tripped set kept while another one is "
                  "converted no longer reproduces chi", key_detail="fresh")


def run(ctx) -> None:  # noqa: F811
    ctx.rule("R-FRESHRESULT", "the mapping a conversion returns is created inside that call (dict()/{}/a copy) on every "
             "path: reaching definitions of the returned name are followed back; a parameter whose default is a "
             "mutable object, or a module-level mapping, is one object shared by all calls — each call is right on its "
             "own, but a later conversion rewrites the coefficients held by earlier results")
    for name in ("polar2cartesian", "cartesian2polar"):
        _fresh_result(ctx, ctx.repo.function(MOD, name))
    _inner_run_c22(ctx)


# ---- added after the seeded change C22-r6seed0: the conversions act element-wise on series of coefficient sets
_inner_run_c22_b = run

_REDUCERS = {"sum", "nansum", "mean", "nanmean", "average", "max", "min", "amax", "amin", "nanmax", "nanmin", "prod",
             "nanprod", "std", "nanstd", "var", "nanvar", "median", "nanmedian", "norm", "ptp", "any", "all",
             "cumsum", "cumprod", "nancumsum", "sort", "argmax", "argmin", "count_nonzero", "trapz", "trapezoid"}
_CONTRACTIONS = {"dot", "vdot", "inner", "matmul", "tensordot", "einsum", "trace", "outer"}
_BUILTIN_REDUCERS = {"sum", "max", "min", "any", "all"}
_STACK_AT_0 = {"array", "asarray", "asanyarray", "ascontiguousarray"}
_ELEMENTWISE_FUNCS = {"abs", "absolute", "fabs", "sqrt", "square", "power", "cos", "sin", "tan", "arctan", "arctan2",
                      "atan", "atan2", "arcsin", "arccos", "exp", "log", "hypot", "negative", "sign", "copysign",
                      "maximum", "minimum", "fmax", "fmin", "multiply", "add", "subtract", "divide", "true_divide",
                      "real", "imag", "conj", "conjugate", "angle", "float", "complex", "float64", "complex128",
                      "deg2rad", "rad2deg", "radians", "degrees", "where", "nan_to_num", "mod", "remainder", "fmod"}
_ELEMENTWISE_METHODS = {"astype", "copy", "conj", "conjugate", "real", "imag"}


class _SeriesShapes:
    """Which axis of an intermediate array counts the *stacked coefficients* (rows written out in the source) — as
    opposed to the axes of a coefficient itself, which enumerate the members of a series of coefficient sets."""

    def __init__(self, f):
        self.f = f
        self.inp = f.positional_params[0]
        self.assigns: dict[str, list] = {}
        self.mappings: set[str] = {self.inp}
        opaque: set[str] = set()
        for n in walk_no_nested(f.node):
            if isinstance(n, ast.Assign):
                for t in n.targets:
                    if isinstance(t, ast.Name):
                        self.assigns.setdefault(t.id, []).append(n.value)
                    elif isinstance(t, (ast.Tuple, ast.List)) and isinstance(n.value, (ast.Tuple, ast.List)) and \
                            len(t.elts) == len(n.value.elts) and all(isinstance(x, ast.Name) for x in t.elts):
                        for x, v in zip(t.elts, n.value.elts):
                            self.assigns.setdefault(x.id, []).append(v)
                    elif isinstance(t, ast.Subscript) and isinstance(t.value, ast.Name):
                        self.mappings.add(t.value.id)
                        self.assigns.setdefault(t.value.id, []).append(n.value)
                    else:
                        opaque |= {x.id for x in ast.walk(t) if isinstance(x, ast.Name)}
            elif isinstance(n, ast.AnnAssign) and isinstance(n.target, ast.Name) and n.value is not None:
                self.assigns.setdefault(n.target.id, []).append(n.value)
            elif isinstance(n, ast.AugAssign):
                tn = n.target.id if isinstance(n.target, ast.Name) else (
                    n.target.value.id if isinstance(n.target, ast.Subscript) and isinstance(n.target.value, ast.Name)
                    else None)
                if tn is not None:
                    self.assigns.setdefault(tn, []).append(n.value)
            elif isinstance(n, (ast.For, ast.comprehension)):
                for x in ast.walk(n.target):
                    if isinstance(x, ast.Name):
                        self.assigns.setdefault(x.id, []).append(n.iter)
                        opaque.add(x.id)
            elif isinstance(n, ast.NamedExpr):
                self.assigns.setdefault(n.target.id, []).append(n.value)
        self.opaque = opaque
        self.tainted_names = {self.inp}
        changed = True
        while changed:
            changed = False
            for name, vals in self.assigns.items():
                if name not in self.tainted_names and any(self.tainted(v) for v in vals):
                    self.tainted_names.add(name)
                    changed = True

    def tainted(self, e: ast.AST) -> bool:
        return any(isinstance(x, ast.Name) and x.id in self.tainted_names for x in ast.walk(e))

    def keys_of(self, e: ast.AST, depth: int = 0) -> set:
        out: set[str] = set()
        for x in ast.walk(e):
            if isinstance(x, ast.Subscript) and isinstance(x.value, ast.Name) and x.value.id in self.mappings and \
                    isinstance(x.slice, ast.Constant) and isinstance(x.slice.value, str):
                out.add(x.slice.value)
            elif isinstance(x, ast.Name) and x.id not in self.mappings and depth < 6:
                for v in self.assigns.get(x.id, []):
                    out |= self.keys_of(v, depth + 1)
        return out

    # ---- classification of a call
    def reduction(self, n: ast.Call):
        """None, or (name, operand, axis expression | None | "first") for a call that combines different elements of
        its operand: "first" is the iteration of a builtin over the first axis."""
        fn = last_attr(n)
        func = n.func
        axis_kw = next((k.value for k in n.keywords if k.arg == "axis"), None)
        if isinstance(func, ast.Name):
            if fn in _BUILTIN_REDUCERS:
                if fn in ("max", "min") and len(n.args) >= 2:
                    return None  # pairwise maximum of the arguments, element by element
                if len(n.args) >= 1:
                    return fn, n.args[0], "first"
                return None
            if fn in _REDUCERS | _CONTRACTIONS and n.args:  # `from numpy.linalg import norm`
                return self._function_form(fn, n, axis_kw)
            return None
        if not isinstance(func, ast.Attribute):
            return None
        if _is_module_receiver(func):
            if fn in _REDUCERS | _CONTRACTIONS and n.args:
                return self._function_form(fn, n, axis_kw)
            return None
        if fn in _REDUCERS | _CONTRACTIONS and self.tainted(func.value):
            if fn in _CONTRACTIONS:
                return fn, func.value, "contraction"
            if len(n.args) > 1:
                raise AnalysisError(f"{self.f.qualname}: arguments of `{norm_text(n)[:60]}` are not modelled")
            return fn, func.value, axis_kw if axis_kw is not None else (n.args[0] if n.args else None)
        return None

    def _function_form(self, fn, n, axis_kw):
        if fn in _CONTRACTIONS:
            return fn, n, "contraction"
        pos = 2 if fn == "norm" else 1
        if fn in ("trapz", "trapezoid", "count_nonzero", "sort") or len(n.args) > pos + 1:
            if axis_kw is None and len(n.args) > 1:
                raise AnalysisError(f"{self.f.qualname}: arguments of `{norm_text(n)[:60]}` are not modelled")
            return fn, n.args[0], axis_kw
        return fn, n.args[0], axis_kw if axis_kw is not None else (n.args[pos] if len(n.args) > pos else None)

    def axis_value(self, a):
        """None (all elements) | int | "first" | "contraction" | "other" (a tuple of axes)."""
        if a is None or isinstance(a, str):
            return a
        if isinstance(a, ast.Constant) and a.value is None:
            return None
        if isinstance(a, ast.Constant) and isinstance(a.value, int) and not isinstance(a.value, bool):
            return a.value
        if isinstance(a, ast.UnaryOp) and isinstance(a.op, ast.USub) and isinstance(a.operand, ast.Constant) and \
                isinstance(a.operand.value, int):
            return -a.operand.value
        if isinstance(a, ast.Tuple):
            return "other"
        raise AnalysisError(f"{self.f.qualname}: reduction axis `{norm_text(a)[:40]}` is not a literal")

    # ---- shape of an operand
    def shape(self, e: ast.expr, depth: int = 0):
        """("const",) no coefficient involved | ("plain",) an element-wise function of coefficients: every axis
        enumerates the series | ("stack", k) coefficients stacked along axis k."""
        q = self.f.qualname
        if depth > 12:
            raise AnalysisError(f"{q}: definitions of a reduced array are too deep")
        if not self.tainted(e):
            return ("const",)
        if isinstance(e, (ast.List, ast.Tuple)):
            for x in e.elts:
                if isinstance(x, ast.Starred) or self.shape(x, depth + 1)[0] == "stack":
                    raise AnalysisError(f"{q}: nested stacking `{norm_text(e)[:60]}` is not modelled")
            return ("stack", 0)
        if isinstance(e, ast.Name):
            if e.id in self.mappings or e.id in self.opaque or e.id not in self.assigns:
                raise AnalysisError(f"{q}: a reduction over `{e.id}` (a mapping or a loop variable) is not modelled")
            shapes = {self.shape(v, depth + 1) for v in self.assigns[e.id]}
            if len(shapes) != 1:
                raise AnalysisError(f"{q}: a reduced array has definitions of different layouts")
            return shapes.pop()
        if isinstance(e, ast.Subscript):
            if isinstance(e.value, ast.Name) and e.value.id in self.mappings:
                return ("plain",)
            raise AnalysisError(f"{q}: indexing `{norm_text(e)[:50]}` inside a reduction is not modelled")
        if isinstance(e, ast.Attribute) and e.attr in ("real", "imag"):
            return self.shape(e.value, depth + 1)
        if isinstance(e, (ast.BinOp, ast.UnaryOp, ast.IfExp, ast.Compare, ast.BoolOp)):
            return self._combine([self.shape(c, depth + 1) for c in ast.iter_child_nodes(e) if isinstance(c, ast.expr)])
        if isinstance(e, ast.Call):
            if self.reduction(e) is not None:
                return ("plain",)  # judged as a reduction of its own
            fn = last_attr(e)
            func = e.func
            if isinstance(func, ast.Attribute) and not _is_module_receiver(func):
                if fn == "get" and isinstance(func.value, ast.Name) and func.value.id in self.mappings:
                    return ("plain",)
                if fn in _ELEMENTWISE_METHODS:
                    return self.shape(func.value, depth + 1)
                raise AnalysisError(f"{q}: method `{fn}` inside a reduction is not modelled")
            if fn in _STACK_AT_0 and e.args:
                return self.shape(e.args[0], depth + 1)
            if fn == "stack" and e.args:
                inner = self.shape(e.args[0], depth + 1)
                if inner != ("stack", 0) or not isinstance(e.args[0], (ast.List, ast.Tuple)):
                    raise AnalysisError(f"{q}: `{norm_text(e)[:60]}` does not stack a written-out list")
                ax = next((k.value for k in e.keywords if k.arg == "axis"), e.args[1] if len(e.args) > 1 else None)
                k = 0 if ax is None else self.axis_value(ax)
                if not isinstance(k, int):
                    raise AnalysisError(f"{q}: stacking axis of `{norm_text(e)[:60]}` is not an integer literal")
                return ("stack", k)
            if fn in _ELEMENTWISE_FUNCS:
                return self._combine([self.shape(a, depth + 1) for a in e.args])
            raise AnalysisError(f"{q}: call `{norm_text(e)[:60]}` inside a reduction is not modelled")
        raise AnalysisError(f"{q}: expression `{norm_text(e)[:60]}` inside a reduction is not modelled")

    def _combine(self, shapes):
        stacks = {s for s in shapes if s[0] == "stack"}
        if len(stacks) > 1:
            raise AnalysisError(f"{self.f.qualname}: arrays stacked along different axes are combined")
        if stacks:
            return stacks.pop()
        return ("plain",) if any(s[0] == "plain" for s in shapes) else ("const",)


def _elementwise(ctx, f) -> None:
    sh = _SeriesShapes(f)
    rets = [r for r in walk_no_nested(f.node) if isinstance(r, ast.Return) and r.value is not None]
    out_names = {r.value.id for r in rets if isinstance(r.value, ast.Name)}
    roots = []  # (value expression, statement)
    for st in walk_no_nested(f.node):
        if isinstance(st, (ast.Assign, ast.AugAssign, ast.AnnAssign)) and st.value is not None:
            roots.append((st.value, st))
        elif isinstance(st, ast.Return) and st.value is not None:
            roots.append((st.value, st))
    ctx.require(bool(roots), f"{f.qualname}: no value is computed")
    n_red = 0
    seen: set[int] = set()
    for value, st in roots:
        stored = None
        if isinstance(st, ast.Assign) and len(st.targets) == 1 and isinstance(st.targets[0], ast.Subscript) and \
                isinstance(st.targets[0].value, ast.Name) and st.targets[0].value.id in out_names and \
                isinstance(st.targets[0].slice, ast.Constant) and isinstance(st.targets[0].slice.value, str):
            stored = st.targets[0].slice.value
        for n in ast.walk(value):
            if not isinstance(n, ast.Call) or id(n) in seen:
                continue
            seen.add(id(n))
            red = sh.reduction(n)
            if red is None:
                continue
            name, operand, axis = red
            if axis == "contraction":
                if not sh.tainted(n):
                    continue
                n_red += 1
                args = [a for a in ([n.func.value] if operand is not n else []) + list(n.args) if sh.tainted(a)]
                if all(sh.shape(a) == ("plain",) for a in args):
                    keys = sorted(sh.keys_of(n))
                    ctx.violation("R-ELEMENTWISE", f"{f.qualname}:{stored or name + '(' + ','.join(keys) + ')'}",
                                  f.loc(n), f"`{norm_text(n)[:70]}` contracts the coefficient arrays {keys}: for a "
                                  "series of coefficient sets it sums over the members of the series, so the result is "
                                  "no longer the per-member value (one coefficient set alone hides this)",
                                  key_detail=name)
                    continue
                raise AnalysisError(f"{f.qualname}: contraction `{norm_text(n)[:60]}` of stacked coefficients is not "
                                    "modelled")
            shp = sh.shape(operand)
            if shp[0] == "const":
                continue
            n_red += 1
            ax = sh.axis_value(axis)
            keys = sorted(sh.keys_of(operand))
            cons = f"{f.qualname}:{stored or name + '(' + ','.join(keys) + ')'}"
            call = norm_text(n)[:80]
            if shp[0] == "stack":
                k = shp[1]
                own = (ax == k) or (ax == "first" and k == 0)
                if own:
                    ctx.ok("R-ELEMENTWISE", cons, f.loc(n),
                           f"`{call}` combines the {len(keys)} stacked coefficients {keys} along the stacking axis "
                           f"{k} only: element-wise over a series")
                    continue
                how = ("has no axis argument (axis=None)" if ax is None else
                       f"runs over axis {ax}, not over the stacking axis {k}" if isinstance(ax, int) else
                       "runs over several axes")
                ctx.violation("R-ELEMENTWISE", cons, f.loc(n),
                              f"`{call}` {how}: the coefficients {keys} are stacked along axis {k} and each of them may "
                              "be an array (a series of coefficient sets, which every other operation of the conversion "
                              "treats element by element); this call then combines ALL elements of the stacked array "
                              "(for norm: one Frobenius norm of the 2 x n array) instead of the two components of each "
                              "member, while the other coefficients stay per member, so the round trip no longer "
                              "reproduces chi for the members of the series; a single coefficient set hides it "
                              f"(give the stacking axis: axis={k})", key_detail=name)
                continue
            ctx.violation("R-ELEMENTWISE", cons, f.loc(n),
                          f"`{call}` reduces over the elements of the coefficient array(s) {keys}: for a series of "
                          "coefficient sets the result mixes the members of the series (a single number is left "
                          "unchanged by it, which hides this), while the other coefficients stay per member, so the "
                          "round trip no longer reproduces chi for each member", key_detail=name)
    if not any(i.rule == "R-ELEMENTWISE" and i.construct.startswith(f.qualname + ":") for i in ctx.instances):
        ctx.ok("R-ELEMENTWISE", f"{f.qualname}:values", f.where,
               f"{len(roots)} value expressions: no reduction, contraction or cumulative call is applied to coefficient "
               "values")


def run(ctx) -> None:  # noqa: F811
    from ..rules import deferred

    ctx.rule("R-ELEMENTWISE", "every coefficient a conversion returns is an element-wise function of the input "
             "coefficients: the conversions are built from numpy ufuncs, so a coefficient may be an array (a series of "
             "coefficient sets) and the round trip must reproduce chi for every member.  Every call in a value "
             "expression that combines different elements of its operand (sum / mean / max / norm / dot ... in function, "
             "method or builtin form) is located and its operand classified by following local definitions: a "
             "written-out stack of coefficients ([a, b], np.array, np.stack with a literal axis) may be reduced along "
             "its stacking axis only; a reduction without axis, along another axis, or of a coefficient array itself "
             "mixes the members of the series.  (Whether the value is the right one for a single coefficient set is "
             "decided by R-HARMONIC, which reads such a reduction as what it does to one set.)")

    def new():
        for name in ("polar2cartesian", "cartesian2polar"):
            _elementwise(ctx, ctx.repo.function(MOD, name))

    deferred.run(ctx, new, _inner_run_c22_b)
