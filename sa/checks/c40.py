"""C40 — center of mass: the coordinate clause.

The center of mass is sum(I * coordinate) over the pattern axes.  Whatever the numerical details, three
structural conditions are necessary for it to be the intensity-weighted mean frequency/angle:

R-SHIFT      (shared with C14, sa/rules/shift_typestate.py) the coordinate vectors handed to `_com` are ordered like
             the array: for every (fftshift flag, units) `center_of_mass` — evaluated through `angular_coordinates` /
             `coordinates` — multiplies self.array with coordinates of the array's own layout, in the lazy and the
             eager arm; no shift is applied to data that is already in the target layout.
R-COORDAXES  the k-th coordinate vector is built from axis k's own limits/metadata and length (limits[k] with
             shape[-2+k]); `_com` weights the array with x along axis -2 (x[:, None]) and with y along axis -1
             (y[None]), sums over exactly the two pattern axes and returns com_x + 1j*com_y; `center_of_mass`
             unpacks (x, y) in the order the properties return them and hands them on as x=x, y=y in both arms.
"""
from __future__ import annotations

import ast

from ..cfg import DataFlow
from ..model import AnalysisError, bind_args, dotted, last_attr, norm_text, walk_no_nested
from ..rules import shift_typestate as ts
from ..rules.reductions import SumNorm
from ..rules.shift_typestate import Spec, flag_layout
from ..terms import FlowNormalizer, Normalizer, Poly
from .c14 import DP, MEAS, _shift_rule_text, _stmt_of, center_of_mass_spec, make_interp


def _axis_ids(expr: ast.AST, limit_names: set[str]) -> set[int]:
    """Axis numbers (0 = x / array axis -2, 1 = y / array axis -1) an expression refers to through constant
    subscripts of limits-like lists (index k) and shape-like tuples (index -2+k)."""
    out = set()
    for n in ast.walk(expr):
        if isinstance(n, ast.Subscript) and isinstance(n.slice, (ast.Constant, ast.UnaryOp)):
            try:
                k = ast.literal_eval(n.slice)
            except Exception:
                continue
            if not isinstance(k, int):
                continue
            d = dotted(n.value)
            if d is None:
                continue
            last = d.split(".")[-1]
            if d in limit_names:
                if k in (0, 1):
                    out.add(k)
                elif k in (-2, -1):
                    out.add(k + 2)
            elif last in ("shape", "base_shape", "axes_metadata", "base_axes_metadata", "sampling", "angular_sampling"):
                if k in (-2, -1):
                    out.add(k + 2)
                elif k in (0, 1) and last in ("base_shape", "base_axes_metadata", "sampling", "angular_sampling"):
                    out.add(k)
    return out


def _resolve(df: DataFlow, node: int, e: ast.expr, depth: int = 0) -> list[ast.expr]:
    """Expression(s) a returned element stands for: names followed through (possibly several) definitions,
    shift wrappers stripped."""
    if depth > 6:
        return [e]
    while isinstance(e, ast.Call) and last_attr(e) in ("fftshift", "ifftshift", "asarray", "tuple") and e.args:
        e = e.args[0]
    if isinstance(e, ast.Name):
        out = []
        for d in df.reaching(node, e.id):
            if d.kind == "assign" and d.value is not None:
                out += _resolve(df, d.node, d.value, depth + 1)
        return out or [e]
    return [e]


def _coord_axes(ctx, repo) -> None:
    for pname in ("angular_coordinates", "coordinates"):
        f = repo.method(MEAS, DP, pname)
        df = DataFlow(f.node)
        limit_names = set()
        for st in walk_no_nested(f.node):
            if isinstance(st, ast.Assign) and isinstance(st.targets[0], ast.Name) and dotted(st.value) in (
                    "self.limits", "self.angular_limits"):
                limit_names.add(st.targets[0].id)
        limit_names |= {"self.limits", "self.angular_limits"}
        rets = [r for r in walk_no_nested(f.node) if isinstance(r, ast.Return) and r.value is not None]
        ctx.require(bool(rets), f"{f.qualname}: no return")
        values = []
        for r in rets:
            stack = [r.value]
            while stack:
                v = stack.pop(0)
                if isinstance(v, ast.IfExp):
                    stack = [v.body, v.orelse] + stack
                else:
                    values.append((r, v))
        for j, (r, value) in enumerate(values):
            ctx.require(isinstance(value, ast.Tuple) and len(value.elts) == 2, f"{f.qualname}: does not return a pair")
            node = df.cfg.node_of(r).idx
            for k, el in enumerate(value.elts):
                ids = set()
                srcs = _resolve(df, node, el)
                for s in srcs:
                    ids |= _axis_ids(s, limit_names)
                ctx.require(bool(ids), f"{f.qualname}: element {k} of the returned pair refers to no axis "
                                       f"({'; '.join(norm_text(s)[:40] for s in srcs)})")
                ctx.check(ids == {k}, "R-COORDAXES", f"{f.qualname}:return#{j + 1} element {k}", f.loc(r),
                          f"coordinate vector {k} is built from axis {k - 2} only",
                          f"coordinate vector {k} (for array axis {k - 2}) is built from the limits/length of axes "
                          f"{sorted(i - 2 for i in ids)}: wrong for non-square patterns", key_detail="axis")


def _com_structure(ctx, repo) -> None:
    f = repo.method(MEAS, DP, "_com")
    ctx.require(len(f.positional_params) == 3, f"{f.qualname}: signature (array, x, y) expected")
    A, X, Y = f.positional_params
    df = DataFlow(f.node)
    rets = [r for r in walk_no_nested(f.node) if isinstance(r, ast.Return) and r.value is not None]
    ctx.require(len(rets) == 1, f"{f.qualname}: single return expected")
    nz = SumNorm(df, df.cfg.node_of(rets[0]).idx)
    nz.no_inline = {A, X, Y}  # which value of array/x/y is meant is R-SHIFT's business, not this rule's
    poly = nz.norm(rets[0].value)
    re_atoms, im_atoms = [], []
    for mono, c in poly.terms.items():
        names = dict(mono)
        sums = [a for a in names if a in nz.sums]
        ctx.require(len(sums) == 1 and c == 1 and all(e == 1 for e in names.values()),
                    f"{f.qualname}: result {poly.key()[:80]} is not com_x + 1j*com_y of two reductions")
        rest = set(names) - set(sums)
        if rest == set():
            re_atoms.append(sums[0])
        elif rest == {"𝑖"}:
            im_atoms.append(sums[0])
        else:
            raise AnalysisError(f"{f.qualname}: unexpected factor {rest} in the result")
    ctx.require(len(re_atoms) == 1 and len(im_atoms) == 1, f"{f.qualname}: result is not real + 1j*imag")
    mk = lambda s: Normalizer().norm(ast.parse(s, mode="eval").body)
    forms = {
        "x-rows": [mk(f"{A} * {X}[:, None]"), mk(f"{A} * {X}[..., :, None]")],
        "y-cols": [mk(f"{A} * {Y}[None]"), mk(f"{A} * {Y}[None, :]"), mk(f"{A} * {Y}[..., None, :]")],
        "x-cols": [mk(f"{A} * {X}[None]"), mk(f"{A} * {X}[None, :]")],
        "y-rows": [mk(f"{A} * {Y}[:, None]")],
    }

    def classify(p: Poly) -> str:
        for name, alts in forms.items():
            if p in alts:
                return name
        raise AnalysisError(f"{f.qualname}: weighted array {p.key()[:80]} not recognised")

    for part, atom, want in (("real", re_atoms[0], "x-rows"), ("imaginary", im_atoms[0], "y-cols")):
        s = nz.sums[atom]
        got = classify(s["operand"])
        ctx.check(got == want, "R-COORDAXES", f"{f.qualname}:{part} part", f.loc(s["node"]),
                  f"{part} part = sum(array * {'x[:, None]' if want == 'x-rows' else 'y[None]'})",
                  f"the {part} part weights the array with {got.replace('-', ' along ')}; the x-coordinates belong to "
                  "array axis -2 and the real part, the y-coordinates to axis -1 and the imaginary part",
                  key_detail="weight")
        ctx.check(s["axes"] == (-2, -1), "R-COORDAXES", f"{f.qualname}:{part} reduction", f.loc(s["node"]),
                  "summed over the two pattern axes", f"the {part} part is summed over axes {s['axes']}, not over the "
                  "two pattern axes (-2, -1)", key_detail="axes")

    # center_of_mass: unpack order and hand-over
    cm = repo.method(MEAS, DP, "center_of_mass")
    dfc = DataFlow(cm.node)
    unpacks = [st for st in walk_no_nested(cm.node) if isinstance(st, ast.Assign) and dotted(st.value) in (
        "self.angular_coordinates", "self.coordinates")]
    ctx.require(len(unpacks) == 2, f"{cm.qualname}: expected one unpack per unit arm")
    names = set()
    for st in unpacks:
        t = st.targets[0]
        ctx.require(isinstance(t, ast.Tuple) and len(t.elts) == 2 and all(isinstance(e, ast.Name) for e in t.elts),
                    f"{cm.qualname}: coordinates not unpacked into a pair of names")
        names.add((t.elts[0].id, t.elts[1].id))
    ctx.require(len(names) == 1, f"{cm.qualname}: the unit arms unpack into different names {names}")
    (first, second), = names
    seen = set()
    for c in walk_no_nested(cm.node):
        if not isinstance(c, ast.Call):
            continue
        arm = None
        if last_attr(c) == "map_blocks" and c.args and last_attr(c.args[0]) == f.name:
            arm, bound = "lazy", {k.arg: k.value for k in c.keywords if k.arg}
        elif last_attr(c) == f.name and isinstance(c.func, ast.Attribute):
            arm, bound = "eager", bind_args(c, f)
        if arm is None:
            continue
        seen.add(arm)
        nzc = FlowNormalizer(dfc, dfc.cfg.node_of(_stmt_of(cm, c)).idx, identity_calls={"xp.asarray", "np.asarray"})
        gx = nzc.norm(bound[X]).key() if X in bound else "<missing>"
        gy = nzc.norm(bound[Y]).key() if Y in bound else "<missing>"
        ctx.check((gx, gy) == (f"1*{first}", f"1*{second}"), "R-COORDAXES", f"{cm.qualname}:{arm} hand-over",
                  cm.loc(c), f"{X}=first coordinate vector, {Y}=second",
                  f"{arm} arm hands {X}={gx}, {Y}={gy} to _com; the properties return (x-axis, y-axis) coordinates "
                  f"unpacked as ({first}, {second})", key_detail="handover")
    ctx.require(seen == {"lazy", "eager"}, f"{cm.qualname}: lazy/eager _com calls not found")
    # units dispatch: 'mrad' -> angular_coordinates, '1/Å' -> coordinates
    table = {}
    for st in walk_no_nested(cm.node):
        if isinstance(st, ast.If) and isinstance(st.test, ast.Compare) and len(st.test.ops) == 1 and isinstance(
                st.test.ops[0], ast.Eq) and dotted(st.test.left) == "units" and isinstance(st.test.comparators[0], ast.Constant):
            for s2 in st.body:
                if s2 in unpacks:
                    table[st.test.comparators[0].value] = dotted(s2.value)
    ctx.check(table.get("mrad") == "self.angular_coordinates" and table.get("1/Å") == "self.coordinates", "R-COORDAXES",
              f"{cm.qualname}:units", cm.where, "'mrad' -> angular_coordinates, '1/Å' -> coordinates",
              f"units dispatch is {table}: the unit named is not the unit of the coordinates used", key_detail="units")
    ctx.info("R-COORDAXES", f"{f.qualname}:normalisation", f.where,
             "_com returns the first moment sum(I*k) and does not divide by sum(I): it equals the intensity-weighted "
             "mean only for patterns normalised to unit total intensity (numerical clause, not decided)")


def run(ctx) -> None:
    repo = ctx.repo
    _shift_rule_text(ctx)
    ctx.rule("R-COORDAXES", "coordinate vector k is built from axis k's own limits and length; _com weights with "
             "x[:, None] (real part) and y[None] (imaginary part) and sums over (-2, -1); center_of_mass hands the "
             "pair on in order in both arms and maps 'mrad'/'1/Å' to angular_coordinates/coordinates")
    ctx.undecided("_integrate_gradient_2d exactness; normalisation of the first moment by the total intensity; "
                  "floating-point value of the coordinates (LinearAxis.coordinates vs linspace between limits)")
    # end-to-end: the coordinate properties are evaluated through (no contract), so the rule holds wherever the
    # shift is done (inside the properties or in center_of_mass)
    it = make_interp(repo, coordinate_contracts=())
    com = repo.method(MEAS, DP, "_com")
    A, X, Y = com.positional_params
    ts.check_spec(ctx, "R-SHIFT", it, Spec(
        com, ["centered"], lambda v: {A: flag_layout(v["centered"]), X: flag_layout(v["centered"]),
                                     Y: flag_layout(v["centered"])},
        expect=None, label="_com multiplies the array with coordinates of the array's own layout"))
    ts.check_spec(ctx, "R-SHIFT", it, center_of_mass_spec(repo))
    _coord_axes(ctx, repo)
    _com_structure(ctx, repo)


# ---- added after the seeded change C40-seed5: axis pairing inside the gradient integration
_inner_run_c40 = run


def run(ctx) -> None:  # noqa: F811
    import ast as _ast

    from ..model import call_name as _cn, dotted as _dotted, norm_text as _nt, walk_no_nested as _walk

    ctx.rule("R-GRADAXES", "_integrate_gradient_2d builds the frequency grid of axis k from the number of points and the "
             "sampling of the same axis k (x: shape[-2] with sampling[0], y: shape[-1] with sampling[1]), in 'ij' order, and "
             "pairs the x gradient with the x frequencies and the y gradient with the y frequencies: with anisotropic "
             "sampling any mismatch integrates a different field")
    f = ctx.repo.function("abtem.measurements", "_integrate_gradient_2d")
    assigns = {}
    for st in _walk(f.node):
        if isinstance(st, _ast.Assign) and len(st.targets) == 1:
            t = st.targets[0]
            if isinstance(t, _ast.Name):
                assigns[t.id] = st.value
            elif isinstance(t, _ast.Tuple):
                if isinstance(st.value, _ast.Tuple) and len(st.value.elts) == len(t.elts):
                    for a, b in zip(t.elts, st.value.elts):
                        if isinstance(a, _ast.Name):
                            assigns[a.id] = b
                else:
                    for k, a in enumerate(t.elts):
                        if isinstance(a, _ast.Name):
                            assigns[a.id] = ("unpack", st.value, k, len(t.elts))

    def axis_of(e, depth=0):
        """0 / 1 for an expression that denotes the x / y component of the grid, else None."""
        if depth > 6:
            return None
        if isinstance(e, _ast.Subscript) and isinstance(e.slice, _ast.Constant) and isinstance(e.slice.value, int):
            k = e.slice.value
            return {0: 0, 1: 1, -2: 0, -1: 1}.get(k)
        if isinstance(e, _ast.Name):
            v = assigns.get(e.id)
            if isinstance(v, tuple) and v[0] == "unpack":
                _, src, k, n = v
                if n == 2:
                    return k
                return None
            if v is not None:
                return axis_of(v, depth + 1)
        if isinstance(e, _ast.Attribute) and e.attr in ("real", "imag"):
            return 0 if e.attr == "real" else 1
        if isinstance(e, _ast.Call) and e.args:
            return axis_of(e.args[0], depth + 1)
        return None

    ff = [c for c in _walk(f.node) if isinstance(c, _ast.Call) and (_cn(c) or "").endswith("fftfreq")]
    ctx.require(len(ff) == 2, "_integrate_gradient_2d: two fftfreq calls expected")
    freq_axis = {}
    for c in ff:
        n_arg = c.args[0]
        d_arg = next((kw.value for kw in c.keywords if kw.arg == "d"), c.args[1] if len(c.args) > 1 else None)
        ctx.require(d_arg is not None, "fftfreq without a sample spacing")
        an, ad = axis_of(n_arg), axis_of(d_arg)
        if an is None or ad is None:
            from ..model import AnalysisError as _AE
            raise _AE(f"_integrate_gradient_2d: cannot resolve the axis of `{_nt(c)}`")
        ctx.check(an == ad, "R-GRADAXES", f"{f.qualname}:fftfreq axis {an}", f.loc(c),
                  f"`{_nt(c)}` pairs the size and the sampling of axis {an}",
                  f"`{_nt(c)}` pairs the number of points of axis {an} with the sampling of axis {ad}", key_detail=f"freq{an}")
        for name, v in assigns.items():
            if v is c:
                freq_axis[name] = an
    mg = [c for c in _walk(f.node) if isinstance(c, _ast.Call) and (_cn(c) or "").endswith("meshgrid")]
    ctx.require(len(mg) == 1, "_integrate_gradient_2d: meshgrid not found")
    order = [freq_axis.get(_dotted(a)) for a in mg[0].args[:2]]
    ij = any(kw.arg == "indexing" and isinstance(kw.value, _ast.Constant) and kw.value.value == "ij" for kw in mg[0].keywords)
    ctx.check(order == [0, 1] and ij, "R-GRADAXES", f"{f.qualname}:meshgrid", f.loc(mg[0]),
              "frequency grids in (x, y) 'ij' order", f"`{_nt(mg[0])}` does not build the (x, y) grids in 'ij' order",
              key_detail="meshgrid")
    grid_axis = {}
    for name, v in assigns.items():
        if isinstance(v, tuple) and v[0] == "unpack" and v[1] is mg[0]:
            grid_axis[name] = v[2]
    prods = [b for b in _walk(f.node) if isinstance(b, _ast.BinOp) and isinstance(b.op, _ast.Mult)
             and any(isinstance(c, _ast.Call) and (_cn(c) or "").endswith("fft2") for c in (b.left, b.right))]
    ctx.require(len(prods) >= 2, "_integrate_gradient_2d: gradient x frequency products not found")
    for b in prods:
        call, other = (b.left, b.right) if isinstance(b.left, _ast.Call) else (b.right, b.left)
        ga = axis_of(call.args[0]) if call.args else None
        ka = grid_axis.get(_dotted(other))
        if ga is None or ka is None:
            continue
        ctx.check(ga == ka, "R-GRADAXES", f"{f.qualname}:product axis {ga}", f.loc(b),
                  f"gradient component {ga} multiplied by the frequencies of axis {ka}",
                  f"`{_nt(b)[:60]}` multiplies gradient component {ga} by the frequency grid of axis {ka}",
                  key_detail=f"prod{ga}")
    _inner_run_c40(ctx)


# ---- added after the seeded change C40-r3seed7: block-wise application of a global operation needs whole images
_inner_run_c40c = run


def run(ctx) -> None:  # noqa: F811
    import ast as _ast

    from ..cfg import DataFlow as _DF
    from ..model import call_name as _cn, norm_text as _nt, walk_no_nested as _walk

    ctx.rule("R-WHOLEBLOCK", "Images.integrate_gradient (and the other Images methods that map a Fourier-space operation "
             "over dask blocks) hand map_blocks an array whose two base axes are single chunks: *every* reaching "
             "definition of the mapped array is a rechunk(<chunks[:-2]> + ((shape[-2],), (shape[-1],))) of the "
             "measurement's array.  A rechunk that is skipped under a condition on one axis only lets blocks that "
             "split the other axis through: each strip is then integrated as its own periodic image and the lazy "
             "result differs from the eager one")
    repo = ctx.repo
    k = repo.cls("abtem.measurements", "Images")
    GLOBAL = {"_integrate_gradient_2d", "fft_interpolate", "_diffractograms", "fft2", "ifft2", "fft_shift"}
    n = 0
    for defs in k.methods.values():
        for f in defs:
            df = _DF(f.node)
            for c in _walk(f.node):
                if not (isinstance(c, _ast.Call) and isinstance(c.func, _ast.Attribute) and c.func.attr == "map_blocks"
                        and c.args):
                    continue
                fn = (_cn(_ast.Call(func=c.args[0], args=[], keywords=[])) or "").split(".")[-1]
                if fn not in GLOBAL:
                    continue
                recv = c.func.value
                if not isinstance(recv, _ast.Name):
                    continue
                st = next(s_ for s_ in _walk(f.node) if isinstance(s_, _ast.stmt) and any(x is c for x in _ast.walk(s_))
                          and not isinstance(s_, (_ast.If, _ast.For, _ast.With, _ast.Try, _ast.FunctionDef)))
                at = df.cfg.node_of(st).idx
                n += 1
                bad = []
                for d in df.reaching(at, recv.id):
                    v = d.value
                    ok = isinstance(v, _ast.Call) and isinstance(v.func, _ast.Attribute) and v.func.attr == "rechunk"
                    if ok:
                        spec = v.args[0] if v.args else next((kw.value for kw in v.keywords if kw.arg == "chunks"), None)
                        txt = _nt(spec).replace(" ", "") if spec is not None else ""
                        ok = txt.endswith("((self.shape[-2],),(self.shape[-1],))") or txt.endswith("(-1,-1)")
                    if not ok:
                        bad.append(_nt(v)[:50] if v is not None else d.kind)
                ctx.check(not bad, "R-WHOLEBLOCK", f"{f.qualname}:map_blocks({fn})", f.loc(c),
                          f"`{recv.id}` is always the array re-chunked to whole images",
                          f"`{recv.id}.map_blocks({fn}, ...)` can receive `{bad[0] if bad else ''}`, an array whose base axes "
                          "are not re-chunked to single blocks on that path: a block holding part of an image is "
                          "transformed as if it were a whole periodic image", key_detail="wholeblock")
    ctx.require(n >= 2, f"R-WHOLEBLOCK found only {n} block-wise Fourier operations in Images")
    _inner_run_c40c(ctx)


# ---- added after the mutation sweep (sweepF): the limits the coordinates are built from, the inverse gradient, the
# ---- axes dropped by the block-wise centre of mass
_inner_run_c40d = run


def _run_deferring(ctx, steps, inner) -> None:
    """Run the new rule groups, then the earlier rules; an AnalysisError of a new group is raised only afterwards, so
    that a violation found by any rule decides the run and a lost anchor of one group does not hide the others."""
    pending = None
    for step in steps:
        try:
            step()
        except AnalysisError as e:
            pending = pending or e
    inner(ctx)
    if pending is not None:
        raise pending


def _grad_inverse(ctx, repo) -> None:
    import ast as _ast

    from ..cfg import DataFlow as _DF
    from ..model import AnalysisError as _AE, call_name as _cn, dotted as _dotted, norm_text as _nt, walk_no_nested as _walk
    from ..rules.ratfun import Rat, RatFlow
    from ..terms import PI, Poly as _P

    f = repo.function(MEAS, "_integrate_gradient_2d")
    df = _DF(f.node)
    last = lambda c: (_cn(c) or "").split(".")[-1]
    inv = [c for c in _walk(f.node) if isinstance(c, _ast.Call) and last(c) == "ifft2"]
    ctx.require(len(inv) == 1 and len(inv[0].args) >= 1, f"{f.qualname}: expected one ifft2 call")
    st = _stmt_of(f, inv[0])
    at = df.cfg.node_of(st).idx
    # the frequency grids: the two results of meshgrid (their pairing with the axes is R-GRADAXES)
    mg = [s for s in _walk(f.node) if isinstance(s, _ast.Assign) and isinstance(s.value, _ast.Call)
          and last(s.value) == "meshgrid" and isinstance(s.targets[0], _ast.Tuple) and len(s.targets[0].elts) == 2
          and all(isinstance(e, _ast.Name) for e in s.targets[0].elts)]
    ctx.require(len(mg) == 1, f"{f.qualname}: `kx, ky = meshgrid(...)` not found")
    KX, KY = (e.id for e in mg[0].targets[0].elts)
    # locals that are a formula plus a zero-frequency guard `v[v == 0] = eps`: inline the formula, judge the guard
    extra = {}
    for name in {n.id for n in _ast.walk(f.node) if isinstance(n, _ast.Name)}:
        rd = df.reaching(at, name)
        stores = [d for d in rd if d.kind == "store"]
        strong = [d for d in rd if d.strong and d.kind == "assign"]
        if not stores or len(strong) != 1 or len(rd) != len(stores) + 1:
            continue
        for d in stores:
            s = df.cfg.nodes[d.node].ast
            t = s.targets[0] if isinstance(s, _ast.Assign) else None
            m = t.slice if isinstance(t, _ast.Subscript) else None
            okform = isinstance(m, _ast.Compare) and len(m.ops) == 1 and isinstance(m.ops[0], (_ast.Eq, _ast.NotEq)) \
                and {_dotted(m.left), _nt(m.comparators[0])} >= {name} and \
                any(isinstance(x, _ast.Constant) and x.value == 0 for x in (m.left, m.comparators[0]))
            val = s.value if isinstance(s, _ast.Assign) else None
            if not (okform and isinstance(val, _ast.Constant) and isinstance(val.value, (int, float)) and val.value > 0):
                raise _AE(f"{f.qualname}: `{_nt(s)[:50]}` is not a zero-frequency guard of `{name}`")
            ctx.check(isinstance(m.ops[0], _ast.Eq), "R-GRADINVERSE", f"{f.qualname}:zero-frequency guard", f.loc(s),
                      "only the entries that are exactly zero (the zero frequency) are replaced before dividing",
                      f"`{_nt(s)[:60]}` replaces every entry that is not zero: the squared frequencies are discarded "
                      "and the zero frequency still divides by zero", key_detail="guard")
        extra[name] = strong[0].value

    def hook(nz, call):
        if last(call) == "fft2" and len(call.args) >= 1:
            a = nz.norm(call.args[0])
            key = a.key()
            if a.is_monomial() and key.endswith(".real"):
                return _P.atom("Ĝx")
            if a.is_monomial() and key.endswith(".imag"):
                return _P.atom("Ĝy")
            raise _AE(f"{f.qualname}: fft2 of `{_nt(call.args[0])[:40]}`, which is neither the real (x) nor the "
                      "imaginary (y) part of the gradient")
        return None

    nz = RatFlow(df, at, call_hook=hook)
    nz.extra = extra
    nz.no_inline = {KX, KY}
    that = nz.rat(inv[0].args[0])
    c = _P.const(2) * _P.atom(PI) * _P.atom("𝑖")
    phi = _P.atom("Φ̂")
    got = that.subst({"Ĝx": c * _P.atom(KX) * phi, "Ĝy": c * _P.atom(KY) * phi})
    ctx.check(got == Rat(phi), "R-GRADINVERSE", f"{f.qualname}:inverse", f.loc(inv[0]),
              "with Ĝx = 2πi kx Φ̂, Ĝy = 2πi ky Φ̂ the transformed field is Φ̂ at every non-zero frequency",
              f"for the gradient of a periodic field Φ (Ĝx = 2πi kx Φ̂, Ĝy = 2πi ky Φ̂) the quantity handed to ifft2 is "
              f"{got.key()[:140]}, not Φ̂: integrating a gradient does not reproduce the generating field",
              key_detail="identity")
    # what is returned is the real part of that inverse transform, up to a constant
    rets = [r for r in _walk(f.node) if isinstance(r, _ast.Return) and r.value is not None]
    ctx.require(len(rets) == 1, f"{f.qualname}: single return expected")
    rn = df.cfg.node_of(rets[0]).idx
    sl = df.backward_slice(rn, rets[0].value)
    ctx.check(at in sl.def_nodes or rn == at, "R-GRADINVERSE", f"{f.qualname}:result", f.loc(rets[0]),
              "the returned field derives from the inverse transform",
              "the returned array does not depend on the inverse transform of the integrated field", key_detail="result")
    for d in df.reaching(rn, _dotted(rets[0].value) or ""):
        if d.kind == "aug":
            s = df.cfg.nodes[d.node].ast
            scalar = isinstance(s.value, _ast.Call) and last(s.value) in ("min", "max", "mean", "amin", "nanmin") \
                and not any(k.arg in ("axis", "keepdims") for k in s.value.keywords) or isinstance(s.value, _ast.Constant)
            ctx.check(isinstance(s.op, (_ast.Sub, _ast.Add)) and scalar, "R-GRADINVERSE", f"{f.qualname}:constant",
                      f.loc(s), "the result is only shifted by a constant",
                      f"`{_nt(s)[:60]}` changes the integrated field by more than an additive constant",
                      key_detail="constant")


def _drop_axes(ctx, repo) -> None:
    import ast as _ast

    from ..cfg import DataFlow as _DF
    from ..model import kw as _kw, norm_text as _nt, walk_no_nested as _walk

    cm = repo.method(MEAS, DP, "center_of_mass")
    com = repo.method(MEAS, DP, "_com")
    df = _DF(cm.node)
    calls = [c for c in _walk(cm.node) if isinstance(c, _ast.Call) and last_attr(c) == "map_blocks" and c.args
             and last_attr(c.args[0]) == com.name]
    ctx.require(len(calls) == 1, f"{cm.qualname}: the block-wise _com call was not found")
    c = calls[0]
    da_ = _kw(c, "drop_axis")
    ctx.require(da_ is not None, f"{cm.qualname}: map_blocks(_com) without drop_axis although _com removes two axes")
    node = df.cfg.node_of(_stmt_of(cm, c)).idx
    e, hops = da_, 0
    while isinstance(e, _ast.Name) and hops < 4:
        d = df.single_def(node, e.id)
        if d is None or d.value is None:
            break
        e, node, hops = d.value, d.node, hops + 1
    if isinstance(e, _ast.Call) and last_attr(e) == "tuple" and len(e.args) == 1:
        e = e.args[0]
    nz = FlowNormalizer(df, node)
    nd = nz.norm(ast.parse("len(self.shape)", mode="eval").body)
    ne = nz.norm(ast.parse("len(self.ensemble_shape)", mode="eval").body)
    nb = nz.norm(ast.parse("len(self.base_shape)", mode="eval").body)
    axes = None
    if isinstance(e, _ast.Call) and last_attr(e) == "range" and len(e.args) == 2:
        lo, hi = nz.norm(e.args[0]), nz.norm(e.args[1])
        good = (lo == ne and hi == ne + nb) or (lo == nd - Poly.const(2) and hi == nd) or \
               (lo == ne and hi == ne + Poly.const(2)) or (lo == ne and hi == nd)
        axes = f"range({lo.key()}, {hi.key()})"
    elif isinstance(e, _ast.Tuple) and len(e.elts) == 2:
        a, b = (nz.norm(x) for x in e.elts)
        firsts = (ne, nd - Poly.const(2), Poly.const(-2))
        good = any(a == x and b == x + Poly.const(1) for x in firsts) or any(b == x and a == x + Poly.const(1) for x in firsts)
        axes = f"({a.key()}, {b.key()})"
    else:
        raise AnalysisError(f"{cm.qualname}: drop_axis `{_nt(da_)[:50]}` is not a range or a pair of axes")
    ctx.check(good, "R-DROPAXES", f"{cm.qualname}:lazy drop_axis", cm.loc(c),
              "the lazy arm declares the two pattern axes (the ones _com sums over) as dropped",
              f"the lazy arm declares drop_axis = {axes}; _com sums over the last two axes, which are axes "
              "len(ensemble_shape) and len(ensemble_shape)+1 of the array: the lazily computed centre of mass is "
              "assembled with the wrong axes", key_detail="drop")


def run(ctx) -> None:  # noqa: F811
    from ..rules import dplimits

    repo = ctx.repo
    ctx.rule("R-GRADINVERSE", "_integrate_gradient_2d hands ifft2 a rational function of the transformed gradient "
             "components and the frequency grids that, for the gradient of a periodic field (Ĝx = 2πi kx Φ̂, Ĝy = 2πi ky "
             "Φ̂, frequencies in cycles per length as fftfreq gives them), reduces to Φ̂ identically — decided by "
             "substitution and cross-multiplication; the only other write to the denominator is the guard that replaces "
             "exact zeros, and after the inverse transform the field is changed by at most an additive constant")
    ctx.rule("R-DROPAXES", "the block-wise (lazy) centre of mass tells dask that exactly the two pattern axes disappear, "
             "the axes _com reduces over")
    ctx.rule("R-LIMITS", dplimits.RULE_TEXT)
    _run_deferring(ctx, [lambda: dplimits.check_limits(ctx, "R-LIMITS", repo),
                         lambda: dplimits.check_angular_limits(ctx, "R-LIMITS", repo),
                         lambda: dplimits.check_angular_coordinates(ctx, "R-LIMITS", repo),
                         lambda: _grad_inverse(ctx, repo), lambda: _drop_axes(ctx, repo)], _inner_run_c40d)


# ---- added after the seeded change C40-r6seed3: the dtype the coordinate vectors (and everything computed from them)
# ---- are cast to
_inner_run_c40e = run

_FLOAT_NAMES = {"float", "float16", "float32", "float64", "float128", "longdouble", "double", "single", "half",
                "float_", "complex", "complex64", "complex128", "complex256", "cfloat", "cdouble", "csingle",
                "complex_", "clongdouble", "floating", "inexact"}
_INT_NAMES = {"int", "int8", "int16", "int32", "int64", "uint", "uint8", "uint16", "uint32", "uint64", "bool",
              "bool_", "intp", "uintp", "intc", "uintc", "long", "ulong", "longlong", "ulonglong", "short", "ushort",
              "byte", "ubyte", "int_", "integer", "signedinteger", "unsignedinteger",
              "i1", "i2", "i4", "i8", "u1", "u2", "u4", "u8", "i", "u", "b", "?"}
_FLOAT_CODES = {"f", "d", "g", "e", "f2", "f4", "f8", "f16", "c8", "c16", "c32", "F", "D", "G"}
_AS_ARRAY = {"asarray", "array", "asanyarray", "ascontiguousarray", "asfortranarray"}
_DECLARING = {"map_blocks", "map_overlap", "blockwise", "from_delayed", "from_array", "map_partitions"}
_PROMOTING = {"result_type", "promote_types", "find_common_type", "common_type"}
_ARRAY_ATTRS = {"self.array", "self._array"}


class _CoordDtype:
    """Where the dtype of a cast comes from and what the cast operand is made of, inside one function of the
    centre-of-mass computation.  Origins are followed through every reaching definition."""

    def __init__(self, repo, f, coord_tags: set, array_tags: set, local_coords: bool):
        self.repo, self.f = repo, f
        self.df = DataFlow(f.node)
        self.coord_tags, self.array_tags, self.local_coords = coord_tags, array_tags, local_coords

    # ---- value origins ------------------------------------------------------------------------------------
    def flows(self, e: ast.AST, at: int, seen=None) -> set:
        """Origins an expression's VALUE is computed from: 'param:<name>', 'self.<attr>', 'unknown'.  Modules
        (np, get_array_module(...)) and dtype / meta arguments carry no array data."""
        seen = set() if seen is None else seen
        if (id(e), at) in seen:
            return set()
        seen.add((id(e), at))
        df = self.df
        if isinstance(e, ast.Name):
            out = set()
            for d in df.reaching(at, e.id):
                if d.kind == "param":
                    out.add(f"param:{e.id}")
                elif d.kind in ("import", "def"):
                    pass
                elif d.kind == "aug" and isinstance(d.value, ast.AugAssign):
                    out |= self.flows(d.value.value, d.node, seen) | self.flows(ast.Name(id=e.id, ctx=ast.Load()), d.node, seen)
                elif d.value is not None:
                    out |= self.flows(d.value, d.node, seen)
                    if not d.strong:
                        out |= self.flows(ast.Name(id=e.id, ctx=ast.Load()), d.node, seen)
                else:
                    out.add("unknown")
            return out
        if isinstance(e, ast.Attribute):
            d = dotted(e)
            if d and d.startswith("self."):
                head = ".".join(d.split(".")[:2])
                local = [x for x in df.reaching(at, head) if x.value is not None]
                if local:
                    out = set()
                    for x in local:
                        out |= self.flows(x.value, x.node, seen)
                    return out
                return {head}
            return self.flows(e.value, at, seen)
        if isinstance(e, ast.Call):
            if last_attr(e) == "get_array_module" or dotted(e.func) == "get_array_module":
                return set()
            out = set()
            if isinstance(e.func, ast.Attribute):
                out |= self.flows(e.func.value, at, seen)
                if e.func.attr in ("astype", "view"):
                    return out
            for a in e.args:
                out |= self.flows(a, at, seen)
            for k in e.keywords:
                if k.arg not in ("dtype", "meta"):
                    out |= self.flows(k.value, at, seen)
            return out
        if isinstance(e, ast.Constant):
            return set()
        if isinstance(e, (ast.ListComp, ast.SetComp, ast.GeneratorExp, ast.DictComp, ast.Lambda)):
            bound = {n.id for g in getattr(e, "generators", []) for n in ast.walk(g.target) if isinstance(n, ast.Name)}
            out = set()
            for n in ast.walk(e):
                if isinstance(n, ast.Name) and isinstance(n.ctx, ast.Load) and n.id not in bound:
                    out |= self.flows(n, at, seen)
                elif isinstance(n, ast.Attribute) and (dotted(n) or "").startswith("self."):
                    out |= self.flows(n, at, seen)
            return out
        out = set()
        for c in ast.iter_child_nodes(e):
            if isinstance(c, ast.expr):
                out |= self.flows(c, at, seen)
        return out

    def plain(self, e: ast.AST, at: int, depth: int = 0) -> bool:
        """is `e` the unmodified intensities (the array itself, through aliases and dtype-less asarray)?"""
        if depth > 8:
            return False
        if isinstance(e, ast.Attribute):
            return dotted(e) in self.array_tags
        if isinstance(e, ast.Name):
            rd = self.df.reaching(at, e.id)
            return bool(rd) and all(
                (d.kind == "param" and f"param:{e.id}" in self.array_tags)
                or (d.kind == "assign" and d.strong and d.value is not None and self.plain(d.value, d.node, depth + 1))
                for d in rd)
        if isinstance(e, ast.Call) and last_attr(e) in _AS_ARRAY and len(e.args) == 1 and not any(
                k.arg == "dtype" for k in e.keywords):
            return self.plain(e.args[0], at, depth + 1)
        return False

    def role(self, operand, at: int) -> str:
        if operand is None:
            return "coordinates" if self.local_coords else "derived"
        tags = self.flows(operand, at)
        if "unknown" in tags:
            raise AnalysisError(f"{self.f.qualname}: cannot tell what `{norm_text(operand)[:50]}` is computed from")
        if tags & self.coord_tags:
            return "product" if tags & self.array_tags else "coordinates"
        if tags & self.array_tags:
            return "intensities" if self.plain(operand, at) else "derived"
        return "coordinates" if self.local_coords else "derived"

    # ---- dtype origins ------------------------------------------------------------------------------------
    def _self_dtype_is_array_dtype(self) -> bool:
        try:
            c = self.repo.cls(MEAS, DP)
        except AnalysisError:
            return False
        g = c.find_method("dtype")
        if g is None:
            return False
        rets = [r for r in walk_no_nested(g.node) if isinstance(r, ast.Return) and r.value is not None]
        return bool(rets) and all(dotted(r.value) in ("self.array.dtype", "self._array.dtype") for r in rets)

    def dtype_kinds(self, e: ast.AST, at: int, depth: int = 0) -> set:
        """{'configured', 'floating', 'integer', 'intensities', 'coordinates', 'unknown'}"""
        if depth > 12:
            return {"unknown"}
        df = self.df
        if isinstance(e, ast.Call):
            name = (dotted(e.func) or "").split(".")[-1]
            if name == "get_dtype":
                return {"configured"}
            if name == "dtype" and len(e.args) == 1:
                return self.dtype_kinds(e.args[0], at, depth + 1)
            if name in _PROMOTING and e.args:
                parts = []
                for a in e.args:
                    for x in (a.elts if isinstance(a, (ast.List, ast.Tuple)) else [a]):
                        parts.append(self._array_or_dtype(x, at, depth + 1))
                if any(p <= {"configured", "floating", "coordinates"} for p in parts):
                    return {"floating"}  # promotion with a floating type is floating
                return set().union(*parts)
            return {"unknown"}
        if isinstance(e, ast.Constant):
            if isinstance(e.value, str):
                nm = e.value.lstrip("<>=|")
                return {"floating"} if nm in _FLOAT_NAMES | _FLOAT_CODES else {"integer"} if nm in _INT_NAMES else {"unknown"}
            return {"unknown"}
        if isinstance(e, ast.IfExp):
            return self.dtype_kinds(e.body, at, depth + 1) | self.dtype_kinds(e.orelse, at, depth + 1)
        if isinstance(e, ast.Attribute) and e.attr == "dtype":
            if dotted(e) == "self.dtype":
                if not self._self_dtype_is_array_dtype():
                    raise AnalysisError(f"{self.f.qualname}: `self.dtype` is not the dtype of the measurement's array")
                return {"intensities"}
            return self._array_kind(e.value, at)
        if isinstance(e, ast.Name) and df.reaching(at, e.id):
            out = set()
            for d in df.reaching(at, e.id):
                if d.kind in ("assign", "walrus") and d.strong and d.value is not None:
                    out |= self.dtype_kinds(d.value, d.node, depth + 1)
                else:
                    out.add("unknown")
            return out
        if isinstance(e, (ast.Attribute, ast.Name)):
            nm = (dotted(e) or "").split(".")[-1]
            return {"floating"} if nm in _FLOAT_NAMES else {"integer"} if nm in _INT_NAMES else {"unknown"}
        return {"unknown"}

    def _array_kind(self, base: ast.AST, at: int) -> set:
        """dtype kind of an ARRAY expression by what it is made of"""
        tags = self.flows(base, at)
        if "unknown" in tags:
            return {"unknown"}
        if tags & self.coord_tags:
            return {"coordinates"}  # a product with the floating coordinates is promoted to a floating type
        if tags & self.array_tags:
            return {"intensities"}
        return {"coordinates"} if self.local_coords and tags else {"unknown"}

    def _array_or_dtype(self, e: ast.AST, at: int, depth: int) -> set:
        k = self.dtype_kinds(e, at, depth)
        if "unknown" not in k:
            return k
        return self._array_kind(e, at)

    # ---- the casts ------------------------------------------------------------------------------------------
    def casts(self):
        """(call, operand or None, dtype expression) of every operation that fixes the dtype of its result"""
        for c in walk_no_nested(self.f.node):
            if not isinstance(c, ast.Call):
                continue
            name = last_attr(c) or (dotted(c.func) or "").split(".")[-1]
            if name in _DECLARING:
                continue
            dkw = next((k.value for k in c.keywords if k.arg == "dtype"), None)
            if isinstance(c.func, ast.Attribute) and name in ("astype", "view"):
                dt = c.args[0] if c.args else dkw
                if dt is not None:
                    yield c, c.func.value, dt
                continue
            if name in _AS_ARRAY and dkw is None and len(c.args) > 1:
                dkw = c.args[1]
            if dkw is None:
                continue
            if isinstance(dkw, ast.Constant) and dkw.value is None:
                continue
            operand = None
            if isinstance(c.func, ast.Attribute) and self.flows(c.func.value, self._at(c)):
                operand = c.func.value  # method form: x.sum(dtype=...)
            elif c.args and name not in ("linspace", "arange", "zeros", "ones", "empty", "full", "eye", "identity"):
                operand = c.args[0]
            yield c, operand, dkw

    def _at(self, c: ast.AST) -> int:
        return self.df.cfg.node_of(_stmt_of(self.f, c)).idx


def _floating_guard(f, call) -> "bool | None":
    """None: the cast is not under a test on a dtype; True: it only runs when a dtype test says 'floating';
    False: it is under a dtype test this analysis cannot read."""
    from .c15 import _guards_of

    tests = [(t, arm) for t, arm in _guards_of(f.node, call) if any(
        isinstance(n, ast.Attribute) and n.attr in ("dtype", "kind") or isinstance(n, ast.Call) and (
            last_attr(n) or (dotted(n.func) or "")) in ("issubdtype", "isrealobj", "iscomplexobj", "can_cast")
        for n in ast.walk(t.test))]
    if not tests:
        return None
    for t, arm in tests:
        c = t.test
        if arm and isinstance(c, ast.Call) and (last_attr(c) or dotted(c.func)) == "issubdtype" and len(c.args) == 2 and (
                dotted(c.args[1]) or "").split(".")[-1] in ("floating", "inexact", "complexfloating"):
            return True
    return False


_ROLE_TEXT = {"coordinates": "the coordinate vector", "product": "the intensities weighted with the coordinates",
              "derived": "a quantity computed from the intensities", "intensities": "the intensities"}
_BAD_TEXT = {"intensities": "the dtype of the measurement's own array", "integer": "an integer dtype"}


def _coord_dtype(ctx, repo) -> None:
    com = repo.method(MEAS, DP, "_com")
    ctx.require(len(com.positional_params) == 3, f"{com.qualname}: signature (array, x, y) expected")
    A, X, Y = com.positional_params
    sites = [
        (repo.method(MEAS, DP, "center_of_mass"), {"self.coordinates", "self.angular_coordinates"}, set(_ARRAY_ATTRS), False),
        (com, {f"param:{X}", f"param:{Y}"}, {f"param:{A}"}, False),
        (repo.method(MEAS, DP, "coordinates"), set(), set(_ARRAY_ATTRS), True),
        (repo.method(MEAS, DP, "angular_coordinates"), set(), set(_ARRAY_ATTRS), True),
        (repo.method("abtem.core.axes", "LinearAxis", "coordinates"), set(), set(), True),
    ]
    for f, ctags, atags, local in sites:
        an = _CoordDtype(repo, f, ctags, atags, local)
        count: dict = {}
        n = 0
        for call, operand, dt in an.casts():
            at = an._at(call)
            role = an.role(operand, at)
            kinds = an.dtype_kinds(dt, at)
            if "unknown" in kinds:
                raise AnalysisError(f"{f.qualname}: cannot tell where the dtype of `{norm_text(call)[:60]}` comes from")
            if role == "intensities":
                bad = sorted(kinds & {"integer"})
            else:
                bad = sorted(kinds & {"intensities", "integer"})
            if bad:
                g = _floating_guard(f, call)
                if g is True:
                    bad = []
                elif g is False:
                    raise AnalysisError(f"{f.qualname}: `{norm_text(call)[:60]}` sets a dtype under a test on a dtype that "
                                        "is not `issubdtype(..., floating)`; such guards are not modelled")
            count[role] = count.get(role, 0) + 1
            n += 1
            construct = f"{f.qualname}:dtype of {role}" + (f" #{count[role]}" if count[role] > 1 else "")
            what = _ROLE_TEXT[role]
            ctx.check(not bad, "R-COORDDTYPE", construct, f.loc(call),
                      f"`{norm_text(call)[:60]}` gives {what} a {'/'.join(sorted(kinds))} dtype",
                      f"`{norm_text(call)[:70]}` casts {what} to " + " / ".join(_BAD_TEXT[b] for b in bad) +
                      ": diffraction patterns may hold integer detector counts (int32, uint16), and then the 1/Å or mrad "
                      "coordinates (or the weighted sums) are truncated to integers, so the centre of mass of a single "
                      "bright pixel is no longer that pixel's coordinate", key_detail=f"cast-{role}")
        if n == 0:
            ctx.ok("R-COORDDTYPE", f"{f.qualname}:dtype", f.where,
                   "no operation fixes a dtype: coordinates and weighted sums keep the floating dtype numpy promotes to")


def run(ctx) -> None:  # noqa: F811
    from ..rules import deferred

    ctx.rule("R-COORDDTYPE", "in the centre-of-mass computation (DiffractionPatterns.center_of_mass, _com, the coordinate "
             "properties coordinates / angular_coordinates and LinearAxis.coordinates they are built from) every operation "
             "that fixes a dtype (asarray/array/astype/view with a dtype, a dtype= argument of a reduction or of "
             "linspace/arange) and acts on a coordinate vector, on the intensities weighted with the coordinates or on a "
             "quantity computed from the intensities uses a dtype that is floating for EVERY measurement: get_dtype(...), a "
             "floating literal, or the dtype of the coordinates themselves.  The origin of the dtype is followed through "
             "all reaching definitions; a dtype that originates from the measurement's own array (self.dtype, "
             "self.array.dtype, array.dtype) or an integer type truncates the 1/Å / mrad coordinates for integer-typed "
             "patterns (detector counts), so the result is not the intensity-weighted mean coordinate.  Only the "
             "unmodified intensities may be cast to their own dtype")
    deferred.run(ctx, lambda: _coord_dtype(ctx, ctx.repo), _inner_run_c40e)
