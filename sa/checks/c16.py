"""C16 — measurement resampling and source-size filtering conserve what they promise (structure clauses).

R-RENORM      DiffractionPatterns._batch_interpolate_bilinear returns  A / A.sum(ax, keepdims) * S  where A is the
              interpolated array and S = X.sum(ax, keepdims) is taken from the very array X that is fed to the
              interpolation (i.e. before it), over the same two pattern axes.
R-INTERPTWIN  DiffractionPatterns.interpolate runs that function with the same arguments in the lazy and eager arm.
R-SRCAXES     _gaussian_source_size filters only along the scan axes: the sigma and the overlap depth appended for a
              non-scan ensemble axis and for the two base (detector) axes fold to 0; on a scan axis sigma is
              sigma[i]/scan_sampling[i] and the overlap depth covers the filter's truncation radius of that sigma.
R-SRCTWIN     the lazy (map_overlap) and eager arm apply the same filter function with the same sigma and
              mode='wrap'; the image-side `gaussian_filter` uses sigma/sampling per base axis and maps its default
              boundary 'periodic' to the same mode (the documented commutation with integration needs the same kernel
              and boundary on both sides).
              Image side, decided per array axis on what the filter calls actually receive (the method's tuple
              assembly is executed by sa/rules/imgfilter for 0, 1, 2 ensemble axes, a scalar and a pair sigma, a lazy
              and an eager array — no spelling of the assembly is assumed): every arm hands the filter 0 on each
              ensemble axis and sigma[k]/sampling[k] on base axis k, in axis order; the overlap depth of the lazy arm is,
              on every axis that is filtered, a constant >= truncate (default 4.0) times THAT per-axis pixel sigma, clipped
              at most to the length of that same axis; the outer padding is periodic when the filter wraps; both arms
              agree in filter, sigma, mode, cval, truncation; the assembly itself does not fault.
"""
from __future__ import annotations

import ast
from fractions import Fraction
from typing import Optional

from ..cfg import DataFlow
from ..model import (AnalysisError, FuncInfo, bind_args, call_name, dotted, last_attr,
                     norm_text, walk_no_nested)
from ..rules.reductions import SumNorm, _fold
from ..terms import FlowNormalizer, Poly

MEAS = "abtem.measurements"


# ---------------------------------------------------------------------------------------------- helpers
def _stmt_of(f: FuncInfo, node: ast.AST) -> ast.stmt:
    best = None
    for st in walk_no_nested(f.node):
        if isinstance(st, ast.stmt) and not isinstance(st, (ast.If, ast.For, ast.While, ast.With, ast.Try,
                                                              ast.FunctionDef, ast.ClassDef)):
            if any(x is node for x in ast.walk(st)):
                best = st
    if best is None:
        raise AnalysisError(f"{f.qualname}: cannot locate the statement of {norm_text(node)[:40]}")
    return best


def _strip_reshape(e: ast.expr) -> ast.expr:
    while isinstance(e, ast.Call) and isinstance(e.func, ast.Attribute) and e.func.attr in ("reshape", "astype"):
        e = e.func.value
    return e


# ---------------------------------------------------------------------------------------------- R-RENORM
def _renorm(ctx, repo) -> None:
    f = repo.method(MEAS, "DiffractionPatterns", "_batch_interpolate_bilinear")
    df = DataFlow(f.node)
    rets = [n for n in walk_no_nested(f.node) if isinstance(n, ast.Return) and n.value is not None]
    ctx.require(len(rets) == 1, f"{f.qualname}: expected a single return")
    ret = rets[0]
    at = df.cfg.node_of(ret).idx
    val = _strip_reshape(ret.value)
    # follow plain copies / reshapes back to the defining arithmetic
    hops = 0
    node = at
    while isinstance(val, ast.Name) and hops < 6:
        d = df.single_def(node, val.id)
        if d is None or d.kind != "assign" or d.value is None:
            break
        node, val, hops = d.node, _strip_reshape(d.value), hops + 1
    nz = SumNorm(df, node)
    poly = nz.norm(val)
    construct = f"{f.qualname}:return"
    # expected shape: one monomial  A^1 * Σ(A)^-1 * Σ(X)^1
    ok_shape = len(poly.terms) == 1
    A = S_new = S_old = None
    if ok_shape:
        (mono, coeff), = poly.terms.items()
        pos = [a for a, e in mono if e == 1]
        neg = [a for a, e in mono if e == -1]
        other = [a for a, e in mono if e not in (1, -1)]
        sums_pos = [a for a in pos if a in nz.sums]
        plain_pos = [a for a in pos if a not in nz.sums]
        if coeff != 1 or other or len(neg) != 1 or neg[0] not in nz.sums or len(sums_pos) != 1 or len(plain_pos) != 1:
            ok_shape = False
        else:
            A, S_new, S_old = plain_pos[0], nz.sums[neg[0]], nz.sums[sums_pos[0]]
    if not ok_shape:
        ctx.violation("R-RENORM", construct, f.loc(ret),
                      f"the returned array normalises to {poly.key()[:160]}, not to A / A.sum(axes, keepdims) * S: the "
                      "interpolated patterns are not rescaled to the input's total intensity", key_detail="shape")
        return
    ctx.ok("R-RENORM", construct, f.loc(ret), f"returned array = {poly.key()[:140]}")
    # Σ(A) is taken of the array that is being divided
    ctx.check(S_new["operand"] == Poly.atom(A), "R-RENORM", f"{f.qualname}:divisor", f.loc(S_new["node"]),
              "the divisor is the sum of the interpolated array itself",
              f"the array {A} is divided by the sum of {S_new['operand'].key()[:80]}, not by its own sum",
              key_detail="divisor")
    # A: every reaching definition is an interpolation call fed with X; S_old = Σ(X)
    if A in nz.versions:
        name, ver = nz.versions[A]
        defs = [d for d in df.defs if d.var == name and d.node in ver]
    else:
        # single definition that is not a plain assignment chain (e.g. a call): find it through the atom text
        defs = []
    fed_terms = []
    bad_defs = []
    if not defs:
        # A is an opaque call atom: the normaliser inlined a single definition; re-derive from the statement
        name = None
        for n in ast.walk(val):
            if isinstance(n, ast.Name) and df.single_def(node, n.id) is not None and isinstance(
                    df.single_def(node, n.id).value, ast.Call) and nz.norm(n) == Poly.atom(A):
                name = n.id
        if name is None:
            raise AnalysisError(f"{f.qualname}: cannot identify the interpolated array among {poly.key()[:80]}")
        defs = [df.single_def(node, name)]
    for d in defs:
        v = d.value
        if not (d.kind == "assign" and isinstance(v, ast.Call) and v.args):
            bad_defs.append(d)
            continue
        cn = call_name(v) or ""
        if "interpolate" not in cn.split(".")[-1]:
            bad_defs.append(d)
            continue
        fed_terms.append((SumNorm(df, d.node).norm(v.args[0]), v))
    ctx.require(not bad_defs and fed_terms, f"{f.qualname}: the array that is renormalised is not (only) the result of "
                                            "interpolation calls")
    before = all(t == S_old["operand"] for t, _ in fed_terms)
    ctx.check(before, "R-RENORM", f"{f.qualname}:reference-sum", f.loc(S_old["node"]),
              f"S = sum of {S_old['operand'].key()[:70]}, the array handed to the interpolation (taken before it)",
              f"the reference sum is taken of {S_old['operand'].key()[:90]} but the interpolation is fed "
              f"{fed_terms[0][0].key()[:90]}: S is not the total intensity of the input patterns",
              key_detail="before")
    # same axes = the two pattern axes, keepdims on both
    axes_ok = S_new["axes"] == S_old["axes"] == (-2, -1)
    ctx.check(axes_ok, "R-RENORM", f"{f.qualname}:axes", f.loc(S_new["node"]),
              "both sums run over the two pattern axes (-2, -1)",
              f"sums run over axes {S_old['axes']} (input) and {S_new['axes']} (interpolated): the total intensity "
              "of each pattern is the sum over exactly its last two axes on both sides", key_detail="axes")
    ctx.check(S_new["keepdims"] is True and S_old["keepdims"] is True, "R-RENORM", f"{f.qualname}:keepdims",
              f.loc(S_new["node"]), "both sums keep dims (per-pattern broadcasting)",
              f"keepdims is {S_old['keepdims']} / {S_new['keepdims']}: the per-pattern factors do not broadcast "
              "against the (batch, H, W) array", key_detail="keepdims")


# ---------------------------------------------------------------------------------------------- twins
def _twin_calls(f: FuncInfo, fn_pred):
    """(arm, call, function expr, bound keyword dict, positional array args) for eager `F(arr, **kw)` and lazy
    `arr.map_blocks/map_overlap(F, **kw)` / `da.map_blocks/map_overlap(F, arr, **kw)`."""
    out = []
    for c in walk_no_nested(f.node):
        if not isinstance(c, ast.Call):
            continue
        la = last_attr(c)
        if la in ("map_blocks", "map_overlap") and c.args and fn_pred(c.args[0]):
            out.append(("lazy", c, c.args[0], {k.arg: k.value for k in c.keywords if k.arg}))
        elif fn_pred(c.func):
            out.append(("eager", c, c.func, {k.arg: k.value for k in c.keywords if k.arg}))
    return out


def _interp_twin(ctx, repo) -> None:
    f = repo.method(MEAS, "DiffractionPatterns", "interpolate")
    target = repo.method(MEAS, "DiffractionPatterns", "_batch_interpolate_bilinear")
    calls = _twin_calls(f, lambda e: isinstance(e, ast.Attribute) and e.attr == target.name)
    arms = {a for a, *_ in calls}
    ctx.require(arms == {"lazy", "eager"}, f"{f.qualname}: lazy/eager calls of {target.name} not found ({arms})")
    bound = {}
    for arm, c, fn, kws in calls:
        b = dict(kws)
        if arm == "eager":
            b = bind_args(c, target)
        df = DataFlow(f.node)
        nz = FlowNormalizer(df, df.cfg.node_of(_stmt_of(f, c)).idx)
        bound[arm] = {p: nz.norm(b[p]).key() for p in target.positional_params if p in b and p != "array"}
        missing = [p for p in target.positional_params if p not in b and p != "array" and p not in target.defaults()]
        if arm == "lazy":
            missing = [p for p in missing]
        ctx.check(not missing, "R-INTERPTWIN", f"{f.qualname}:{arm} arguments", f.loc(c),
                  f"{arm} arm binds {sorted(bound[arm])}", f"{arm} arm does not pass {missing} to {target.name}",
                  key_detail=f"{arm}-missing")
    ctx.check(bound["lazy"] == bound["eager"], "R-INTERPTWIN", f"{f.qualname}:lazy~eager", f.where,
              f"both arms pass {bound['eager']}",
              f"lazy arm passes {bound['lazy']} but eager arm passes {bound['eager']}", key_detail="agree")
    # the published sampling is the one used
    df = DataFlow(f.node)
    stores = [st for st in walk_no_nested(f.node) if isinstance(st, ast.Assign) and isinstance(st.targets[0], ast.Subscript)
              and isinstance(st.targets[0].slice, ast.Constant) and st.targets[0].slice.value == "sampling"]
    ctx.require(len(stores) == 1, f"{f.qualname}: kwargs['sampling'] store not found")
    nz = FlowNormalizer(df, df.cfg.node_of(stores[0]).idx)
    ctx.check(nz.norm(stores[0].value).key() == bound["eager"].get("new_sampling"), "R-INTERPTWIN",
              f"{f.qualname}:published-sampling", f.loc(stores[0]),
              "the result is labelled with the sampling it was interpolated to",
              f"the result is labelled sampling={norm_text(stores[0].value)} but interpolated to "
              f"{bound['eager'].get('new_sampling')}", key_detail="sampling")


# ---------------------------------------------------------------------------------------------- source size
def _scan_test(test: ast.expr, df: DataFlow, at: int) -> Optional[bool]:
    """Polarity of `<axis> in _scan_axes(...)`: True if the test being true means 'scan axis'."""
    neg = False
    while isinstance(test, ast.UnaryOp) and isinstance(test.op, ast.Not):
        test, neg = test.operand, not neg
    if isinstance(test, ast.Compare) and len(test.ops) == 1 and isinstance(test.ops[0], (ast.In, ast.NotIn)):
        c = test.comparators[0]
        if isinstance(c, ast.Name):
            d = df.single_def(at, c.id)
            c = d.value if d is not None and d.value is not None else c
        if isinstance(c, ast.Call) and call_name(c) == "_scan_axes":
            pol = isinstance(test.ops[0], ast.In)
            return pol != neg
    return None


def _appends(f: FuncInfo, var: str, df: DataFlow):
    """Every contribution to tuple variable `var`: (context, [element exprs] or (elt, repeat), stmt).
    context in {'init', 'scan', 'nonscan', 'base', 'other'}."""
    out = []

    def classify(elts_expr: ast.expr):
        if isinstance(elts_expr, ast.Tuple):
            return [(e, 1) for e in elts_expr.elts]
        if isinstance(elts_expr, ast.BinOp) and isinstance(elts_expr.op, ast.Mult):
            a, b = elts_expr.left, elts_expr.right
            if isinstance(b, ast.Tuple):
                a, b = b, a
            if isinstance(a, ast.Tuple):
                k = _fold(b)
                if isinstance(k, int):
                    return [(e, k) for e in a.elts]
        raise AnalysisError(f"{f.qualname}: cannot interpret tuple contribution {norm_text(elts_expr)[:50]} to `{var}`")

    def visit(body, ctxname, loops):
        for st in body:
            if isinstance(st, ast.AugAssign) and isinstance(st.target, ast.Name) and st.target.id == var:
                if not isinstance(st.op, ast.Add):
                    raise AnalysisError(f"{f.qualname}: `{var}` updated with {type(st.op).__name__}")
                out.append((ctxname, classify(st.value), st))
            elif isinstance(st, ast.Assign) and any(isinstance(t, ast.Name) and t.id == var for t in st.targets):
                v = st.value
                if isinstance(v, ast.Tuple) and not v.elts:
                    out.append(("init", [], st))
                elif isinstance(v, ast.BinOp) and isinstance(v.op, ast.Add) and isinstance(v.left, ast.Name) and v.left.id == var:
                    out.append((ctxname, classify(v.right), st))
                else:
                    raise AnalysisError(f"{f.qualname}: `{var}` assigned {norm_text(v)[:50]}")
            elif isinstance(st, ast.For):
                visit(st.body, "other", loops + 1)
                visit(st.orelse, ctxname, loops)
            elif isinstance(st, ast.If):
                pol = _scan_test(st.test, df, df.cfg.node_of(st).idx) if loops else None
                if pol is None:
                    visit(st.body, ctxname, loops)
                    visit(st.orelse, ctxname, loops)
                else:
                    visit(st.body, "scan" if pol else "nonscan", loops)
                    visit(st.orelse, "nonscan" if pol else "scan", loops)
            elif isinstance(st, (ast.With, ast.Try, ast.While)):
                raise AnalysisError(f"{f.qualname}: unsupported compound statement around `{var}`")

    visit(f.body, "base", 0)
    return out


def _source_size(ctx, repo) -> None:
    f = repo.function(MEAS, "_gaussian_source_size")
    df = DataFlow(f.node)
    # the filter function: a name bound to get_ndimage_module(...).gaussian_filter
    fnames = set()
    for st in walk_no_nested(f.node):
        if isinstance(st, ast.Assign) and isinstance(st.value, ast.Attribute) and st.value.attr == "gaussian_filter" \
                and isinstance(st.targets[0], ast.Name):
            fnames.add(st.targets[0].id)
    ctx.require(bool(fnames), f"{f.qualname}: gaussian_filter binding not found")
    calls = _twin_calls(f, lambda e: (isinstance(e, ast.Name) and e.id in fnames) or (
        isinstance(e, ast.Attribute) and e.attr == "gaussian_filter"))
    arms = {a for a, *_ in calls}
    ctx.require(arms == {"lazy", "eager"} and len(calls) == 2, f"{f.qualname}: lazy/eager filter calls not found ({arms})")
    info = {}
    for arm, c, fn, kws in calls:
        nz = FlowNormalizer(df, df.cfg.node_of(_stmt_of(f, c)).idx)
        sig = kws.get("sigma")
        if sig is None and arm == "eager" and len(c.args) >= 2:
            sig = c.args[1]
        ctx.require(sig is not None, f"{f.qualname}: {arm} arm passes no sigma")
        mode = kws.get("mode")
        info[arm] = {"fn": norm_text(fn), "sigma": sig, "sigma_key": nz.norm(sig).key(),
                     "mode": _fold(mode) if mode is not None else "reflect(default)", "depth": kws.get("depth"),
                     "truncate": _fold(kws.get("truncate")) if kws.get("truncate") is not None else 4.0,
                     "call": c, "boundary": _fold(kws.get("boundary")) if kws.get("boundary") is not None else None}
    lz, eg = info["lazy"], info["eager"]
    ctx.check(lz["fn"] == eg["fn"], "R-SRCTWIN", f"{f.qualname}:filter-function", f.loc(lz["call"]),
              f"both arms apply {eg['fn']}", f"lazy arm applies {lz['fn']} but eager arm {eg['fn']}", key_detail="fn")
    ctx.check(lz["sigma_key"] == eg["sigma_key"], "R-SRCTWIN", f"{f.qualname}:sigma", f.loc(lz["call"]),
              f"both arms use sigma={eg['sigma_key']}",
              f"lazy arm filters with sigma={lz['sigma_key']} but eager arm with {eg['sigma_key']}", key_detail="sigma")
    ctx.check(lz["mode"] == eg["mode"] == "wrap", "R-SRCTWIN", f"{f.qualname}:mode", f.loc(eg["call"]),
              "both arms filter with mode='wrap' (periodic scan)",
              f"filter modes are lazy={lz['mode']!r}, eager={eg['mode']!r}; the documented commutation with the image "
              "filter (default boundary 'periodic' -> 'wrap') and lazy==eager need mode='wrap' in both",
              key_detail="mode")
    ctx.check(lz["truncate"] == eg["truncate"], "R-SRCTWIN", f"{f.qualname}:truncate", f.loc(eg["call"]),
              f"same truncation ({eg['truncate']})", f"truncate differs: lazy {lz['truncate']}, eager {eg['truncate']}",
              key_detail="truncate")
    ctx.require(lz["depth"] is not None, f"{f.qualname}: map_overlap without depth=")

    # ---- R-SRCAXES
    sig_names = [a["sigma"].id for a in (eg, lz) if isinstance(a["sigma"], ast.Name)]
    ctx.require(bool(sig_names) and isinstance(lz["depth"], ast.Name),
                f"{f.qualname}: sigma/depth are not tuple variables")
    sigma_var, depth_var = sig_names[0], lz["depth"].id
    # necessary condition, decided before the shape of the construction is read: *where* the non-zero sigma
    # entries go must depend on which ensemble axes are scan axes (_scan_axes(measurements)) — by data or by a
    # controlling test.  A construction that assumes a position (e.g. "the scan axes are the last ensemble axes")
    # filters along the wrong axes as soon as another ensemble axis follows a scan axis.
    for var, what in ((sigma_var, "sigma"), (depth_var, "depth")):
        use = lz["call"] if what == "depth" else eg["call"]
        at_use = df.cfg.node_of(_stmt_of(f, use)).idx
        sl = df.backward_slice(at_use, ast.Name(id=var, ctx=ast.Load()))
        exprs = []
        for n_ in sl.def_nodes:
            st_ = df.cfg.nodes[n_].ast
            if st_ is None:
                continue
            exprs.append(st_)
            for i_ in walk_no_nested(f.node):
                if isinstance(i_, (ast.If, ast.While)) and any(x is st_ for b in (i_.body + i_.orelse) for x in ast.walk(b)):
                    exprs.append(i_.test)
        dep = any(isinstance(c_, ast.Call) and (call_name(c_) or "").split(".")[-1] == "_scan_axes"
                  for e_ in exprs for c_ in ast.walk(e_))
        ctx.check(dep, "R-SRCAXES", f"{f.qualname}:{what} placement", f.loc(use),
                  f"the placement of the {what} entries depends on _scan_axes(measurements)",
                  f"the per-axis {what} tuple `{var}` is built without consulting _scan_axes(measurements): the non-zero "
                  "entries are placed at assumed positions, so with an ensemble axis after or between the scan axes "
                  "the Gaussian is applied along the wrong axes", key_detail="placement")
    scan_terms = {}
    for var, what in ((sigma_var, "sigma"), (depth_var, "depth")):
        contribs = _appends(f, var, df)
        ctx.require(any(c[0] == "init" for c in contribs), f"{f.qualname}: `{var}` is not initialised to ()")
        groups: dict[str, list] = {}
        for cname, elts, st in contribs:
            if cname != "init":
                groups.setdefault(cname, []).append((elts, st))
        ctx.require("other" not in groups, f"{f.qualname}: `{var}` extended outside the scan/non-scan dispatch")
        for g in ("scan", "nonscan", "base"):
            ctx.require(g in groups, f"{f.qualname}: no `{var}` contribution for {g} axes")
        for g, label in (("nonscan", "a non-scan ensemble axis"), ("base", "the base (detector) axes")):
            n_el = 0
            nonzero = []
            for elts, st in groups[g]:
                for e, k in elts:
                    n_el += k
                    v = _fold(e)
                    if not (isinstance(v, (int, float)) and not isinstance(v, bool) and v == 0):
                        nonzero.append(norm_text(e))
            ctx.check(not nonzero, "R-SRCAXES", f"{f.qualname}:{what} {g}", f.loc(groups[g][0][1]),
                      f"{what} is 0 on {label}",
                      f"{what} contribution {nonzero} on {label} is not 0: the filter mixes intensity across axes "
                      "other than the scan axes, so filtering no longer commutes with integrating the patterns",
                      key_detail="zero")
            want = 2 if g == "base" else 1
            ctx.check(n_el == want, "R-SRCAXES", f"{f.qualname}:{what} {g} count", f.loc(groups[g][0][1]),
                      f"{want} entr{'ies' if want > 1 else 'y'} for {label}",
                      f"{n_el} {what} entries are appended for {label}, expected {want}: the per-axis tuple is "
                      "misaligned with the array axes", key_detail="count")
        sc = groups["scan"]
        ctx.require(len(sc) == 1 and len(sc[0][0]) == 1 and sc[0][0][0][1] == 1,
                    f"{f.qualname}: expected one {what} entry per scan axis")
        scan_terms[what] = (sc[0][0][0][0], sc[0][1])

    # scan-axis sigma = sigma[i] / _scan_sampling(measurements)[i]
    se, sst = scan_terms["sigma"]
    nzs = FlowNormalizer(df, df.cfg.node_of(sst).idx, identity_calls={"float"})
    sp = nzs.norm(se)
    ok = False
    desc = sp.key()
    if len(sp.terms) == 1:
        (mono, coeff), = sp.terms.items()
        num = [a for a, e in mono if e == 1]
        den = [a for a, e in mono if e == -1]
        if coeff == 1 and len(num) == 1 and len(den) == 1 and len(mono) == 2:
            import re
            mn = re.fullmatch(r"(?:1\*)?(\w+)\[(.+)\]", num[0])
            md = re.fullmatch(r"(?:1\*)?_scan_sampling\((?:1\*)?(\w+)\)\[(.+)\]", den[0])
            ok = bool(mn and md and mn.group(1) in f.params and md.group(1) == f.positional_params[0]
                      and mn.group(2) == md.group(2))
    ctx.check(ok, "R-SRCAXES", f"{f.qualname}:sigma scan", f.loc(sst),
              f"scan-axis sigma [pixels] = sigma[i] / scan_sampling[i] ({desc})",
              f"scan-axis sigma is {desc}, not sigma[i] / _scan_sampling(measurements)[i] with one index i",
              key_detail="term")
    # depth covers truncate * sigma_pixels
    de, dst = scan_terms["depth"]
    nzd = FlowNormalizer(df, df.cfg.node_of(dst).idx, identity_calls={"int", "np.ceil", "xp.ceil", "math.ceil", "float"},
                         call_hook=_min_hook)
    dpoly = nzd.norm(de)
    ratio = dpoly * sp.inverse() if sp.is_monomial() else None
    c = ratio.const_value() if ratio is not None else None
    ctx.check(c is not None and c >= Fraction(str(eg["truncate"])), "R-SRCTWIN", f"{f.qualname}:overlap-depth",
              f.loc(dst), f"overlap depth = ceil({c} * sigma_pixels) >= truncate*sigma (clipped to the axis length)",
              f"overlap depth is {dpoly.key()[:80]} = {c if c is not None else '?'} x sigma_pixels, below the "
              f"filter's truncation radius {eg['truncate']} x sigma: lazy blocks see a cut kernel and differ from the "
              "eager result", key_detail="depth")

    # ---- image-side filter: the mode its default boundary selects (read by executing the method, see _image_filter)
    from ..rules.imgfilter import FilterCall

    g = repo.method(MEAS, "_BaseMeasurement2D", "gaussian_filter")
    cases = [c for c in _image_cases(ctx, repo) if isinstance(c, FilterCall)]
    ctx.require(bool(cases), f"{g.qualname}: no input reaches the filter")
    default_boundary = cases[0].params.get("boundary")
    modes = {c.kwargs.get("mode", "reflect(default)") if isinstance(c.kwargs.get("mode", ""), str) else "?" for c in cases}
    mode_for_default = next(iter(modes)) if len(modes) == 1 else sorted(modes)
    ctx.check(mode_for_default == eg["mode"], "R-SRCTWIN", f"{g.qualname}:default-boundary", g.where,
              f"default boundary {default_boundary!r} -> mode {mode_for_default!r} = source-size mode",
              f"the image filter's default boundary {default_boundary!r} maps to mode {mode_for_default!r} but the "
              f"source-size filter uses {eg['mode']!r}: integrate-then-filter differs from filter-then-integrate at "
              "the scan boundary", key_detail="boundary")


def _min_hook(nz, call: ast.Call):
    """min(a, n): the clip to the axis length does not change the term for axes longer than the kernel."""
    if call_name(call) == "min" and len(call.args) == 2 and not call.keywords:
        return nz.norm(call.args[0])
    return None


def run(ctx) -> None:
    repo = ctx.repo
    ctx.rule("R-RENORM", "_batch_interpolate_bilinear returns A / A.sum(ax, keepdims) * S with A the interpolated array "
             "and S = X.sum(ax, keepdims) of the array X handed to the interpolation (before it), both over the two "
             "pattern axes")
    ctx.rule("R-INTERPTWIN", "DiffractionPatterns.interpolate hands the same sampling/new_sampling/new_gpts to "
             "_batch_interpolate_bilinear in the lazy and eager arm and labels the result with the sampling used")
    ctx.rule("R-SRCAXES", "_gaussian_source_size: sigma and overlap depth are 0 on non-scan ensemble axes and on the "
             "two base axes; on a scan axis sigma = sigma[i]/scan_sampling[i]")
    ctx.rule("R-SRCTWIN", "the lazy map_overlap arm and the eager arm of _gaussian_source_size apply the same filter, "
             "sigma, truncation and mode='wrap', the overlap depth covers the truncation radius, and the image-side "
             "gaussian_filter uses sigma/sampling and maps its default boundary to the same mode. Image side, per array "
             "axis and for 0, 1, 2 ensemble axes / scalar and pair sigma / lazy and eager arrays (the tuple assembly is "
             "executed symbolically): each arm hands the filter 0 on the ensemble axes and sigma[k]/sampling[k] [pixels] on "
             "base axis k; the lazy overlap depth on every filtered axis is a constant >= the truncation factor times "
             "that same per-axis pixel sigma (an overlap computed from another quantity — the sigma in length units, "
             "sigma*sampling, the other axis — is smaller than the kernel radius for some sampling, so blocks are "
             "filtered with a cut, wrongly wrapped neighbourhood and the image no longer equals the source-size-filtered "
             "patterns integrated afterwards), clipped only to the length of its own axis, with periodic outer padding; "
             "both arms agree in filter, sigma, mode, cval and truncation")
    ctx.undecided("Images.interpolate identities (same-grid identity, mean preservation)")
    ctx.undecided("numerical conservation of the total intensity (division by a zero pattern sum); dask's default "
                  "map_overlap boundary handling")
    _renorm(ctx, repo)
    _interp_twin(ctx, repo)
    _source_size(ctx, repo)


# ---- added after the mutation sweep (sweepF): the scan-axis counter and the axis variable of the source-size filter,
# ---- the overlap depth of the image-side filter, the grid arithmetic of Images.interpolate.
# ---- Seeded change C16-r5seed2: the image-side sigma / overlap-depth rules no longer read one spelling of the tuple
# ---- assembly (a comprehension over zip(sigma, shape)); _image_filter decides them on the executed per-axis values.
_inner_run_c16b = run


def _run_deferring(ctx, steps, inner) -> None:
    """Run the new rule groups, then the earlier rules; an AnalysisError of a new group is raised only afterwards, so
    that a violation found by any rule decides the run and a lost anchor of one group does not hide the others."""
    pending = None
    for step in steps:
        try:
            step()
        except AnalysisError as e:
            pending = pending or e
    inner(ctx)
    if pending is not None:
        raise pending


def _loop_sources(loop: ast.For, f: FuncInfo) -> dict[str, tuple[str, ast.expr]]:
    """loop variable -> (role, iterable) for `for a in X`, `for a, b in zip(X, Y)`, `for i, a in enumerate(X)`
    (role 'index' for the counter of enumerate, else 'element')."""
    out: dict[str, tuple[str, ast.expr]] = {}
    t, it = loop.target, loop.iter
    if isinstance(t, ast.Name):
        out[t.id] = ("element", it)
    elif isinstance(t, ast.Tuple) and isinstance(it, ast.Call) and call_name(it) == "zip" and len(it.args) == len(t.elts) \
            and all(isinstance(e, ast.Name) for e in t.elts):
        for e, a in zip(t.elts, it.args):
            out[e.id] = ("element", a)
    elif isinstance(t, ast.Tuple) and isinstance(it, ast.Call) and call_name(it) == "enumerate" and len(t.elts) == 2 \
            and all(isinstance(e, ast.Name) for e in t.elts) and it.args:
        out[t.elts[0].id] = ("index", it.args[0])
        out[t.elts[1].id] = ("element", it.args[0])
    else:
        raise AnalysisError(f"{f.qualname}: cannot read the loop header `{norm_text(loop.target)} in {norm_text(loop.iter)[:40]}`")
    return out


def _scan_loop(ctx, repo) -> None:
    f = repo.function(MEAS, "_gaussian_source_size")
    df = DataFlow(f.node)
    loops = []
    for lp in walk_no_nested(f.node):
        if isinstance(lp, ast.For):
            tests = [n for n in walk_no_nested(lp) if isinstance(n, ast.If) and n is not lp
                     and _scan_test(n.test, df, df.cfg.node_of(n).idx) is not None]
            if tests:
                loops.append((lp, tests))
    ctx.require(len(loops) == 1 and len(loops[0][1]) == 1,
                f"{f.qualname}: expected one loop over the ensemble axes with one scan-axis test")
    lp, (iff,) = loops[0]
    pol = _scan_test(iff.test, df, df.cfg.node_of(iff).idx)
    scan_body, other_body = (iff.body, iff.orelse) if pol else (iff.orelse, iff.body)
    # (1) what is tested for membership in the scan axes is the axis *index*
    t = iff.test
    while isinstance(t, ast.UnaryOp):
        t = t.operand
    ctx.require(isinstance(t.left, ast.Name), f"{f.qualname}: the scan-axis test does not test a plain variable")
    src = _loop_sources(lp, f)
    ctx.require(t.left.id in src, f"{f.qualname}: the tested variable `{t.left.id}` is not a loop variable")
    role, it = src[t.left.id]
    node = df.cfg.node_of(lp).idx
    hops = 0
    while hops < 5:
        if isinstance(it, ast.Call) and call_name(it) in ("tuple", "list") and len(it.args) == 1:
            it = it.args[0]
        elif isinstance(it, ast.Name):
            d = df.single_def(node, it.id)
            if d is None or d.kind != "assign" or d.value is None:
                break
            it, node = d.value, d.node
        else:
            break
        hops += 1
    is_range = isinstance(it, ast.Call) and call_name(it) == "range"
    is_lengths = (dotted(it) or "").split(".")[-1].endswith("shape")
    if role == "index" or is_range:
        ctx.ok("R-SRCAXES", f"{f.qualname}:tested axis", f.loc(iff.test), "membership in the scan axes is tested for the "
               "axis index")
    elif is_lengths:
        ctx.violation("R-SRCAXES", f"{f.qualname}:tested axis", f.loc(iff.test),
                      f"`{norm_text(iff.test)[:50]}` tests an element of `{norm_text(it)[:40]}` — the length of the axis, "
                      "not its index — for membership in the scan axes: the Gaussian is applied along whichever axes "
                      "happen to have a length that is a scan-axis number", key_detail="axis-variable")
    else:
        raise AnalysisError(f"{f.qualname}: the variable tested against the scan axes iterates `{norm_text(it)[:40]}`")
    # (2) the subscript that picks sigma / scan sampling advances with the scan axes
    idx_names = set()
    for st in scan_body:
        for n in ast.walk(st):
            if isinstance(n, ast.Subscript) and isinstance(n.slice, ast.Name) and isinstance(n.value, (ast.Name, ast.Call)):
                base = n.value.id if isinstance(n.value, ast.Name) else call_name(n.value)
                if base in f.params or (base or "").split(".")[-1] == "_scan_sampling":
                    idx_names.add(n.slice.id)
    ctx.require(len(idx_names) == 1, f"{f.qualname}: the per-scan-axis subscripts use {sorted(idx_names) or 'no'} index "
                                     "variable(s)")
    i = idx_names.pop()
    if i in src and i != t.left.id:
        raise AnalysisError(f"{f.qualname}: the scan-axis subscript `{i}` is a loop variable; form not analysed")
    if i == t.left.id:
        ctx.violation("R-SRCAXES", f"{f.qualname}:scan counter", f.loc(iff), f"sigma and the scan sampling are subscripted "
                      f"with the ensemble-axis index `{i}` itself, which is not the position among the scan axes as soon "
                      "as a non-scan ensemble axis precedes a scan axis", key_detail="counter")
        return
    incs_scan = [s for st in scan_body for s in ast.walk(st) if isinstance(s, ast.AugAssign) and dotted(s.target) == i]
    incs_other = [s for st in other_body for s in ast.walk(st) if isinstance(s, (ast.AugAssign, ast.Assign))
                  and i in {dotted(x) for x in ([s.target] if isinstance(s, ast.AugAssign) else s.targets)}]
    incs_loop = [s for s in walk_no_nested(lp) if isinstance(s, (ast.AugAssign, ast.Assign))
                 and i in {dotted(x) for x in ([s.target] if isinstance(s, ast.AugAssign) else s.targets)}]
    if any(isinstance(s, ast.Assign) for s in incs_loop):
        raise AnalysisError(f"{f.qualname}: the scan-axis subscript `{i}` is assigned inside the loop (not a counter); "
                            "form not analysed")
    init = [d for d in df.reaching(df.cfg.node_of(lp).idx, i) if d.node not in df.cfg.loop_body_nodes(df.cfg.node_of(lp).idx)]
    init_ok = len(init) == 1 and init[0].kind == "assign" and _fold(init[0].value) == 0
    ctx.require(init_ok, f"{f.qualname}: the scan counter `{i}` does not start at 0 before the loop")
    good = len(incs_scan) == 1 and isinstance(incs_scan[0].op, ast.Add) and _fold(incs_scan[0].value) == 1 \
        and not incs_other and len(incs_loop) == 1
    ctx.check(good, "R-SRCAXES", f"{f.qualname}:scan counter", f.loc(iff),
              "the subscript of sigma / scan sampling starts at 0 and is advanced by 1 once per scan axis",
              f"the subscript `{i}` of sigma / _scan_sampling is advanced "
              f"{'nowhere' if not incs_loop else 'by ' + '; '.join(norm_text(s)[:30] for s in incs_loop)} "
              "in the loop instead of by exactly one per scan axis (in the scan arm only): the second scan axis is "
              "filtered with the first axis' sigma and sampling, so an anisotropic source no longer commutes with "
              "the image-side filter", key_detail="counter")


def _image_cases(ctx, repo):
    """What `_BaseMeasurement2D.gaussian_filter` hands to the ndimage filter, for E = 0, 1, 2 ensemble axes, a scalar
    and a pair sigma, a lazy and an eager array (sa/rules/imgfilter executes the method's tuple assembly)."""
    from ..rules import imgfilter
    from ..model import fold_constant

    cached = getattr(repo, "_c16_image_cases", None)
    if cached is None:
        try:
            g = repo.method(MEAS, "_BaseMeasurement2D", "gaussian_filter")
            hit = repo.cls(MEAS, "_BaseMeasurement2D").find_class_attr("_base_dims")
            try:
                nbase = fold_constant(hit[1]) if hit is not None else None
            except Exception:  # noqa: BLE001
                nbase = None
            if nbase != imgfilter.BASE_DIMS:
                raise AnalysisError(f"{g.qualname}: the measurement does not declare two base axes (_base_dims={nbase})")
            cached = ("ok", imgfilter.all_cases(g))
        except AnalysisError as e:
            cached = ("error", e)
        try:
            repo._c16_image_cases = cached
        except Exception:  # noqa: BLE001
            pass
    if cached[0] == "error":
        raise cached[1]
    return cached[1]


def _image_filter(ctx, repo) -> None:
    """Per-axis decisions on the image-side filter: the sigma each arm hands to the filter, the overlap depth of the
    lazy arm against that same per-axis sigma, the agreement of the two arms."""
    from ..rules import imgfilter as F

    g = repo.method(MEAS, "_BaseMeasurement2D", "gaussian_filter")
    every = _image_cases(ctx, repo)
    faults = [c for c in every if isinstance(c, F.Fault)]
    cases = [c for c in every if isinstance(c, F.FilterCall)]
    ctx.check(not faults, "R-SRCTWIN", f"{g.qualname}:per-axis assembly", g.loc(faults[0].node) if faults and
              faults[0].node is not None else g.where,
              "the per-axis sigma / depth tuples are assembled without a fault for 0, 1, 2 ensemble axes, scalar and pair "
              "sigma, lazy and eager arrays",
              "" if not faults else f"for {faults[0].ensemble_dims} ensemble axes, a {faults[0].sigma_kind} sigma and a "
              f"{faults[0].arm} array the method fails while assembling its per-axis tuples: {faults[0].message}",
              key_detail="image-fault")
    ctx.assume("measurement API as modelled in sa/rules/imgfilter: self.shape = self.array.shape = ensemble axes "
               "followed by the two base axes, self.base_shape / self.ensemble_shape / self.ensemble_dims its parts, "
               "self.sampling the pixel size per base axis; scipy/cupyx gaussian_filter truncates the kernel at "
               "`truncate` (default 4.0) standard deviations and skips axes whose sigma is 0")

    def label(c) -> str:
        return f"{c.ensemble_dims} ensemble ax{'i' if c.ensemble_dims == 1 else 'e'}s, {c.sigma_kind} sigma"

    def axis_name(c, a: int) -> str:
        return f"ensemble axis {a}" if a < c.ensemble_dims else f"base axis {a - c.ensemble_dims}"

    def truncate_of(c) -> Fraction:
        t = c.kwargs.get("truncate", 4.0)
        if isinstance(t, bool) or not isinstance(t, (int, float)):
            raise AnalysisError(f"{g.qualname}: truncate= of the {c.arm} filter call is not a literal number")
        return Fraction(str(t))

    # ---- (1) the sigma every arm hands to the filter: 0 on the ensemble axes, sigma[k] / sampling[k] on base axis k
    passed: dict[int, list] = {}  # id(case) -> per-axis sigma terms (None when misaligned)
    for arm in ("lazy", "eager"):
        bad = None
        node = None
        for c in (x for x in cases if x.arm == arm):
            node = node or c.node
            entries, why = F.per_axis(c.sigma, c.ndim, "sigma")
            if entries is None:
                bad = bad or f"{label(c)}: {why}, so the per-axis standard deviations are misaligned with the array axes"
                passed[id(c)] = None
                continue
            polys = []
            for a, v in enumerate(entries):
                p = F.scalar_poly(v)
                if p is None:
                    raise AnalysisError(f"{g.qualname}: sigma entry for {axis_name(c, a)} is not an arithmetic term")
                polys.append(p)
                if a < c.ensemble_dims:
                    if not p.is_zero():
                        bad = bad or (f"{label(c)}: the filter receives sigma {F.show(p)} for {axis_name(c, a)}; the "
                                      "Gaussian then mixes different ensemble members (scan positions, frozen phonons, "
                                      "...), which integrating first and filtering the image never does")
                else:
                    k = a - c.ensemble_dims
                    want = F.user_sigma(c.sigma_kind, k) * F.sampling(k).inverse()
                    if p != want:
                        bad = bad or (f"{label(c)}: the filter receives sigma {F.show(p)} [pixels] for {axis_name(c, a)}, "
                                      f"not {F.show(want)}: the kernel differs from the source-size kernel "
                                      "sigma[i]/scan_sampling[i], so integrate-then-filter and filter-then-integrate give "
                                      "different images")
            passed[id(c)] = polys
        ctx.check(bad is None, "R-SRCTWIN", f"{g.qualname}:sigma-pixels {arm} arm", g.loc(node),
                  "the filter receives 0 on every ensemble axis and sigma[k] / sampling[k] [pixels] on base axis k "
                  "(0, 1, 2 ensemble axes; scalar and pair sigma)", bad or "", key_detail="sigma")

    # ---- (2) the overlap of the lazy arm covers the truncation radius of the sigma handed to the filter, axis by axis
    bad_depth = bad_clip = bad_boundary = None
    ratios = set()
    node = None
    for c in (x for x in cases if x.arm == "lazy"):
        node = node or c.node
        sig = passed[id(c)]
        if sig is None:
            continue  # reported under sigma-pixels
        if "depth" not in c.kwargs:
            raise AnalysisError(f"{g.qualname}: map_overlap without depth=")
        t = truncate_of(c)
        entries, why = F.per_axis(c.kwargs["depth"], c.ndim, "the overlap depth")
        if entries is None:
            bad_depth = bad_depth or f"{label(c)}: {why}"
            continue
        for a, v in enumerate(entries):
            p_sig = sig[a]
            if p_sig.is_zero():
                continue  # nothing is filtered along this axis: any overlap is enough
            if not p_sig.is_monomial():
                raise AnalysisError(f"{g.qualname}: sigma for {axis_name(c, a)} is not a monomial")
            own = F.axis_length(c.ensemble_dims, a)
            lengths = {F.axis_length(c.ensemble_dims, b).key(): b for b in range(c.ndim)}
            args = F.min_args(v)
            if args is None:
                r0 = F.rounded(v)
                if r0 is None:
                    raise AnalysisError(f"{g.qualname}: overlap depth for {axis_name(c, a)} is not an arithmetic term")
                args = [r0]
            for how, p in args:
                if p == own:
                    continue  # clip to the length of this very axis
                if p.key() in lengths:
                    bad_clip = bad_clip or (f"{label(c)}: the overlap depth of {axis_name(c, a)} is clipped to the length "
                                            f"of {axis_name(c, lengths[p.key()])}: whenever that other axis is shorter "
                                            "than the kernel radius the blocks see a cut kernel along this one")
                    continue
                # the kernel reaches int(t * sigma + 0.5) pixels; ceil(c*sigma + k) covers it iff c >= t and k >= 0,
                # floor(c*sigma + k) iff c >= t and k >= 1/2
                ck = F.affine_in(p, p_sig)
                need_k = Fraction(1, 2) if how == "floor" else Fraction(0)
                if ck is not None and ck[0] >= t and ck[1] >= need_k:
                    ratios.add(ck[0])
                    continue
                shown = F.show(p) if how == "exact" else f"{how}({F.show(p)})"
                if ck is not None and ck[0] >= t:
                    bad_depth = bad_depth or (
                        f"{label(c)}: along {axis_name(c, a)} the kernel reaches int({float(t)} * sigma + 0.5) pixels for "
                        f"the sigma {F.show(p_sig)} handed to the filter, but the blocks overlap by {shown} pixels, which "
                        "is one pixel short of that for some sigma: lazy blocks see a cut kernel")
                    continue
                bad_depth = bad_depth or (
                    f"{label(c)}: along {axis_name(c, a)} the filter is handed sigma {F.show(p_sig)} [pixels] and is "
                    f"truncated at {float(t)} sigma, but the blocks overlap by {shown} pixels = "
                    f"{F.show(p * p_sig.inverse())} x that sigma, which is not a constant >= {float(t)}: the overlap is "
                    "not computed from the per-axis pixel sigma the filter receives, so lazy blocks see a cut kernel "
                    "(and a too short periodic padding) whenever it comes out smaller; the lazily filtered image differs "
                    "from the eager one and from the source-size-filtered patterns integrated afterwards")
        # the padding dask adds around the whole array is the one the filter mode assumes
        mode = c.kwargs.get("mode")
        if mode == "wrap" and c.kwargs.get("boundary") != "periodic":
            bad_boundary = bad_boundary or (f"{label(c)}: the filter runs with mode='wrap' but map_overlap pads the outer "
                                            f"edge with boundary={c.kwargs.get('boundary', '<dask default>')!r}: the edge "
                                            "blocks are not wrapped around, lazy and eager images differ at the border")
    ctx.check(bad_depth is None, "R-SRCTWIN", f"{g.qualname}:overlap-depth", g.loc(node),
              f"per filtered axis the lazy overlap is >= ceil({', '.join(str(float(r)) for r in sorted(ratios)) or '?'} x "
              "the pixel sigma handed to the filter) (clipped to the axis length)", bad_depth or "",
              key_detail="image-depth")
    ctx.check(bad_clip is None, "R-SRCTWIN", f"{g.qualname}:overlap-clip", g.loc(node),
              "the depth is clipped to the length of its own axis only", bad_clip or "", key_detail="image-clip")
    ctx.check(bad_boundary is None, "R-SRCTWIN", f"{g.qualname}:overlap-boundary", g.loc(node),
              "periodic filtering pads the outer edge periodically", bad_boundary or "", key_detail="image-boundary")

    # ---- (3) lazy and eager arm apply the same filter with the same sigma, mode, cval and truncation
    bad_twin = None
    by = {}
    for c in cases:
        by.setdefault((c.ensemble_dims, c.sigma_kind), {})[c.arm] = c
    for (_e, _k), pair in by.items():
        if len(pair) != 2:
            continue  # the other arm faulted: reported above
        lz, eg = pair["lazy"], pair["eager"]
        for what, x, y in (("the filter", lz.filter_name, eg.filter_name),
                           ("sigma", None if passed[id(lz)] is None else [p.key() for p in passed[id(lz)]],
                            None if passed[id(eg)] is None else [p.key() for p in passed[id(eg)]]),
                           ("mode", _plain(lz.kwargs.get("mode", "reflect")), _plain(eg.kwargs.get("mode", "reflect"))),
                           ("cval", _plain(lz.kwargs.get("cval", 0.0)), _plain(eg.kwargs.get("cval", 0.0))),
                           ("truncate", truncate_of(lz), truncate_of(eg))):
            if x != y:
                bad_twin = bad_twin or (f"{label(lz)}: the lazy arm applies {what} {x} but the eager arm {y}: a lazy image "
                                        "is filtered differently from the same image computed eagerly")
    ctx.check(bad_twin is None, "R-SRCTWIN", f"{g.qualname}:lazy~eager", g.where,
              "both arms apply the same filter with the same per-axis sigma, mode, cval and truncation", bad_twin or "",
              key_detail="image-arms")


def _plain(v):
    from ..rules import imgfilter as F

    if isinstance(v, (str, bool)) or v is None:
        return v
    p = F.scalar_poly(v)
    if p is None:
        raise AnalysisError("image filter: a filter keyword is not a plain value")
    return p.key()


def _image_grid(ctx, repo) -> None:
    from ..rules.ratfun import Rat, RatFlow
    from ..terms import Normalizer

    f = repo.method(MEAS, "Images", "interpolate")
    df = DataFlow(f.node)
    rounding = {"int", "np.ceil", "xp.ceil", "math.ceil", "np.floor", "np.round", "round", "np.rint"}
    # (1) gpts from a requested sampling: a comprehension over zip(sampling, self.extent)
    n_found = 0
    for st in walk_no_nested(f.node):
        if not (isinstance(st, ast.Assign) and dotted(st.targets[0]) == "gpts"):
            continue
        v = st.value
        if isinstance(v, ast.Call) and call_name(v) in ("tuple", "list") and len(v.args) == 1:
            v = v.args[0]
        if not (isinstance(v, (ast.GeneratorExp, ast.ListComp)) and len(v.generators) == 1):
            continue
        gen = v.generators[0]
        if not (isinstance(gen.iter, ast.Call) and call_name(gen.iter) == "zip" and isinstance(gen.target, ast.Tuple)
                and len(gen.iter.args) == 2 and len(gen.target.elts) == 2):
            raise AnalysisError(f"{f.qualname}: cannot read the comprehension that turns a sampling into gpts")
        role = {}
        for x, a in zip(gen.target.elts, gen.iter.args):
            role[dotted(a)] = dotted(x)
        ctx.require("sampling" in role and "self.extent" in role, f"{f.qualname}: gpts are not computed from zip(sampling, "
                                                                  "self.extent)")
        nz = Normalizer(identity_calls=rounding)
        got = nz.norm(v.elt)
        want = Poly.atom(role["self.extent"]) * Poly.atom(role["sampling"]).inverse()
        n_found += 1
        off = (got - want).const_value()  # an additive constant of at most one point is a rounding convention
        ctx.check(off is not None and abs(off) <= 1, "R-IMGGRID", f"{f.qualname}:gpts from sampling", f.loc(v),
                  "points per axis = extent / requested sampling (rounded)",
                  f"for a requested pixel size d over an extent l the number of points is {got.key()[:60]} (rounding "
                  f"aside), not l / d: asking for the sampling the image already has does not give its own grid back, "
                  "so the Fourier interpolation is not the identity there", key_detail="gpts")
    ctx.require(n_found == 1, f"{f.qualname}: expected one conversion sampling -> gpts, found {n_found}")
    # (2) the sampling the result is labelled with
    stores = [st for st in walk_no_nested(f.node) if isinstance(st, ast.Assign) and isinstance(st.targets[0], ast.Subscript)
              and isinstance(st.targets[0].slice, ast.Constant) and st.targets[0].slice.value == "sampling"]
    ctx.require(len(stores) == 1, f"{f.qualname}: kwargs['sampling'] store not found")
    at = df.cfg.node_of(stores[0]).idx
    e, node, hops = stores[0].value, at, 0
    while isinstance(e, ast.Name) and hops < 4:
        d = df.single_def(node, e.id)
        if d is None or d.value is None:
            break
        e, node, hops = d.value, d.node, hops + 1
    ctx.require(isinstance(e, ast.Tuple) and len(e.elts) == 2, f"{f.qualname}: the published sampling is not a pair literal")
    nzr = RatFlow(df, node)
    nzr.no_inline = {"gpts"}
    for k in (0, 1):
        got = nzr.rat(e.elts[k])
        want = nzr.rat(ast.parse(f"self.extent[{k}] / gpts[{k}]", mode="eval").body)
        ctx.check(got == want, "R-IMGGRID", f"{f.qualname}:published sampling axis {k}", f.loc(e.elts[k]),
                  f"sampling[{k}] = extent[{k}] / gpts[{k}]",
                  f"the interpolated image is labelled with sampling[{k}] = {got.key()[:70]}, not extent[{k}] / gpts[{k}]: "
                  "the extent of the image changes under interpolation and an interpolation to the same number of "
                  "points does not return the input measurement", key_detail=f"sampling{k}")
    # (3) both arms hand the same target shape and normalisation to fft_interpolate
    seen = {}
    for c in walk_no_nested(f.node):
        if not isinstance(c, ast.Call):
            continue
        arm = None
        if last_attr(c) == "map_blocks" and c.args and last_attr(c.args[0]) == "fft_interpolate":
            arm, b = "lazy", {k.arg: k.value for k in c.keywords if k.arg}
        elif last_attr(c) == "fft_interpolate":
            arm, b = "eager", bind_args(c, repo.function("abtem.core.fft", "fft_interpolate"))
        if arm:
            seen[arm] = ({p: norm_text(b[p]) if p in b else "<default>" for p in ("new_shape", "normalization")}, c)
    ctx.require(set(seen) == {"lazy", "eager"}, f"{f.qualname}: lazy/eager fft_interpolate calls not found")
    ctx.check(seen["lazy"][0] == seen["eager"][0] == {"new_shape": "gpts", "normalization": "normalization"}, "R-IMGGRID",
              f"{f.qualname}:fft arms", f.loc(seen["eager"][1]), "both arms interpolate to gpts with the caller's normalization",
              f"fft_interpolate receives {seen['lazy'][0]} (lazy) / {seen['eager'][0]} (eager) instead of the requested "
              "gpts and normalization in both arms", key_detail="arms")


def run(ctx) -> None:  # noqa: F811
    repo = ctx.repo
    ctx.rule("R-IMGGRID", "Images.interpolate: a requested sampling d is turned into extent/d points per axis (up to "
             "rounding), the result is labelled with sampling[k] = extent[k]/gpts[k] (so gpts*sampling = extent stays "
             "invariant and the image's own sampling or gpts reproduces its own grid), and both the lazy and the eager "
             "Fourier arm hand gpts and the caller's normalization to fft_interpolate — necessary for 'the Fourier method "
             "returns the input unchanged at the same grid'")
    _run_deferring(ctx, [lambda: _scan_loop(ctx, repo), lambda: _image_filter(ctx, repo), lambda: _image_grid(ctx, repo)],
                   _inner_run_c16b)
