"""C12 — detectors measure consistent integrated intensities (geometry clauses).

R-BINWIDTH   per concrete `_AbstractRadialDetector` subclass K: the radial sampling K publishes (axis metadata /
             `radial_sampling` property) is the width of the bins `_polar_detector_bins` actually builds,
             (outer - inner) / nbins_radial, with K's own `nbins_radial`; the published radial offset is the inner
             limit handed to the binning.  The same for the PolarMeasurements built by DiffractionPatterns.polar_binning.
R-LIMITFLOW  the limits and bin counts travel unchanged from the detector to the mask/bin builder
             (detector -> polar_binning -> _radial_binning -> _polar_detector_bins and
              detector -> integrate_radial -> _integrate_fourier_space -> _annular_detector_mask), in the lazy and
             the eager arm alike.
R-MASKCONV   `_annular_detector_mask` and `_polar_detector_bins` select the same half-open interval
             [inner, outer): same comparison operators, lower bound inclusive, upper exclusive, bound raised to the
             same power as the radial coordinate it is compared with.
"""
from __future__ import annotations

import ast
from contextlib import contextmanager
from fractions import Fraction
from typing import Optional

from ..cfg import DataFlow
from ..model import AnalysisError, ClassInfo, FuncInfo, bind_args, call_name, dotted, kw, norm_text, walk_no_nested
from ..rules.ratfun import Rat, RatFlow, RatMixin
from ..terms import FlowNormalizer, Normalizer, Poly

DET = "abtem.detectors"
MEAS = "abtem.measurements"


# ---------------------------------------------------------------------------------------------- helpers
def _single_return(f: FuncInfo) -> ast.expr:
    rets = [n for n in walk_no_nested(f.node) if isinstance(n, ast.Return) and n.value is not None]
    if len(rets) != 1:
        raise AnalysisError(f"{f.qualname}: expected exactly one value-returning `return`, found {len(rets)}")
    return rets[0].value


class ClassNorm(RatMixin, Normalizer):
    """Normaliser in which `self.X` is replaced by the value returned by K's property getter X (resolved in
    K's MRO, single-return getters only); plain instance attributes stay atoms."""

    def __init__(self, cls: ClassInfo, **kw_):
        super().__init__(**kw_)
        self.cls = cls

    def _getter(self, name: str) -> Optional[ast.expr]:
        if name.startswith("self.") and name.count(".") == 1 and name not in self._stack:
            g = self.cls.find_method(name.split(".", 1)[1], "getter")
            if g is not None and g.is_property and not g.is_abstract:
                return _getter_value(g)
        return None

    def _name(self, name: str) -> Poly:
        with self._inline(name) as expr:
            if expr is not None:
                return self.norm(expr)
        return self.atom(name)

    @contextmanager
    def _inline(self, name: str):
        expr = self._getter(name)
        if expr is None:
            yield None
            return
        self._stack.append(name)
        try:
            yield expr
        finally:
            self._stack.pop()


def _getter_value(g: FuncInfo) -> ast.expr:
    """Value of a property getter: the single return; locals defined once are inlined by the caller's
    normaliser only if the getter is a one-expression body, otherwise the getter must be `return <expr>`."""
    val = _single_return(g)
    names = {n.id for n in ast.walk(val) if isinstance(n, ast.Name)}
    local_defs = {t.id for st in walk_no_nested(g.node) if isinstance(st, ast.Assign) for t in st.targets
                  if isinstance(t, ast.Name)}
    if names & local_defs:
        # inline straight-line locals through the flow normaliser and re-parse the key is not possible;
        # keep it simple: substitute single-definition locals syntactically
        df = DataFlow(g.node)
        ret = [n for n in walk_no_nested(g.node) if isinstance(n, ast.Return) and n.value is not None][0]
        at = df.cfg.node_of(ret).idx

        class Sub(ast.NodeTransformer):
            def visit_Name(self, node):
                if node.id in local_defs:
                    d = df.single_def(at, node.id)
                    if d is None or d.kind != "assign" or d.value is None:
                        raise AnalysisError(f"{g.qualname}: local `{node.id}` is not a single definition")
                    return self.visit(_copy(d.value))
                return node

        return Sub().visit(_copy(val))
    return val


def _copy(n: ast.AST) -> ast.AST:
    import copy

    return copy.deepcopy(n)


def _calls_to(f: FuncInfo, attr: str) -> list[ast.Call]:
    return [c for c in walk_no_nested(f.node) if isinstance(c, ast.Call) and (
        (isinstance(c.func, ast.Attribute) and c.func.attr == attr) or (isinstance(c.func, ast.Name) and c.func.id == attr))]


def _blockwise_calls(f: FuncInfo, target: str) -> list[tuple[str, ast.Call, dict]]:
    """Calls that run the static method `target` on the receiver's array: direct `self.<target>(arr, **kw)` and
    `<arr>.map_blocks(self.<target>, **kw)` / `da.map_blocks(self.<target>, arr, **kw)`.
    Returns (arm, call, keyword bindings)."""
    out = []
    for c in walk_no_nested(f.node):
        if not isinstance(c, ast.Call):
            continue
        if isinstance(c.func, ast.Attribute) and c.func.attr == target and dotted(c.func.value) in ("self", "cls"):
            out.append(("eager", c, {k.arg: k.value for k in c.keywords if k.arg}))
        elif isinstance(c.func, ast.Attribute) and c.func.attr == "map_blocks" and c.args and \
                isinstance(c.args[0], ast.Attribute) and c.args[0].attr == target:
            out.append(("lazy", c, {k.arg: k.value for k in c.keywords if k.arg}))
    return out


def _passes(ctx, rule: str, caller: FuncInfo, callee: FuncInfo, call: ast.Call, bound: dict, names: dict[str, str],
            arm: str = "") -> None:
    """Every callee parameter in `names` (callee param -> expected caller expression text as dotted name) must be
    bound to exactly that caller-side name (after inlining single reaching definitions)."""
    df = DataFlow(caller.node)
    stmt = _enclosing_stmt(caller, call)
    at = df.cfg.node_of(stmt).idx
    nz = FlowNormalizer(df, at)
    for p, expected in names.items():
        construct = f"{caller.qualname}->{callee.short}{('[' + arm + ']') if arm else ''}:{p}"
        if p not in bound:
            d = callee.defaults().get(p)
            ctx.violation(rule, construct, caller.loc(call),
                          f"`{p}` is not passed to {callee.short}; the callee default "
                          f"{norm_text(d) if d is not None else '<none>'} is used instead of `{expected}`",
                          key_detail="unbound")
            continue
        got = nz.norm(bound[p])
        exp = nz.norm(ast.parse(expected, mode="eval").body)
        ctx.check(got == exp, rule, construct, caller.loc(call),
                  f"{p} = {expected} handed through unchanged",
                  f"{callee.short} receives {p}={norm_text(bound[p])} (= {got.key()}), not the caller's `{expected}`",
                  key_detail="passthrough")


def _enclosing_stmt(f: FuncInfo, node: ast.AST) -> ast.stmt:
    best = None
    for st in walk_no_nested(f.node):
        if isinstance(st, ast.stmt) and not isinstance(st, (ast.If, ast.For, ast.While, ast.With, ast.Try,
                                                              ast.FunctionDef, ast.ClassDef)):
            if any(x is node for x in ast.walk(st)):
                best = st
    if best is None:
        # the node sits in a compound statement header (e.g. `if f(x):`)
        for st in walk_no_nested(f.node):
            if isinstance(st, (ast.If, ast.While)) and any(x is node for x in ast.walk(st.test)):
                best = st
    if best is None:
        raise AnalysisError(f"{f.qualname}: cannot locate the statement of {norm_text(node)[:40]}")
    return best


def _degree(p: Poly) -> Fraction:
    degs = {sum((e for _, e in m), Fraction(0)) for m in p.terms}
    if len(degs) != 1:
        raise AnalysisError(f"term {p.key()[:60]} is not homogeneous")
    return degs.pop()


# ---------------------------------------------------------------------------------------------- R-MASKCONV
_FLIP = {ast.Lt: ast.Gt, ast.Gt: ast.Lt, ast.LtE: ast.GtE, ast.GtE: ast.LtE}
_SYM = {ast.Lt: "<", ast.Gt: ">", ast.LtE: "<=", ast.GtE: ">="}


def _bound_comparisons(f: FuncInfo, lower: str, upper: str):
    """Comparisons `coord OP bound` in f where bound is a pure power of the parameter `lower`/`upper`.
    Returns {lower: (opclass, coord poly, bound poly, node), upper: ...}."""
    df = DataFlow(f.node)
    found: dict[str, list] = {lower: [], upper: []}
    for st in walk_no_nested(f.node):
        if not isinstance(st, ast.stmt) or isinstance(st, (ast.If, ast.For, ast.While, ast.With, ast.Try)):
            continue
        try:
            at = df.cfg.node_of(st).idx
        except AnalysisError:
            continue
        for c in ast.walk(st):
            if not (isinstance(c, ast.Compare) and len(c.ops) == 1 and type(c.ops[0]) in _FLIP):
                continue
            nz = FlowNormalizer(df, at)
            nz.no_inline = {lower, upper}
            sides = [nz.norm(c.left), nz.norm(c.comparators[0])]
            for name in (lower, upper):
                for i in (0, 1):
                    b = sides[i]
                    if b.atoms() == {name} and b.is_monomial():
                        op = type(c.ops[0]) if i == 1 else _FLIP[type(c.ops[0])]
                        found[name].append((op, sides[1 - i], b, c))
    return found


def _maskconv(ctx, repo) -> None:
    conv = {}
    for fname in ("_annular_detector_mask", "_polar_detector_bins"):
        f = repo.function(MEAS, fname)
        ctx.require({"inner", "outer"} <= set(f.params), f"{f.qualname}: parameters inner/outer not found")
        found = _bound_comparisons(f, "inner", "outer")
        for name in ("inner", "outer"):
            ctx.require(len(found[name]) == 1, f"{f.qualname}: expected one comparison against `{name}`, "
                                               f"found {len(found[name])}")
        (lop, lcoord, lb, lnode), (uop, ucoord, ub, unode) = found["inner"][0], found["outer"][0]
        ctx.require(lcoord == ucoord, f"{f.qualname}: lower and upper bound are compared with different coordinates")
        conv[fname] = (lop, uop)
        ctx.check(lop in (ast.GtE, ast.Gt) and uop in (ast.Lt, ast.LtE), "R-MASKCONV", f"{f.qualname}:orientation",
                  f.loc(lnode), f"coordinate {_SYM[lop]} inner and coordinate {_SYM[uop]} outer",
                  f"the selection is `coord {_SYM[lop]} inner` / `coord {_SYM[uop]} outer`: it does not select the "
                  "annulus between inner and outer", key_detail="orientation")
        ctx.check(lop is ast.GtE and uop is ast.Lt, "R-MASKCONV", f"{f.qualname}:half-open", f.loc(lnode),
                  "interval is [inner, outer): lower bound inclusive, upper bound exclusive",
                  f"interval uses `coord {_SYM[lop]} inner`, `coord {_SYM[uop]} outer`; adjacent ranges "
                  "[a,b) and [b,c) are additive, and bin index nbins*(alpha-inner)/(outer-inner) stays in range, "
                  "only for the half-open convention `>= inner`, `< outer`", key_detail="half-open")
        for nm, coord, b, node in (("inner", lcoord, lb, lnode), ("outer", ucoord, ub, unode)):
            dc, db = _degree(coord), _degree(b)
            ctx.check(dc == db, "R-MASKCONV", f"{f.qualname}:power {nm}", f.loc(node),
                      f"coordinate and `{nm}` both of degree {dc}",
                      f"radial coordinate {coord.key()[:60]} has degree {dc} but is compared with {b.key()} of degree "
                      f"{db} (squared radius against an unsquared angle or vice versa)", key_detail=f"power-{nm}")
    a, b = conv["_annular_detector_mask"], conv["_polar_detector_bins"]
    ctx.check(a == b, "R-MASKCONV", f"{MEAS}:_annular_detector_mask~_polar_detector_bins",
              repo.function(MEAS, "_annular_detector_mask").where,
              f"both use (coord {_SYM[a[0]]} inner, coord {_SYM[a[1]]} outer)",
              f"_annular_detector_mask uses ({_SYM[a[0]]} inner, {_SYM[a[1]]} outer) but _polar_detector_bins uses "
              f"({_SYM[b[0]]} inner, {_SYM[b[1]]} outer): a pixel exactly on a limit is counted by one and not by "
              "the other", key_detail="agree")


# ---------------------------------------------------------------------------------------------- bin index term
def _bin_width_terms(ctx, repo):
    """From `_polar_detector_bins`: radial bin index as a term in alpha; returns (slope poly, zero-at-inner ok)."""
    f = repo.function(MEAS, "_polar_detector_bins")
    df = DataFlow(f.node)
    # the radial coordinate: first element of the tuple returned by polar_spatial_frequencies
    alpha = None
    for st in walk_no_nested(f.node):
        if isinstance(st, ast.Assign) and isinstance(st.value, ast.Call) and call_name(st.value) == \
                "polar_spatial_frequencies" and isinstance(st.targets[0], ast.Tuple) and \
                isinstance(st.targets[0].elts[0], ast.Name):
            alpha = st.targets[0].elts[0].id
    ctx.require(alpha is not None, f"{f.qualname}: radial coordinate from polar_spatial_frequencies not found")
    # the flattened label: bins = azimuthal_index + radial_index * nbins_azimuthal  (row-major over
    # (nbins_radial, nbins_azimuthal), the shape the binned result is reshaped to)
    import re as _re
    radial_arr = None
    label_st = None
    for st in walk_no_nested(f.node):
        if not (isinstance(st, ast.Assign) and len(st.targets) == 1):
            continue
        p = Normalizer().norm(st.value)
        if len(p.terms) != 2:
            continue
        monos = sorted(p.terms.items(), key=lambda kv: len(kv[0]))
        (m1, c1), (m2, c2) = monos
        if len(m1) == 1 and len(m2) == 2 and c1 == 1 and c2 == 1 and all(e == 1 for _, e in m1 + m2):
            names2 = dict(m2)
            arr = [a for a in names2 if _re.match(r"^(1\*)?\w+\[", a)]
            other = [a for a in names2 if a not in arr]
            if len(arr) == 1 and len(other) == 1 and _re.match(r"^(1\*)?\w+\[", m1[0][0]):
                radial_arr = _re.match(r"^(?:1\*)?(\w+)\[", arr[0]).group(1)
                label_st = (st, other[0], _re.match(r"^(?:1\*)?(\w+)\[", m1[0][0]).group(1))
    ctx.require(radial_arr is not None, f"{f.qualname}: flattened label `azimuthal + radial * nbins` not found")
    ctx.check(label_st[1] == "nbins_azimuthal", "R-BINWIDTH", f"{f.qualname}:label-order", f.loc(label_st[0]),
              f"label = {label_st[2]} + {radial_arr} * nbins_azimuthal (row-major over (radial, azimuthal))",
              f"label = {label_st[2]} + {radial_arr} * {label_st[1]}: the result is reshaped to (nbins_radial, "
              "nbins_azimuthal), which needs the radial index multiplied by nbins_azimuthal", key_detail="label")
    cands = []
    for st in walk_no_nested(f.node):
        if isinstance(st, ast.Assign) and len(st.targets) == 1:
            t = st.targets[0]
            base = t.value if isinstance(t, ast.Subscript) else t
            if isinstance(base, ast.Name) and base.id == radial_arr:
                sl = df.backward_slice(df.cfg.node_of(st).idx, st.value)
                if alpha in sl.visited:
                    cands.append(st)
    ctx.require(len(cands) == 1, f"{f.qualname}: expected one radial-index assignment into `{radial_arr}`, "
                                 f"found {len(cands)}")
    st = cands[0]
    nz = RatFlow(df, df.cfg.node_of(st).idx, identity_calls={"np.floor", "xp.floor", "int"})
    nz.no_inline = {alpha, "inner", "outer", "nbins_radial"}
    idx = nz.rat(st.value)
    alpha_atoms = {a for a in idx.atoms() if a == alpha or a.startswith(f"1*{alpha}[") or a.startswith(f"{alpha}[")}
    ctx.require(len(alpha_atoms) == 1 and not (idx.den.atoms() & alpha_atoms),
                f"{f.qualname}: radial index {idx.key()[:80]} is not a polynomial in `{alpha}`")
    a_atom = alpha_atoms.pop()
    slope = idx.subst({a_atom: Poly.const(1)}) - idx.subst({a_atom: Poly.const(0)})
    at_inner = idx.subst({a_atom: Poly.atom("inner")})
    linear = (idx.subst({a_atom: Poly.const(2)}) - idx.subst({a_atom: Poly.const(1)})) == slope
    ctx.require(linear, f"{f.qualname}: radial index {idx.key()[:80]} is not linear in `{alpha}`")
    return f, st, idx, slope, at_inner


# ---------------------------------------------------------------------------------------------- run
def run(ctx) -> None:
    repo = ctx.repo
    ctx.rule("R-BINWIDTH", "the radial sampling a radial detector (and DiffractionPatterns.polar_binning) publishes "
             "equals the width (outer-inner)/nbins_radial of the bins _polar_detector_bins builds from the limits and "
             "bin count that detector passes, and the published radial offset is the inner limit passed")
    ctx.rule("R-LIMITFLOW", "inner/outer/nbins_radial/nbins_azimuthal/rotation/offset/fftshift reach the mask and "
             "bin builders unchanged along detector -> polar_binning/integrate_radial -> blockwise function -> "
             "_polar_detector_bins/_annular_detector_mask, in the lazy and eager arm alike")
    ctx.rule("R-MASKCONV", "_annular_detector_mask and _polar_detector_bins select the same half-open interval "
             "[inner, outer) with the bound raised to the power of the coordinate it is compared with")
    ctx.undecided("numerical equality of the integrated intensities between detectors")
    ctx.undecided("the default outer limit when outer=None (floor(min(cutoff)) vs min(cutoff)): reported informationally")

    _maskconv(ctx, repo)

    # ---- the bin builder: index = nbins_radial * (alpha - inner) / (outer - inner)
    pdb, st, idx, slope, at_inner = _bin_width_terms(ctx, repo)
    exp_slope = ClassNorm(repo.cls(MEAS, "DiffractionPatterns")).rat(
        ast.parse("nbins_radial / (outer - inner)", mode="eval").body)
    ctx.check(slope == exp_slope and at_inner.is_zero(), "R-BINWIDTH", f"{pdb.qualname}:radial-index", pdb.loc(st),
              "bin index = (alpha - inner) / w with w = (outer - inner)/nbins_radial",
              f"radial bin index {idx.key()[:100]} is not (alpha - inner)*nbins_radial/(outer - inner): "
              f"slope {slope.key()[:60]}, value at alpha=inner {at_inner.key()[:60]}", key_detail="index")

    repo.cls(MEAS, "DiffractionPatterns")  # anchor
    polar_binning = repo.method(MEAS, "DiffractionPatterns", "polar_binning")
    radial_binning_ = repo.method(MEAS, "DiffractionPatterns", "_radial_binning")
    integrate_radial = repo.method(MEAS, "DiffractionPatterns", "integrate_radial")
    integrate_fs = repo.method(MEAS, "DiffractionPatterns", "_integrate_fourier_space")
    mask = repo.function(MEAS, "_annular_detector_mask")

    # ---- R-LIMITFLOW inside measurements
    same = lambda *ns: {n: n for n in ns}
    calls = _calls_to(radial_binning_, "_polar_detector_bins")
    ctx.require(len(calls) == 1, f"{radial_binning_.qualname}: expected one _polar_detector_bins call")
    _passes(ctx, "R-LIMITFLOW", radial_binning_, pdb, calls[0], bind_args(calls[0], pdb),
            same("inner", "outer", "nbins_radial", "nbins_azimuthal", "rotation", "offset", "fftshift", "sampling"))
    calls = _calls_to(integrate_fs, "_annular_detector_mask")
    ctx.require(len(calls) == 1, f"{integrate_fs.qualname}: expected one _annular_detector_mask call")
    _passes(ctx, "R-LIMITFLOW", integrate_fs, mask, calls[0], bind_args(calls[0], mask),
            same("inner", "outer", "offset", "fftshift", "sampling"))
    for caller, target, callee, names in (
            (polar_binning, "_radial_binning", radial_binning_,
             {**same("inner", "outer", "nbins_radial", "nbins_azimuthal", "rotation", "offset"),
              "fftshift": "self.fftshift", "sampling": "self.angular_sampling"}),
            (integrate_radial, "_integrate_fourier_space", integrate_fs,
             {**same("inner", "outer", "offset"), "fftshift": "self.fftshift", "sampling": "self.angular_sampling"})):
        bc = _blockwise_calls(caller, target)
        arms = {a for a, _, _ in bc}
        ctx.require(arms == {"lazy", "eager"}, f"{caller.qualname}: lazy/eager twin calls of {target} not found ({arms})")
        for arm, call, kws in bc:
            bound = dict(kws)
            if arm == "eager":
                bound = bind_args(call, callee)
            _passes(ctx, "R-LIMITFLOW", caller, callee, call, bound, names, arm)

    # ---- R-BINWIDTH for polar_binning's own PolarMeasurements
    pm_calls = [c for c in walk_no_nested(polar_binning.node) if isinstance(c, ast.Call) and call_name(c) == "PolarMeasurements"]
    ctx.require(len(pm_calls) == 1, f"{polar_binning.qualname}: PolarMeasurements(...) construction not found")
    pm = pm_calls[0]
    pm_init = repo.method(MEAS, "PolarMeasurements", "__init__")
    b = bind_args(pm, pm_init, skip_self=True)
    dfp = DataFlow(polar_binning.node)
    nzp = RatFlow(dfp, dfp.cfg.node_of(_enclosing_stmt(polar_binning, pm)).idx)
    ctx.require("radial_sampling" in b and "radial_offset" in b, f"{polar_binning.qualname}: radial_sampling/"
                                                                 "radial_offset not passed to PolarMeasurements")
    width = nzp.rat(ast.parse("(outer - inner) / nbins_radial", mode="eval").body)
    got = nzp.rat(b["radial_sampling"])
    ctx.check(got == width, "R-BINWIDTH", f"{polar_binning.qualname}:published-sampling", polar_binning.loc(pm),
              "radial_sampling = (outer - inner)/nbins_radial, the width of the bins built",
              f"PolarMeasurements is given radial_sampling={got.key()[:80]} but the bins have width {width.key()[:80]}",
              key_detail="sampling")
    goto = nzp.rat(b["radial_offset"])
    ctx.check(goto == nzp.rat(ast.parse("inner", mode="eval").body), "R-BINWIDTH",
              f"{polar_binning.qualname}:published-offset", polar_binning.loc(pm), "radial_offset = inner",
              f"PolarMeasurements is given radial_offset={goto.key()[:60]} but the first bin starts at `inner`",
              key_detail="offset")

    # ---- per detector
    base = repo.cls(DET, "_AbstractRadialDetector")
    subs = [c for c in repo.subclasses(base) if not c.is_abstract()]
    ctx.require(len(subs) >= 3, f"fewer than three concrete radial detectors found ({[c.name for c in subs]})")
    for K in sorted(subs, key=lambda c: c.name):
        _detector(ctx, repo, K, polar_binning, integrate_radial)


def _limits_alternatives(repo, K: ClassInfo, f: FuncInfo, call: ast.Call, bound_expr: ast.expr, cn: ClassNorm):
    """Possible values (as terms over K's attributes) of an expression in K's method f: follows
    `a, b = self.angular_limits(...)` into K's angular_limits and if/else-defined locals."""
    df = DataFlow(f.node)
    at = df.cfg.node_of(_enclosing_stmt(f, call)).idx

    def alts(expr: ast.expr, func: FuncInfo, dfl: DataFlow, node: int, depth=0) -> list[tuple[Poly, str]]:
        if depth > 6:
            raise AnalysisError(f"{func.qualname}: definition chain too deep")
        if isinstance(expr, ast.Name):
            out = []
            defs = dfl.reaching(node, expr.id)
            if not defs or any(d.kind == "param" for d in defs):
                return [(cn.rat(expr), norm_text(expr))]
            for d in defs:
                stn = dfl.cfg.nodes[d.node].ast
                if d.kind != "assign" or d.value is None:
                    raise AnalysisError(f"{func.qualname}: `{expr.id}` defined by {d.kind}")
                tgt = stn.targets[0] if isinstance(stn, ast.Assign) else None
                if isinstance(tgt, ast.Tuple) and not isinstance(d.value, ast.Tuple):
                    # tuple unpacking of self.<method>(...)
                    pos = [i for i, e in enumerate(tgt.elts) if isinstance(e, ast.Name) and e.id == expr.id]
                    c = d.value
                    hops = 0
                    while isinstance(c, ast.Name) and hops < 4:
                        dd = dfl.single_def(d.node, c.id)
                        if dd is None or dd.kind != "assign" or dd.value is None:
                            break
                        c, hops = dd.value, hops + 1
                    if not (isinstance(c, ast.Call) and isinstance(c.func, ast.Attribute) and dotted(c.func.value) == "self" and pos):
                        raise AnalysisError(f"{func.qualname}: cannot follow tuple definition of `{expr.id}`")
                    m = K.find_method(c.func.attr)
                    if m is None:
                        raise AnalysisError(f"{K.qualname}: method {c.func.attr} not found")
                    dfm = DataFlow(m.node)
                    for r in walk_no_nested(m.node):
                        if isinstance(r, ast.Return) and r.value is not None:
                            if not isinstance(r.value, ast.Tuple) or len(r.value.elts) != len(tgt.elts):
                                raise AnalysisError(f"{m.qualname}: return is not a {len(tgt.elts)}-tuple")
                            out += alts(r.value.elts[pos[0]], m, dfm, dfm.cfg.node_of(r).idx, depth + 1)
                elif isinstance(tgt, ast.Tuple) and isinstance(d.value, ast.Tuple):
                    pos = [i for i, e in enumerate(tgt.elts) if isinstance(e, ast.Name) and e.id == expr.id][0]
                    out += alts(d.value.elts[pos], func, dfl, d.node, depth + 1)
                else:
                    out += alts(d.value, func, dfl, d.node, depth + 1)
            return out
        # a compound expression: inline the locals it mentions (single straight-line definitions)
        import copy as _copy

        def inline(e: ast.expr, node_: int, d_=0) -> ast.expr:
            if d_ > 8:
                raise AnalysisError(f"{func.qualname}: local definitions too deep")
            mapping = {}
            for n_ in ast.walk(e):
                if isinstance(n_, ast.Name) and isinstance(n_.ctx, ast.Load) and n_.id not in mapping and n_.id != "self":
                    defs_ = dfl.reaching(node_, n_.id)
                    if not defs_ or any(d2.kind == "param" for d2 in defs_):
                        continue
                    d2 = dfl.single_def(node_, n_.id)
                    if d2 is None or d2.kind != "assign" or d2.value is None:
                        raise AnalysisError(f"{func.qualname}: local `{n_.id}` in `{norm_text(e)[:40]}` has no single "
                                            "definition")
                    st2 = dfl.cfg.nodes[d2.node].ast
                    if isinstance(st2, ast.Assign) and isinstance(st2.targets[0], ast.Tuple):
                        continue  # tuple unpacking: left as an atom
                    mapping[n_.id] = inline(d2.value, d2.node, d_ + 1)

            class _S(ast.NodeTransformer):
                def visit_Name(self, n2):
                    return _copy.deepcopy(mapping[n2.id]) if isinstance(n2.ctx, ast.Load) and n2.id in mapping else n2

            return _S().visit(_copy.deepcopy(e)) if mapping else e

        return [(cn.rat(inline(expr, node)), norm_text(expr))]

    return alts(bound_expr, f, df, at)


def _detector(ctx, repo, K: ClassInfo, polar_binning: FuncInfo, integrate_radial: FuncInfo) -> None:
    cn = ClassNorm(K)
    inner_t = cn.rat(ast.parse("self.inner", mode="eval").body)
    outer_t = cn.rat(ast.parse("self.outer", mode="eval").body)
    calc = K.find_method("_calculate_new_array")
    ctx.require(calc is not None, f"{K.qualname}: _calculate_new_array not found")
    pb = _calls_to(calc, "polar_binning")
    ir = _calls_to(calc, "integrate_radial")
    ctx.require(len(pb) + len(ir) == 1, f"{calc.qualname}: expected one polar_binning/integrate_radial call")
    call, callee = (pb[0], polar_binning) if pb else (ir[0], integrate_radial)
    bound = bind_args(call, callee, skip_self=True)
    # ---- limits handed to the binning
    wparams = [a for a in calc.positional_params[1:]]
    import re as _re

    def from_waves(poly) -> bool:
        return any(_re.search(rf"\b{_re.escape(w)}\b", poly.key()) for w in wparams)

    passed: dict[str, list[Rat]] = {}
    for p, expect, label in (("inner", inner_t, "self.inner"), ("outer", outer_t, "self.outer")):
        if p not in bound:
            ctx.violation("R-LIMITFLOW", f"{K.qualname}->{callee.short}:{p}", calc.loc(call),
                          f"{calc.qualname} does not pass `{p}` to {callee.short}", key_detail="unbound")
            continue
        al = _limits_alternatives(repo, K, calc, call, bound[p], cn)
        explicit = [a for a in al if not from_waves(a[0])]
        passed[p] = [a[0] for a in explicit]
        if p == "inner":
            good = len(al) == 1 and al[0][0] == expect
        else:
            # an effective outer limit (e.g. inner + nbins*step) is legitimate; it must depend on self.outer
            good = any(all(x in a[0].key() for x in expect.atoms()) for a in explicit)
        ctx.check(good, "R-LIMITFLOW", f"{K.qualname}->{callee.short}:{p}", calc.loc(call),
                  f"{p} handed to {callee.short} is {'exactly' if p == 'inner' else 'determined by'} {label} "
                  f"(= {expect.key()})",
                  f"{callee.short} receives {p} in {{{', '.join(t for _, t in al)}}}; "
                  + ("that is not the detector's " if p == "inner" else "no explicit alternative depends on the detector's ")
                  + f"{label} (= {expect.key()})", key_detail="passthrough")
        for poly, txt in al:
            if from_waves(poly):
                ctx.info("R-LIMITFLOW", f"{K.qualname}->{callee.short}:{p} default", calc.loc(call),
                         f"when {label} is None the value handed on is {txt}; _match_waves/angular_limits siblings use "
                         "min(cutoff) with and without floor (not decided)")
    if callee is polar_binning:
        for p in ("nbins_radial", "nbins_azimuthal"):
            if p not in bound:
                ctx.violation("R-LIMITFLOW", f"{K.qualname}->{callee.short}:{p}", calc.loc(call),
                              f"{calc.qualname} does not pass `{p}` to polar_binning", key_detail="unbound")
                continue
            got = cn.rat(bound[p])
            exp = cn.rat(ast.parse(f"self.{p}", mode="eval").body)
            ctx.check(got == exp, "R-LIMITFLOW", f"{K.qualname}->{callee.short}:{p}", calc.loc(call),
                      f"{p} = self.{p}", f"polar_binning receives {p}={norm_text(bound[p])}, not the detector's "
                      f"self.{p} that sizes the output ({exp.key()[:60]})", key_detail="passthrough")

    # ---- published sampling
    meta = K.find_method("_out_base_axes_metadata")
    ctx.require(meta is not None, f"{K.qualname}: _out_base_axes_metadata not found")
    val = _single_return(meta)
    if isinstance(val, ast.Tuple) and len(val.elts) == 1:
        val = val.elts[0]
    ctx.require(isinstance(val, (ast.List, ast.Tuple)), f"{meta.qualname}: does not return a one-tuple holding a list")
    if callee is polar_binning and "nbins_radial" in bound:
        nbins = cn.rat(bound["nbins_radial"])
    else:
        nbins = cn.rat(ast.parse("self.nbins_radial", mode="eval").body)
    ctx.require(len(passed.get("inner", [])) == 1 and len(passed.get("outer", [])) >= 1,
                f"{calc.qualname}: cannot determine the explicit limits handed to {callee.short}")
    inner_p = passed["inner"][0]
    widths = [(o - inner_p) / nbins for o in passed["outer"]]
    wtxt = " or ".join(w.key()[:120] for w in widths)
    if len(val.elts) == 0:
        # no radial axis is published; the public property must still agree
        got = cn.rat(ast.parse("self.radial_sampling", mode="eval").body)
        ctx.check(all(got == w for w in widths), "R-BINWIDTH", f"{K.qualname}:radial_sampling", K.where,
                  f"no radial axis published; radial_sampling property = (outer-inner)/nbins_radial = {wtxt[:60]}",
                  f"radial_sampling property is {got.key()[:80]} but one bin of width {wtxt} is integrated",
                  key_detail="binwidth")
        return
    axis = val.elts[0]
    ctx.require(isinstance(axis, ast.Call) and kw(axis, "sampling") is not None and kw(axis, "offset") is not None,
                f"{meta.qualname}: first base axis has no sampling=/offset=")
    got = cn.rat(kw(axis, "sampling"))
    ctx.check(all(got == w for w in widths), "R-BINWIDTH", f"{K.qualname}:published-sampling", meta.loc(axis),
              f"published radial sampling {got.key()[:60]} = (outer-inner)/nbins_radial of the limits handed on",
              f"{K.name} publishes radial sampling {got.key()[:80]} but _polar_detector_bins builds "
              f"nbins_radial = {nbins.key()[:90]} bins of width (outer-inner)/nbins_radial = {wtxt}",
              key_detail="binwidth")
    goto = cn.rat(kw(axis, "offset"))
    ctx.check(goto == inner_p, "R-BINWIDTH", f"{K.qualname}:published-offset", meta.loc(axis),
              "published radial offset = inner limit handed on", f"{K.name} publishes radial offset {goto.key()[:60]} "
              f"but the first bin starts at {inner_p.key()}", key_detail="offset")


# ---- added: package rule R-CACHEKEY (sa/rules/memo2.py) for the modules this property is anchored in
_inner_run = run


def run(ctx) -> None:  # noqa: F811
    from ..rules import memo2

    ctx.rule("R-CACHEKEY", memo2.__doc__.split("\n\n", 1)[1])
    memo2.positive_control(ctx)
    n = memo2.check(ctx, modules={"abtem.measurements", "abtem.detectors"})
    ctx.ok("R-CACHEKEY", "scan", "abtem/", f"{n} cache stores found in the anchored modules; positive control matched")
    _inner_run(ctx)


# ---- added after the seeded change C12-r3seed0: the bin index of an integration limit
_inner_run_c12b = run


def run(ctx) -> None:  # noqa: F811
    from ..report import OnlyConstructs
    from . import c13

    ctx.rule("R-AXISMETA", "(the rule of C13, kept for the detector-agreement property) PolarMeasurements.integrate "
             "turns a limit into a bin index with (limit - offset) / sampling, offset and sampling being what the "
             "polar axes publish — the same affine map the Flexible detector used to bin the intensity.  An index "
             "computed as limit / sampling - offset agrees only for offset 0 or unit sampling: integrating a "
             "FlexibleAnnularDetector measurement with inner != 0 and step_size != 1 then covers other bins than the "
             "AnnularDetector with the same limits")
    ctx.rule("R-AXISFAMILY", "(C13) the radial and the azimuthal index terms are the same formula up to renaming")
    c13._inner_run_c13(OnlyConstructs(ctx, ("abtem.measurements.PolarMeasurements.integrate",)))
    _inner_run_c12b(ctx)


# ---- added after the mutation sweep (sweepF): pixel geometry of the mask / bin builders and of the binning kernel
_inner_run_c12c = run
GRID = "abtem.core.grid"


def _run_deferring(ctx, steps, inner) -> None:
    """Run the new rule groups, then the earlier rules; an AnalysisError of a new group is raised only afterwards, so
    that a violation found by any rule decides the run and a lost anchor of one group does not hide the others."""
    pending = None
    for step in steps:
        try:
            step()
        except AnalysisError as e:
            pending = pending or e
    inner(ctx)
    if pending is not None:
        raise pending


def _last(c: ast.Call) -> str:
    return (call_name(c) or "").split(".")[-1]


def _parse(s: str) -> ast.expr:
    return ast.parse(s, mode="eval").body


def _stmt_or_header(f: FuncInfo, node: ast.AST) -> ast.stmt:
    """Statement a node belongs to; for a node in the header of a `for` loop, the loop."""
    for st in walk_no_nested(f.node):
        if isinstance(st, ast.For) and any(x is node for x in ast.walk(st.iter)):
            return st
    return _enclosing_stmt(f, node)


def _pair_literal(df: DataFlow, at: int, e: ast.expr, f: FuncInfo, what: str) -> tuple[ast.Tuple, int]:
    """`e` as a two-element tuple literal (followed through single plain definitions); (tuple, node it is evaluated at)."""
    node, hops = at, 0
    while isinstance(e, ast.Name) and hops < 4:
        d = df.single_def(node, e.id)
        if d is None or d.kind != "assign" or d.value is None:
            break
        e, node, hops = d.value, d.node, hops + 1
    if not (isinstance(e, (ast.Tuple, ast.List)) and len(e.elts) == 2):
        raise AnalysisError(f"{f.qualname}: {what} `{norm_text(e)[:50]}` is not a pair literal")
    return e, node


def _no_opaque_calls(f: FuncInfo, r, what: str) -> None:
    """A term that still contains an uninterpreted call (floor(x + 0.5), a helper, ...) is not judged."""
    import re as _re

    for a in r.atoms():
        if _re.search(r"[A-Za-z_][\w.]*\(", a):
            raise AnalysisError(f"{f.qualname}: {what} contains the uninterpreted call `{a[:50]}`")


def _freqgrid(ctx, repo, f: FuncInfo) -> None:
    """R-FREQGRID for one builder: pitch of the frequency grid along axis k == sampling[k]."""
    calls = [c for c in walk_no_nested(f.node) if isinstance(c, ast.Call)
             and _last(c) in ("spatial_frequencies", "polar_spatial_frequencies")]
    ctx.require(len(calls) == 1, f"{f.qualname}: expected one (polar_)spatial_frequencies call, found {len(calls)}")
    c = calls[0]
    callee = repo.function(GRID, _last(c))
    b = bind_args(c, callee)
    ctx.require("gpts" in b and "sampling" in b, f"{f.qualname}: gpts/sampling not handed to {callee.short}")
    ctx.require({"gpts", "sampling"} <= set(f.params), f"{f.qualname}: parameters gpts/sampling not found")
    df = DataFlow(f.node)
    at = df.cfg.node_of(_enclosing_stmt(f, c)).idx
    nz = RatFlow(df, at)
    ctx.check(nz.norm(b["gpts"]) == nz.norm(_parse("gpts")), "R-FREQGRID", f"{f.qualname}:points", f.loc(c),
              "the frequency grid has the builder's own number of points per axis",
              f"{callee.short} is given gpts={norm_text(b['gpts'])[:50]}, not the builder's `gpts`: the mask does not "
              "have the shape of the pattern", key_detail="gpts")
    pair, node = _pair_literal(df, at, b["sampling"], f, "the real-space sampling handed to the frequency grid")
    nzp = RatFlow(df, node)
    for k in (0, 1):
        d = nzp.rat(pair.elts[k])
        step = (nzp.rat(_parse(f"gpts[{k}]")) * d).inverse()
        want = nzp.rat(_parse(f"sampling[{k}]"))
        if step != want:
            _no_opaque_calls(f, d, "the real-space sampling handed to the frequency grid")
        ctx.check(step == want, "R-FREQGRID", f"{f.qualname}:axis {k}", f.loc(pair.elts[k]),
                  f"fftfreq(gpts[{k}], d) with d = {norm_text(pair.elts[k])[:40]} has pitch 1/(gpts[{k}] d) = sampling[{k}]",
                  f"along axis {k} the frequency grid is fftfreq(gpts[{k}], d) with d = {norm_text(pair.elts[k])[:60]}: "
                  f"its pitch 1/(gpts[{k}]*d) = {step.key()[:80]} is not sampling[{k}], the angular pixel size the "
                  "pattern has along that axis (limits are applied at the wrong angles for non-square grids / "
                  "anisotropic sampling)", key_detail=f"pitch{k}")


def _radius_is_sum_of_squares(ctx, repo) -> None:
    f = repo.function(MEAS, "_annular_detector_mask")
    found = _bound_comparisons(f, "inner", "outer")
    ctx.require(len(found["inner"]) == 1, f"{f.qualname}: comparison with `inner` not found")
    _, coord, _, node = found["inner"][0]
    unpack = [st for st in walk_no_nested(f.node) if isinstance(st, ast.Assign) and isinstance(st.value, ast.Call)
              and _last(st.value) == "spatial_frequencies" and isinstance(st.targets[0], ast.Tuple)
              and len(st.targets[0].elts) == 2 and all(isinstance(e, ast.Name) for e in st.targets[0].elts)]
    ctx.require(len(unpack) == 1, f"{f.qualname}: `x, y = spatial_frequencies(...)` not found")
    X, Y = (e.id for e in unpack[0].targets[0].elts)
    mk = lambda s: Normalizer().norm(_parse(s))
    xr, yr = [mk(f"{X}[:, None] ** 2")], [mk(f"{Y}[None] ** 2"), mk(f"{Y}[None, :] ** 2")]
    xs, ys = [mk(f"{X}[None] ** 2"), mk(f"{X}[None, :] ** 2")], [mk(f"{Y}[:, None] ** 2")]
    construct = f"{f.qualname}:radius"
    if any(coord == a + b for a in xr for b in yr):
        ctx.ok("R-FREQGRID", construct, f.loc(node), "squared radius = x[:, None]^2 + y[None]^2")
    elif any(coord == a + b for a in xs for b in ys):
        ctx.violation("R-FREQGRID", construct, f.loc(node),
                      f"the squared radius {coord.key()[:80]} puts the x-frequencies along the last axis and the "
                      "y-frequencies along axis -2: the mask is transposed for non-square patterns", key_detail="axes")
    elif any(set(coord.terms) == set((a + b).terms) for a in xr for b in yr):
        ctx.violation("R-FREQGRID", construct, f.loc(node),
                      f"the quantity compared with inner^2/outer^2 is {coord.key()[:80]}, not the sum of the squared "
                      "x- and y-frequencies: the selected region is not an annulus", key_detail="sum")
    else:
        raise AnalysisError(f"{f.qualname}: radial coordinate {coord.key()[:80]} not recognised")


# -------- R-OFFSETPIX
def _guard_value(test: ast.expr, offset_name: str, scen: tuple[bool, bool], f: FuncInfo):
    """Truth value of the guard of the roll for one scenario (component k of the offset non-zero iff scen[k]).
    Vectors are pairs of booleans 'is non-zero'."""

    def is_zero_const(e):
        return isinstance(e, ast.Constant) and isinstance(e.value, (int, float)) and not isinstance(e.value, bool) \
            and e.value == 0

    def ev(e):
        if isinstance(e, ast.UnaryOp) and isinstance(e.op, ast.Not):
            v = ev(e.operand)
            if not isinstance(v, bool):
                raise AnalysisError(f"{f.qualname}: `not` applied to a vector in the offset guard")
            return not v
        if isinstance(e, ast.BoolOp):
            vs = [ev(v) for v in e.values]
            if not all(isinstance(v, bool) for v in vs):
                raise AnalysisError(f"{f.qualname}: vector used as a truth value in the offset guard")
            return all(vs) if isinstance(e.op, ast.And) else any(vs)
        if isinstance(e, ast.Name) and e.id == offset_name:
            return ("nz", scen)
        if isinstance(e, ast.Subscript) and isinstance(e.value, ast.Name) and e.value.id == offset_name \
                and isinstance(e.slice, ast.Constant) and e.slice.value in (0, 1):
            return ("nzs", scen[e.slice.value])
        if isinstance(e, ast.Call):
            fn = _last(e)
            if fn in ("array", "asarray", "abs", "absolute", "tuple", "list") and len(e.args) >= 1:
                return ev(e.args[0])
            if fn in ("any", "all") and len(e.args) == 1:
                v = ev(e.args[0])
                if isinstance(v, tuple) and v[0] == "bools":
                    return any(v[1]) if fn == "any" else all(v[1])
                if isinstance(v, tuple) and v[0] == "nz":  # truthiness of the components themselves
                    return any(v[1]) if fn == "any" else all(v[1])
        if isinstance(e, ast.Compare) and len(e.ops) == 1 and isinstance(e.ops[0], (ast.Eq, ast.NotEq)):
            l, r = e.left, e.comparators[0]
            if is_zero_const(l):
                l, r = r, l
            if is_zero_const(r):
                v = ev(l)
                neq = isinstance(e.ops[0], ast.NotEq)
                if isinstance(v, tuple) and v[0] == "nz":
                    return ("bools", tuple(x if neq else not x for x in v[1]))
                if isinstance(v, tuple) and v[0] == "nzs":
                    return v[1] if neq else not v[1]
        raise AnalysisError(f"{f.qualname}: cannot evaluate the guard `{norm_text(test)[:60]}` of the offset roll")

    v = ev(test)
    if not isinstance(v, bool):
        raise AnalysisError(f"{f.qualname}: the guard `{norm_text(test)[:60]}` of the offset roll is not a truth value")
    return v


def _offset_roll(ctx, repo, f: FuncInfo) -> None:
    """R-OFFSETPIX for one builder."""
    ctx.require({"offset", "sampling"} <= set(f.params), f"{f.qualname}: parameters offset/sampling not found")
    rolls = [c for c in walk_no_nested(f.node) if isinstance(c, ast.Call) and _last(c) == "roll"]
    df = DataFlow(f.node)
    if len(rolls) > 1:
        # a roll whose shift does not depend on the offset (centring by half the size, R-MASKORIGIN) is not the offset roll
        def by_offset(c_: ast.Call) -> bool:
            sh = kw(c_, "shift") or (c_.args[1] if len(c_.args) > 1 else None)
            if sh is None:
                return True
            sl = df.backward_slice(df.cfg.node_of(_enclosing_stmt(f, c_)).idx, sh)
            return "offset" in sl.params
        rolls = [c_ for c_ in rolls if by_offset(c_)]
    ctx.require(len(rolls) == 1, f"{f.qualname}: expected one roll applying the detector offset, found {len(rolls)}")
    c = rolls[0]
    args = list(c.args)
    shift = kw(c, "shift") or (args[1] if len(args) > 1 else None)
    axes = kw(c, "axis") or (args[2] if len(args) > 2 else None)
    ctx.require(shift is not None and axes is not None, f"{f.qualname}: roll without shift/axis")
    st = _enclosing_stmt(f, c)
    at = df.cfg.node_of(st).idx
    pair, node = _pair_literal(df, at, shift, f, "the shift of the offset roll")
    ax = None
    try:
        ax = ast.literal_eval(axes)
    except Exception:
        pass
    ctx.require(isinstance(ax, tuple) and len(ax) == 2 and all(isinstance(i, int) for i in ax),
                f"{f.qualname}: roll axes `{norm_text(axes)}` are not a literal pair")
    nz = RatFlow(df, node, identity_calls={"int", "round", "np.round", "np.rint", "xp.round", "xp.rint"})
    for k in (0, 1):
        got = nz.rat(pair.elts[k])
        want = nz.rat(_parse(f"offset[{k}] / sampling[{k}]"))
        if got != want:
            _no_opaque_calls(f, got, "the pixel shift of the detector offset")
        ctx.check(got == want and ax[k] in (k, k - 2), "R-OFFSETPIX", f"{f.qualname}:component {k}", f.loc(pair.elts[k]),
                  f"shift along axis {k} = round(offset[{k}] / sampling[{k}]) pixels",
                  f"the detector is moved by {got.key()[:80]} pixels along axis {ax[k]}; an offset of offset[{k}] mrad is "
                  f"offset[{k}] / sampling[{k}] pixels along axis {k} (the sibling builder and the documentation use "
                  "that conversion)", key_detail=f"shift{k}")
    # the roll is skipped only when both components vanish
    # innermost guard only: nested guards are not expected here
    inner = [n for n in walk_no_nested(f.node) if isinstance(n, ast.If)
             and any(x is st for b in (n.body + n.orelse) for x in ast.walk(b))]
    if not inner:
        ctx.ok("R-OFFSETPIX", f"{f.qualname}:guard", f.loc(c), "the roll is unconditional")
        return
    ctx.require(len(inner) == 1, f"{f.qualname}: the offset roll sits under {len(inner)} nested conditions")
    test, in_body = inner[0].test, any(x is st for b in inner[0].body for x in ast.walk(b))
    # the name tested is the offset parameter as it reaches the test
    skipped = []
    for scen in ((True, False), (False, True), (True, True)):
        if _guard_value(test, "offset", scen, f) != in_body:
            skipped.append("(" + ", ".join("a" if s else "0" for s in scen) + ")")
    ctx.check(not skipped, "R-OFFSETPIX", f"{f.qualname}:guard", f.loc(test),
              "the roll is applied whenever a component of the offset is non-zero",
              f"under the condition `{norm_text(test)[:60]}` the roll is skipped for offsets of the form "
              f"{', '.join(skipped)} (a != 0): the detector offset is silently ignored", key_detail="guard")


# -------- R-LABELS
def _fill_value(e: ast.expr):
    """Constant an array-filling expression holds everywhere: ±ones/zeros/full arithmetic."""

    def hook(nz, call):
        fn = _last(call)
        if fn in ("ones", "ones_like"):
            return Poly.const(1)
        if fn in ("zeros", "zeros_like"):
            return Poly.const(0)
        if fn in ("full", "full_like") and len(call.args) >= 2:
            return nz.norm(call.args[1])
        if fn == "full" and kw(call, "fill_value") is not None:
            return nz.norm(kw(call, "fill_value"))
        return None

    return Normalizer(call_hook=hook).norm(e).const_value()


def _labels(ctx, repo) -> None:
    f = repo.function(MEAS, "_polar_detector_bins")
    df = DataFlow(f.node)
    lti = [c for c in walk_no_nested(f.node) if isinstance(c, ast.Call) and _last(c) == "label_to_index"]
    ctx.require(len(lti) == 1 and lti[0].args and isinstance(lti[0].args[0], ast.Name),
                f"{f.qualname}: label_to_index(<labels>, <max>) call not found")
    call = lti[0]
    callee = repo.function("abtem.core.utils", "label_to_index")
    b = bind_args(call, callee)
    at = df.cfg.node_of(_stmt_or_header(f, call)).idx
    # number of index lists = max_label - min_label + 1 = nbins_radial * nbins_azimuthal
    ctx.require("max_label" in b, f"{f.qualname}: label_to_index is not given a maximum label")
    nz = FlowNormalizer(df, at)
    lo = nz.norm(b["min_label"]) if "min_label" in b else Normalizer().norm(callee.defaults().get("min_label") or _parse("0"))
    count = nz.norm(b["max_label"]) - lo + Poly.const(1)
    want = nz.norm(_parse("nbins_radial * nbins_azimuthal"))
    ctx.check(count == want, "R-LABELS", f"{f.qualname}:label-count", f.loc(call),
              "index lists are produced for labels 0 .. nbins_radial*nbins_azimuthal - 1",
              f"label_to_index yields {count.key()[:60]} index lists; the binned result is reshaped to "
              "(nbins_radial, nbins_azimuthal), i.e. nbins_radial*nbins_azimuthal bins", key_detail="count")
    # the fill value of the label image is not a label
    var = call.args[0].id
    seen, fills, work = set(), [], [(at, var)]
    while work:
        n_, v_ = work.pop()
        for d in df.reaching(n_, v_):
            if (d.node, d.var, d.kind) in seen:
                continue
            seen.add((d.node, d.var, d.kind))
            if d.kind == "param":
                raise AnalysisError(f"{f.qualname}: the label image is a parameter")
            if d.kind == "store":
                continue  # masked store of real labels
            if d.kind != "assign" or d.value is None:
                raise AnalysisError(f"{f.qualname}: label image defined by {d.kind}")
            v = d.value
            if isinstance(v, ast.Name):
                work.append((d.node, v.id))  # a plain copy of the reference
                continue
            if isinstance(v, ast.Call) and v.args and isinstance(v.args[0], ast.Name) and _last(v) in (
                    "roll", "fftshift", "ifftshift", "asarray", "array"):
                work.append((d.node, v.args[0].id))  # a rearrangement of an earlier label image
                continue
            fills.append((d, v))
    ctx.require(bool(fills), f"{f.qualname}: initial value of the label image not found")
    for d, v in fills:
        c = _fill_value(v)
        if c is None:
            raise AnalysisError(f"{f.qualname}: the label image starts as `{norm_text(v)[:50]}`, not a constant fill")
        ctx.check(c < 0, "R-LABELS", f"{f.qualname}:fill", f.loc(v),
                  f"pixels outside [inner, outer) keep the label {c}, which label_to_index never yields",
                  f"the label image is initialised to {c}; pixels outside [inner, outer) are only overwritten where "
                  f"`valid`, so they stay labelled {c} and are summed into bin {c}: the segments no longer add up to "
                  "the annulus", key_detail="fill")


# -------- R-ACCUM
def _written_params(repo, g: FuncInfo, depth: int = 0) -> tuple[set[str], set[str]]:
    """(parameters the function stores into, parameters it reads elements of), following a launch/forward of the
    positional parameters to a function of the same module (one more level)."""
    written, read = set(), set()
    params = set(g.params)
    for n in walk_no_nested(g.node):
        tgts = []
        if isinstance(n, ast.Assign):
            tgts = n.targets
        elif isinstance(n, ast.AugAssign):
            tgts = [n.target]
        for t in tgts:
            if isinstance(t, ast.Subscript) and isinstance(t.value, ast.Name) and t.value.id in params:
                written.add(t.value.id)
        if isinstance(n, (ast.Assign, ast.AugAssign)):
            for m in ast.walk(n.value):
                if isinstance(m, ast.Subscript) and isinstance(m.value, ast.Name) and m.value.id in params:
                    read.add(m.value.id)
        if isinstance(n, ast.Call) and depth < 2:
            fn = n.func.value if isinstance(n.func, ast.Subscript) else n.func  # kernel[grid, block](...)
            if isinstance(fn, ast.Name) and fn.id in g.module.functions and fn.id != g.name:
                h = g.module.functions[fn.id]
                w2, r2 = _written_params(repo, h, depth + 1)
                for p, a in zip(h.positional_params, n.args):
                    if isinstance(a, ast.Name) and a.id in params:
                        if p in w2:
                            written.add(a.id)
                        if p in r2:
                            read.add(a.id)
    return written, read


def _accumulate(ctx, repo) -> None:
    f = repo.method(MEAS, "DiffractionPatterns", "_radial_binning")
    df = DataFlow(f.node)
    rets = [r for r in walk_no_nested(f.node) if isinstance(r, ast.Return) and r.value is not None]
    ctx.require(len(rets) == 1, f"{f.qualname}: single return expected")
    v = rets[0].value
    while isinstance(v, ast.Call) and isinstance(v.func, ast.Attribute) and v.func.attr in ("reshape", "astype"):
        v = v.func.value
    ctx.require(isinstance(v, ast.Name), f"{f.qualname}: the returned value is not a (reshaped) local array")
    rnode = df.cfg.node_of(rets[0]).idx
    d_out = df.single_def(rnode, v.id)
    if d_out is None:
        strong = [d for d in df.reaching(rnode, v.id) if d.strong]
        ctx.require(len(strong) == 1, f"{f.qualname}: the output array has {len(strong)} allocations")
        d_out = strong[0]
    ctx.require(d_out.kind == "assign" and isinstance(d_out.value, ast.Call) and _last(d_out.value) == "zeros",
                f"{f.qualname}: the output array is not allocated by zeros(...)")
    out = v.id
    mod = f.module
    acc_nodes, n_calls = set(), 0
    gathered_defs = []
    for st in walk_no_nested(f.node):
        if not (isinstance(st, ast.Expr) and isinstance(st.value, ast.Call)):
            continue
        c = st.value
        if not any(isinstance(a, ast.Name) and a.id == out for a in list(c.args) + [k.value for k in c.keywords]):
            continue
        n_calls += 1
        g = repo.resolve_name(mod, call_name(c) or "")
        if not isinstance(g, FuncInfo):
            raise AnalysisError(f"{f.qualname}: cannot resolve the kernel `{call_name(c)}` the output array is handed to")
        written, read = _written_params(repo, g)
        b = bind_args(c, g)
        p_out = [p for p, a in b.items() if isinstance(a, ast.Name) and a.id == out]
        construct = f"{f.qualname}->{g.short}"
        good = bool(p_out) and all(p in written for p in p_out)
        ctx.check(good, "R-ACCUM", f"{construct}:output", f.loc(c),
                  f"the zero-initialised output is bound to `{p_out[0] if p_out else '?'}`, which {g.short} accumulates into",
                  f"the zero-initialised output array is bound to parameter {p_out} of {g.short}, which that kernel does "
                  f"not store into (it writes {sorted(written)}): the binned sums never reach the returned array",
                  key_detail="output")
        at = df.cfg.node_of(st).idx
        srcs = [(p, a) for p, a in b.items() if p in read and p not in written and isinstance(a, ast.Name)
                and any(d.kind == "assign" and isinstance(d.value, ast.Subscript) for d in df.reaching(at, a.id))]
        ctx.check(len(srcs) >= 1, "R-ACCUM", f"{construct}:input", f.loc(c),
                  "the gathered pixel array is bound to the parameter the kernel reads",
                  f"no parameter that {g.short} reads ({sorted(read - written)}) receives the gathered pixel array",
                  key_detail="input")
        for p, a in srcs:
            for d in df.reaching(at, a.id):
                if d.kind == "assign" and isinstance(d.value, ast.Subscript):
                    gathered_defs.append(d)
        if good:
            acc_nodes.add(at)
    reach = df.cfg.paths_avoiding(d_out.node, rnode, acc_nodes)
    ctx.check(not reach, "R-ACCUM", f"{f.qualname}:every-path", f.loc(rets[0]),
              "on every path the zero-initialised output passes through a summation kernel before it is returned",
              "there is a path from the allocation of the zero-initialised output to the return on which no summation "
              "kernel accumulates into it: all bins are returned as 0", key_detail="path")
    # the gather: pixels flattened row-major over the two pattern axes, selected by the concatenated index lists
    seen = set()
    for d in gathered_defs:
        if d.node in seen:
            continue
        seen.add(d.node)
        sub = d.value
        base = sub.value
        ctx.require(isinstance(base, ast.Call) and isinstance(base.func, ast.Attribute) and base.func.attr == "reshape"
                    and isinstance(base.func.value, ast.Name), f"{f.qualname}: the gathered array is not "
                    "`<array>.reshape((-1, n))[..., <indices>]`")
        src = base.func.value.id
        shp = base.args[0] if len(base.args) == 1 else ast.Tuple(elts=list(base.args), ctx=ast.Load())
        ctx.require(isinstance(shp, ast.Tuple) and len(shp.elts) == 2, f"{f.qualname}: the pixels are not flattened to "
                                                                        "(batch, pixels)")
        nz = FlowNormalizer(df, d.node)
        ctx.check(nz.norm(shp.elts[0]) == Poly.const(-1) and nz.norm(shp.elts[1]) == nz.norm(
            _parse(f"{src}.shape[-2] * {src}.shape[-1]")), "R-ACCUM", f"{f.qualname}:flatten", f.loc(base),
                  "each pattern is flattened to shape[-2]*shape[-1] pixels (the order label_to_index numbers them in)",
                  f"the patterns are flattened with reshape({norm_text(shp)[:60]}): a row is not the shape[-2]*shape[-1] "
                  "pixels of one pattern, so the index lists from label_to_index address other pixels",
                  key_detail="flatten")
    # the index lists are requested from the bin builder
    pdb = repo.function(MEAS, "_polar_detector_bins")
    for c in _calls_to(f, "_polar_detector_bins"):
        b = bind_args(c, pdb)
        ri = b.get("return_indices")
        is_true = isinstance(ri, ast.Constant) and ri.value is True
        ctx.check(is_true, "R-ACCUM", f"{f.qualname}->{pdb.short}:return_indices", f.loc(c),
                  "the per-bin index lists are requested (return_indices=True)",
                  f"_polar_detector_bins is called with return_indices={norm_text(ri) if ri is not None else '<default False>'}"
                  ": it returns the label image, whose rows are then used as if they were per-bin index lists",
                  key_detail="indices")


def run(ctx) -> None:  # noqa: F811
    repo = ctx.repo
    ctx.rule("R-FREQGRID", "_annular_detector_mask and _polar_detector_bins lay the limits over a frequency grid "
             "fftfreq(gpts[k], d_k); its pitch 1/(gpts[k] d_k) along axis k must be sampling[k], the angular pixel size "
             "of axis k of the pattern the mask multiplies (rational-function identity per axis, so the x quantities "
             "pair with x and y with y), with the builder's own gpts; the annular mask compares the limits with "
             "x[:, None]^2 + y[None]^2.  Otherwise the two builders, and the limits the detectors publish, refer to "
             "different angles on non-square or anisotropically sampled patterns")
    ctx.rule("R-OFFSETPIX", "both builders move the detector by round(offset[k] / sampling[k]) pixels along axis k "
             "(the same conversion in the mask and in the bin builder, so an annular and a segmented detector with "
             "the same offset cover the same pixels) and skip the roll only when every offset component is zero")
    ctx.rule("R-LABELS", "in _polar_detector_bins the label image is initialised to a value that is not a bin label "
             "(negative), so that pixels outside [inner, outer) belong to no segment, and label_to_index is asked for "
             "exactly nbins_radial*nbins_azimuthal labels — otherwise the sum over all segments is not the annular "
             "intensity")
    ctx.rule("R-ACCUM", "_radial_binning returns an array allocated by zeros(...) that on every path is handed to a "
             "summation kernel at the parameter that kernel accumulates into, with the gathered pixels at the parameter "
             "it reads; the pixels are flattened to shape[-2]*shape[-1] per pattern and the per-bin index lists are "
             "requested from the bin builder")
    steps = []
    for name in ("_annular_detector_mask", "_polar_detector_bins"):
        f = repo.function(MEAS, name)
        steps += [lambda f=f: _freqgrid(ctx, repo, f), lambda f=f: _offset_roll(ctx, repo, f)]
    steps += [lambda: _radius_is_sum_of_squares(ctx, repo), lambda: _labels(ctx, repo), lambda: _accumulate(ctx, repo)]
    _run_deferring(ctx, steps, _inner_run_c12c)


# ---- added after the seeded change C13-r4seed3: float floor division in the bin index of an integration limit
_inner_run_c12d = run


def run(ctx) -> None:  # noqa: F811
    from ..rules import deferred
    from . import c13

    ctx.rule("R-FLOATFLOOR", "(the rule of C13, a necessary condition here too) " + c13.FLOATFLOOR_TEXT + ".  For the "
             "detector-agreement property: a FlexibleAnnularDetector with a fractional step size (0.1 mrad) publishes "
             "that step as the radial sampling; integrate_radial(inner, outer) with the detector's own limits puts "
             "both limits on bin edges, and an index formed with float `//` drops the outermost bin, so the result "
             "differs from the AnnularDetector with the same limits")
    deferred.run(ctx, lambda: c13.floatfloor(ctx), _inner_run_c12d)


# ---- added after the seeded change C12-r5seed0: the pixel at which the zero frequency of the mask sits
_inner_run_c12e = run


def _mask_builders(repo) -> list[FuncInfo]:
    """Module-level builders of abtem.measurements that lay angular limits over a pattern in either arrangement:
    the functions with the parameters gpts, sampling, inner, outer and the boolean fftshift."""
    mod = repo.module(MEAS)
    out = [f for f in mod.functions.values() if {"gpts", "sampling", "inner", "outer", "fftshift"} <= set(f.params)]
    return sorted(out, key=lambda f: f.name)


def _maskorigin(ctx, repo) -> None:
    from ..rules import maskorigin as mo

    builders = _mask_builders(repo)
    names = {f.name for f in builders}
    ctx.require({"_annular_detector_mask", "_polar_detector_bins"} <= names,
                f"{MEAS}: the mask / bin builders with an fftshift flag were not found ({sorted(names)})")
    for f in builders:
        arms = {}
        for b in (False, True):
            val, it = mo.analyse(repo, f, "fftshift", b)
            arm = f"{f.qualname}:fftshift={b}"
            for where, node, a1, a2 in it.conflicts:
                ctx.violation("R-MASKORIGIN", f"{arm}:element-wise", f.loc(node) if where == f.qualname else f.where,
                              f"in {where} arrays in different pixel arrangements are combined element-wise along "
                              f"pattern axis {a1.k}: one is {mo.describe(a1)}, the other {mo.describe(a2)}; the value "
                              "of one pixel is combined with the coordinate of another", key_detail="mixed")
            if isinstance(val, mo.Unknown):
                raise AnalysisError(f"{arm}: the arrangement of the result cannot be read ({val.why})")
            if not (isinstance(val, mo.Arr) and not val.masked and len(val.axes) == 2
                    and all(a is not None for a in val.axes)):
                raise AnalysisError(f"{arm}: the result is not a two-dimensional array over the two frequency axes")
            arms[b] = val
            for k, a in enumerate(val.axes):
                construct = f"{arm}:axis {k}"
                if a.k != k:
                    ctx.violation("R-MASKORIGIN", construct, f.where,
                                  f"array axis {k} of the result carries the frequency coordinate of pattern axis {a.k}",
                                  key_detail="axes")
                    continue
                v = mo.judge_origin(a, centred=b)
                extra = ""
                if b and not v.ok:
                    n = mo.count_centrings(a)
                    extra = (f" ({n} centring operation{'s' if n != 1 else ''} on this arm: "
                             f"{', '.join(e for e in a.events if e != 'fftfreq') or 'none'}; exactly one is needed, "
                             "fftshift or an explicit vector with origin n//2)")
                ctx.check(v.ok, "R-MASKORIGIN", construct, f.where, v.text,
                          v.text + extra + (". A pattern with fftshift=True is fftshift(FFT order): zero frequency at "
                                            "index n//2" if b else ". A pattern with fftshift=False is in FFT order: "
                                                                   "zero frequency at index 0"), key_detail="origin")
        for k in (0, 1):
            s0, s1 = arms[False].axes[k].step, arms[True].axes[k].step
            if s0 is None or s1 is None:
                raise AnalysisError(f"{f.qualname}: the pitch of the frequency coordinate of axis {k} cannot be read")
            ctx.check(s0 == s1, "R-MASKORIGIN", f"{f.qualname}:pitch axis {k}", f.where,
                      f"both arms use the pitch {s0.key()[:60]} along axis {k}",
                      f"along axis {k} the fftshift=True arm measures the limits on a coordinate with pitch "
                      f"{s1.key()[:80]}, the fftshift=False arm with pitch {s0.key()[:80]}: the same limits select "
                      "different angles in the two arrangements", key_detail="pitch")


def run(ctx) -> None:  # noqa: F811
    from ..rules import deferred

    ctx.rule("R-MASKORIGIN", "for each value of their `fftshift` flag, _annular_detector_mask and _polar_detector_bins "
             "(enumerated: the builders of abtem.measurements with gpts/sampling/inner/outer/fftshift) put the zero "
             "frequency of every axis of the mask at the pixel where the pattern has it: index 0 (FFT order, "
             "fftfreq/spatial_frequencies) when the flag is false and index n//2 when it is true, reached by exactly "
             "one centring — fftshift of the mask or of the vectors (fftshift rolls by n//2, ifftshift by -(n//2), "
             "which differs for odd n), or an explicit vector (arange(n) - c) * dk whose origin c is n//2 as a normal "
             "form with FLOORDIV atoms ((n-1)//2, n/2, (n+1)//2 differ for one parity) and whose pitch dk is that of "
             "the other arm.  Decided by abstract interpretation of the builder per arm (sa/rules/maskorigin.py); "
             "arrays combined element-wise must be in the same arrangement.  Otherwise the annular mask of "
             "DiffractionPatterns.integrate_radial is displaced by a pixel for one parity of the pattern size and no "
             "longer agrees with the detectors that integrate un-shifted patterns or use the other builder")
    deferred.run(ctx, lambda: _maskorigin(ctx, ctx.repo), _inner_run_c12e)


# ---- added after the seeded change C13-r6seed3: the radial window of PolarMeasurements.integrate, evaluated exactly
_inner_run_c12f = run


def run(ctx) -> None:  # noqa: F811
    from ..report import OnlyConstructs
    from ..rules import deferred
    from . import c13

    ctx.rule("R-WINDOWEXACT", "(the rule of C13, restricted to the radial axis) " + c13.WINDOWEXACT_TEXT + ".  For the "
             "detector-agreement property: FlexibleAnnularDetector followed by integrate_radial(inner, outer) with the "
             "detector's own limits puts the upper limit on the outer edge of the last radial bin (index n); a radial "
             "index reduced modulo n, or pieces that do not tile [l, r), give a sum that differs from the "
             "AnnularDetector with the same limits")
    only = OnlyConstructs(ctx, ("abtem.measurements.PolarMeasurements.integrate:radial-axis window",))
    deferred.run(ctx, lambda: c13.windowexact(only), _inner_run_c12f)
