"""C14 — diffraction pattern geometry is self-consistent (layout / parity / blocking clauses).

R-SHIFT      typestate {FFT_ORDER, CENTERED} (sa/rules/shift_typestate.py): every function that produces, shifts,
             crops or masks frequency-indexed arrays keeps the layout its `fftshift` flag promises, fftshift is only
             applied to FFT_ORDER data and ifftshift only to CENTERED data, fft_crop/ifft2 only see FFT_ORDER data,
             element-wise combinations (array * mask, array * coordinates) combine equal layouts, and every
             DiffractionPatterns handed back to the user is built with the flag that matches its array.
R-PARITY     `_ensure_parity` returns a value of the requested parity for every (parity of n, even, v);
             `_ensure_parity_of_gpts` maps 'same'/'odd'/'even' to the matching boolean per axis; every angle-limited
             return of `_gpts_within_angle` goes through it with the caller's `parity`, and that result is what
             `_diffraction_pattern` crops to (lazy and eager).
R-BANDLIMIT  `_bandlimit` keeps exactly the pixels with alpha > inner (and alpha < outer), leaves them unchanged
             (array * mask), builds alpha from the x-coordinates along axis -2 and the y-coordinates along axis -1;
             `block_direct` hands its effective radius as `inner` and an infinite `outer`; `bandlimit` gives
             `_bandlimit` the same arguments in the lazy and eager arm.
"""
from __future__ import annotations

import ast

from ..cfg import DataFlow
from ..model import AnalysisError, FuncInfo, bind_args, dotted, last_attr, norm_text, walk_no_nested
from ..rules import shift_typestate as ts
from ..rules.shift_typestate import C, Contract, Interp, N, Spec, flag_layout
from ..terms import FlowNormalizer, Normalizer, Poly

MEAS = "abtem.measurements"
WAVES = "abtem.waves"
DP = "DiffractionPatterns"


# ------------------------------------------------------------------------------------------------ shared R-SHIFT setup
def make_interp(repo, coordinate_contracts: tuple = ("angular_coordinates",)) -> Interp:
    """Interpreter with the contracts of the functions that are verified on their own (modular reasoning: a
    function with a contract is verified once against it, its callers rely on the contract).
    `coordinate_contracts` names the coordinate properties whose contract (CENTERED iff self.fftshift) callers may
    rely on; properties not named are evaluated through."""
    flag = lambda name: (lambda fl: flag_layout(fl[name]))
    q = lambda m, *path: ".".join((m,) + path)
    contracts = {
        q(MEAS, "_annular_detector_mask"): Contract(["fftshift"], flag("fftshift")),
        q(MEAS, "_polar_detector_bins"): Contract(["fftshift"], flag("fftshift")),
        q(WAVES, "Waves", "_diffraction_pattern"): Contract(["fftshift"], flag("fftshift")),
    }
    for name in coordinate_contracts:
        contracts[q(MEAS, DP, name)] = Contract([], flag("self.fftshift"), ["self.fftshift"])
    crop = repo.method(MEAS, DP, "_crop")
    if "fftshift" in crop.params:
        # the blockwise crop is told the layout: flag-parametric contract
        contracts[crop.qualname] = Contract(["fftshift"], flag("fftshift"), requires={"array": flag("fftshift")})
    else:
        contracts[crop.qualname] = Contract([], lambda fl: C, requires={"array": lambda fl: C})
    it = Interp(repo, contracts, method_hints={"coordinates": ("abtem.core.axes", "LinearAxis")})
    it.track(repo.cls(MEAS, DP))
    return it


def dp_inputs(val: dict) -> dict:
    """Receiver state of a DiffractionPatterns method: the array follows the flag."""
    return {"self.array": flag_layout(val["self.fftshift"]), "self._array": flag_layout(val["self.fftshift"])}


def angular_coordinates_spec(repo) -> Spec:
    return Spec(repo.method(MEAS, DP, "angular_coordinates"), ["self.fftshift"], dp_inputs,
                expect=lambda v: flag_layout(v["self.fftshift"]), batched=False,
                label="angular_coordinates must be ordered like the array (CENTERED iff self.fftshift)")


def center_of_mass_spec(repo) -> Spec:
    """center_of_mass under every (fftshift flag, units): the coordinates handed to _com must be in the layout of
    self.array.  Which property or caller performs the shift is left open."""
    cm = repo.method(MEAS, DP, "center_of_mass")
    units = []
    for n in ast.walk(cm.node):
        if isinstance(n, ast.Compare) and len(n.ops) == 1 and isinstance(n.ops[0], ast.Eq) and dotted(n.left) == "units" \
                and isinstance(n.comparators[0], ast.Constant) and isinstance(n.comparators[0].value, str):
            units.append(n.comparators[0].value)
    if len(units) < 2 or "units" not in cm.params:
        raise AnalysisError(f"{cm.qualname}: the units dispatch was not found")
    return Spec(cm, ["self.fftshift"], dp_inputs, expect=None, strings={"units": sorted(set(units))},
                label="center_of_mass multiplies self.array with coordinates in the array's own layout")


def _shift_rule_text(ctx) -> None:
    ctx.rule("R-SHIFT", "typestate FFT_ORDER/CENTERED: fftshift only on FFT_ORDER data, ifftshift only on CENTERED data, "
             "fft_crop/ifft only on FFT_ORDER data, element-wise operands share one layout, results have the layout "
             "the fftshift flag promises (CENTERED iff flag), shifts of batched arrays name exactly the two pattern "
             "axes, and a DiffractionPatterns returned to the user is built with the flag matching its array")
    ctx.assume("a monotone ramp (linspace/arange) used as frequency coordinates is in CENTERED order; the operand of "
               "a shift whose layout is produced outside the package (e.g. a transfer-function kernel) is taken to be "
               "in the layout the shift expects")


# ------------------------------------------------------------------------------------------------ R-SHIFT
def _r_shift(ctx, repo) -> None:
    it = make_interp(repo)
    ts.check_fft_crop_convention(ctx, "R-SHIFT", repo)
    flagp = lambda v: flag_layout(v["fftshift"])
    specs = [
        Spec(repo.method(WAVES, "Waves", "_diffraction_pattern"), ["fftshift"], lambda v: {"array": N}, expect=flagp,
             batched=True, label="diffraction pattern layout follows the fftshift argument"),
        Spec(repo.function(MEAS, "_annular_detector_mask"), ["fftshift"], lambda v: {}, expect=flagp, batched=False,
             label="mask layout follows the fftshift argument"),
        Spec(repo.function(MEAS, "_polar_detector_bins"), ["fftshift"], lambda v: {}, expect=flagp, batched=False,
             label="bin-label layout follows the fftshift argument"),
        (Spec(repo.method(MEAS, DP, "_crop"), ["fftshift"], lambda v: {"array": flag_layout(v["fftshift"])},
              expect=flagp, batched=True, label="_crop keeps the layout named by its fftshift argument")
         if "fftshift" in repo.method(MEAS, DP, "_crop").params else
         Spec(repo.method(MEAS, DP, "_crop"), [], lambda v: {"array": C}, expect=lambda v: C, batched=True,
              label="_crop maps a CENTERED array to a CENTERED array")),
        Spec(repo.method(MEAS, DP, "crop"), ["self.fftshift"], dp_inputs,
             expect_store=("array", lambda v: flag_layout(v["self.fftshift"])),
             label="crop keeps the receiver's flag, so the cropped array must keep the receiver's layout"),
        angular_coordinates_spec(repo),
        center_of_mass_spec(repo),
        Spec(repo.method(MEAS, DP, "_bandlimit"), ["centered"],
             lambda v: {"array": flag_layout(v["centered"]), "angular_coordinates": flag_layout(v["centered"])},
             expect=lambda v: flag_layout(v["centered"]), label="array * mask(alpha) with alpha ordered like the array"),
        Spec(repo.method(MEAS, DP, "bandlimit"), ["self.fftshift"], dp_inputs,
             expect_store=("array", lambda v: flag_layout(v["self.fftshift"])),
             label="bandlimit masks the array with coordinates in the array's own layout"),
        Spec(repo.method(MEAS, DP, "_integrate_fourier_space"), ["fftshift"],
             lambda v: {"array": flag_layout(v["fftshift"])}, expect=None,
             label="array * annular mask built with the same fftshift flag"),
        Spec(repo.method(MEAS, DP, "integrate_radial"), ["self.fftshift"], dp_inputs, expect=None,
             label="integrate_radial hands the receiver's array and flag on together"),
        Spec(repo.method(MEAS, DP, "polar_binning"), ["self.fftshift"], dp_inputs, expect=None,
             label="polar_binning hands the receiver's array and flag on together"),
        Spec(repo.method(MEAS, "Images", "_diffractograms"), [], lambda v: {"array": N}, expect=lambda v: C,
             batched=True, label="diffractograms are CENTERED power spectra"),
    ]
    for sp in specs:
        ts.check_spec(ctx, "R-SHIFT", it, sp)

    # flag hand-over of integrate_radial / polar_binning: the blockwise function gets fftshift=self.fftshift
    # (decided in C12 R-LIMITFLOW as well; here only that no layout conflict arises)

    # every DiffractionPatterns(...) built in the package
    sites = []
    for f in repo.all_functions():
        if any(isinstance(c, ast.Call) and last_attr(c) == DP for c in walk_no_nested(f.node)):
            sites.append(f)
    ctx.require(len(sites) >= 5, f"only {len(sites)} functions construct {DP}; expected the waves/transfer/"
                                 "measurements/detectors sites")
    for f in sorted(sites, key=lambda x: x.qualname):
        flags = [p for p in f.params if p == "fftshift"]
        inputs = (lambda v: {})
        if f.cls is not None and f.cls.name == DP:
            flags = flags + ["self.fftshift"]
            inputs = dp_inputs if "self.fftshift" in flags else inputs
        if f.cls is not None and f.cls.name == "Waves":
            inputs = lambda v: {"self.array": N}
        if f.cls is not None and f.cls.name == "Images":
            inputs = lambda v: {"self.array": N}
        ts.check_constructions(ctx, "R-SHIFT", it, f, flags, inputs, DP)
    seen = set()
    for fn, node, what in it.assumed:
        k = (fn, getattr(node, "lineno", 0), what)
        if k not in seen:
            seen.add(k)
    ctx.extra["layout_assumptions"] = sorted(f"{a}@{b}: {c}" for a, b, c in seen)


# ------------------------------------------------------------------------------------------------ R-PARITY
class _Unknown(Exception):
    pass


def _pv(kind, v=None):
    return (kind, v)


def _parity_of(x):
    if x[0] == "int":
        return x[1] % 2
    if x[0] == "par":
        return x[1]
    return None


def _peval(e: ast.expr, env: dict):
    """Parity domain: ('int', k) | ('par', p) | ('anyint', None) | ('bool', b)."""
    key = " ".join(ast.unparse(e).split())
    if key in env:
        return env[key]
    if isinstance(e, ast.Constant):
        if isinstance(e.value, bool):
            return _pv("bool", e.value)
        if isinstance(e.value, int):
            return _pv("int", e.value)
        if isinstance(e.value, float) and e.value == int(e.value):
            return _pv("int", int(e.value))
        raise _Unknown(key)
    if isinstance(e, ast.UnaryOp):
        a = _peval(e.operand, env)
        if isinstance(e.op, ast.Not):
            if a[0] == "bool":
                return _pv("bool", not a[1])
            if a[0] == "int":
                return _pv("bool", a[1] == 0)
            raise _Unknown(key)
        if isinstance(e.op, (ast.USub, ast.UAdd)):
            if a[0] == "int":
                return _pv("int", -a[1] if isinstance(e.op, ast.USub) else a[1])
            return a
        raise _Unknown(key)
    if isinstance(e, ast.BinOp):
        a, b = _peval(e.left, env), _peval(e.right, env)
        ints = a[0] == "int" and b[0] == "int"
        if isinstance(e.op, (ast.Add, ast.Sub)):
            if ints:
                return _pv("int", a[1] + b[1] if isinstance(e.op, ast.Add) else a[1] - b[1])
            pa, pb = _parity_of(a), _parity_of(b)
            if pa is None or pb is None:
                if a[0] in ("int", "par", "anyint") and b[0] in ("int", "par", "anyint"):
                    return _pv("anyint")
                raise _Unknown(key)
            return _pv("par", (pa + pb) % 2)
        if isinstance(e.op, ast.Mult):
            if ints:
                return _pv("int", a[1] * b[1])
            pa, pb = _parity_of(a), _parity_of(b)
            numeric = lambda x: x[0] in ("int", "par", "anyint")
            if numeric(a) and numeric(b):
                if pa == 0 or pb == 0:
                    return _pv("par", 0)
                if pa is not None and pb is not None:
                    return _pv("par", pa * pb)
                return _pv("anyint")
            raise _Unknown(key)
        if isinstance(e.op, ast.Mod) and b == ("int", 2):
            pa = _parity_of(a)
            if pa is None:
                raise _Unknown(key)
            return _pv("int", pa)
        if isinstance(e.op, ast.BitAnd) and (b == ("int", 1) or a == ("int", 1)):
            pa = _parity_of(a if b == ("int", 1) else b)
            if pa is None:
                raise _Unknown(key)
            return _pv("int", pa)
        if isinstance(e.op, (ast.FloorDiv, ast.Mod)) and ints and b[1] != 0:
            return _pv("int", a[1] // b[1] if isinstance(e.op, ast.FloorDiv) else a[1] % b[1])
        if isinstance(e.op, (ast.FloorDiv,)) and a[0] in ("int", "par", "anyint"):
            return _pv("anyint")
        raise _Unknown(key)
    if isinstance(e, ast.Compare) and len(e.ops) == 1:
        a, b = _peval(e.left, env), _peval(e.comparators[0], env)
        conc = lambda x: x[0] in ("int", "bool")
        if conc(a) and conc(b) and isinstance(e.ops[0], (ast.Eq, ast.NotEq, ast.Is, ast.IsNot)):
            same = a[1] == b[1]
            return _pv("bool", same if isinstance(e.ops[0], (ast.Eq, ast.Is)) else not same)
        raise _Unknown(key)
    if isinstance(e, ast.BoolOp):
        vals = []
        for v in e.values:
            x = _peval(v, env)
            if x[0] == "int":
                x = _pv("bool", x[1] != 0)
            if x[0] != "bool":
                raise _Unknown(key)
            vals.append(x[1])
        return _pv("bool", all(vals) if isinstance(e.op, ast.And) else any(vals))
    if isinstance(e, ast.IfExp):
        t = _peval(e.test, env)
        if t[0] == "int":
            t = _pv("bool", t[1] != 0)
        if t[0] != "bool":
            raise _Unknown(key)
        return _peval(e.body if t[1] else e.orelse, env)
    if isinstance(e, ast.Call):
        fn = last_attr(e)
        if fn in ("int", "bool") and len(e.args) == 1:
            a = _peval(e.args[0], env)
            if fn == "bool":
                if a[0] == "int":
                    return _pv("bool", a[1] != 0)
                return a
            return a
        if fn in ("ceil", "floor", "round", "rint", "len", "safe_floor_int", "safe_ceiling_int"):
            return _pv("anyint")
        if fn == "isinstance":
            return _pv("bool", True)
    raise _Unknown(key)


def _pexec(body, env: dict, f: FuncInfo):
    """Execute straight-line/if code in the parity domain; returns the returned value or None."""
    for st in body:
        if isinstance(st, ast.Return):
            if st.value is None:
                raise AnalysisError(f"{f.qualname}: bare return")
            try:
                return _peval(st.value, env)
            except _Unknown as u:
                raise AnalysisError(f"{f.qualname}: parity of returned `{u}` not decidable")
        if isinstance(st, ast.If):
            try:
                t = _peval(st.test, env)
            except _Unknown as u:
                raise AnalysisError(f"{f.qualname}: test `{u}` not decidable in the parity domain")
            if t[0] == "int":
                t = _pv("bool", t[1] != 0)
            if t[0] != "bool":
                raise AnalysisError(f"{f.qualname}: test {norm_text(st.test)} is not boolean in the parity domain")
            r = _pexec(st.body if t[1] else st.orelse, env, f)
            if r is not None:
                return r
            continue
        if isinstance(st, ast.Assign) and len(st.targets) == 1 and isinstance(st.targets[0], ast.Name):
            try:
                env[st.targets[0].id] = _peval(st.value, env)
            except _Unknown as u:
                raise AnalysisError(f"{f.qualname}: `{u}` not decidable in the parity domain")
            continue
        if isinstance(st, ast.AugAssign) and isinstance(st.target, ast.Name):
            try:
                env[st.target.id] = _peval(ast.BinOp(left=ast.Name(id=st.target.id, ctx=ast.Load()), op=st.op,
                                                    right=st.value), env)
            except _Unknown as u:
                raise AnalysisError(f"{f.qualname}: `{u}` not decidable in the parity domain")
            continue
        if isinstance(st, (ast.Assert, ast.Pass, ast.Expr)):
            continue
        if isinstance(st, ast.Raise):
            return ("raise", None)
        raise AnalysisError(f"{f.qualname}: statement {type(st).__name__} outside the parity interpreter")
    return None


def _v_candidates(repo, f: FuncInfo) -> list[int]:
    """Values the step `v` can take: from `assert (v == a) or (v == b)`, else the default if no caller passes v."""
    if "v" not in f.params:
        return []
    for st in f.body:
        if isinstance(st, ast.Assert):
            lits = []
            ok = True
            t = st.test
            parts = t.values if isinstance(t, ast.BoolOp) and isinstance(t.op, ast.Or) else [t]
            for p in parts:
                if isinstance(p, ast.Compare) and len(p.ops) == 1 and isinstance(p.ops[0], ast.Eq) and \
                        dotted(p.left) == "v":
                    try:
                        lits.append(_peval(p.comparators[0], {})[1])
                    except _Unknown:
                        ok = False
                else:
                    ok = False
            if ok and lits and all(isinstance(x, int) for x in lits):
                return lits
    # no usable assert: v is whatever callers pass
    passed = False
    for g in repo.all_functions():
        for c in walk_no_nested(g.node):
            if isinstance(c, ast.Call) and last_attr(c) == f.name:
                b = bind_args(c, f)
                if "v" in b:
                    passed = True
    d = f.defaults().get("v")
    if not passed and isinstance(d, ast.Constant) and isinstance(d.value, int):
        return [d.value]
    raise AnalysisError(f"{f.qualname}: the set of values of `v` is not established (no assert, callers pass it)")


def _r_parity(ctx, repo) -> None:
    ep = repo.function(WAVES, "_ensure_parity")
    ctx.require(ep.positional_params[:2] == ["n", "even"], f"{ep.qualname}: signature (n, even, ...) expected")
    vs = _v_candidates(repo, ep) or [None]
    for p in (0, 1):
        for even in (True, False):
            bad = []
            for v in vs:
                env = {"n": _pv("par", p), "even": _pv("bool", even)}
                if v is not None:
                    env["v"] = _pv("int", v)
                r = _pexec(ep.body, env, ep)
                if r is None or r[0] == "raise":
                    bad.append(f"v={v}: no value returned")
                    continue
                rp = _parity_of(r)
                if rp is None:
                    raise AnalysisError(f"{ep.qualname}: parity of the result not decidable for n%2={p}, even={even}")
                if rp != (0 if even else 1):
                    bad.append(f"v={v}: returns an {'even' if rp == 0 else 'odd'} number")
            ctx.check(not bad, "R-PARITY", f"{ep.qualname}[n {'even' if p == 0 else 'odd'},even={even}]", ep.where,
                      f"result is {'even' if even else 'odd'} for every v in {vs}",
                      f"for {'even' if p == 0 else 'odd'} n and even={even}: " + "; ".join(bad)
                      + f" — requested {'even' if even else 'odd'}", key_detail="parity")

    # ---- _ensure_parity_of_gpts: literal -> boolean table, per axis
    eg = repo.function(WAVES, "_ensure_parity_of_gpts")
    pn, po, pp = eg.positional_params[:3]
    arms = {}
    cur = None
    for st in eg.body:
        if isinstance(st, ast.If):
            cur = st
            break
    ctx.require(cur is not None, f"{eg.qualname}: parity dispatch not found")
    while isinstance(cur, ast.If):
        t = cur.test
        lit = None
        if isinstance(t, ast.Compare) and len(t.ops) == 1 and isinstance(t.ops[0], ast.Eq):
            for a, b in ((t.left, t.comparators[0]), (t.comparators[0], t.left)):
                if dotted(a) == pp and isinstance(b, ast.Constant) and isinstance(b.value, str):
                    lit = b.value
        ctx.require(lit is not None, f"{eg.qualname}: unrecognised dispatch test {norm_text(t)}")
        arms[lit] = cur.body
        if len(cur.orelse) == 1 and isinstance(cur.orelse[0], ast.If):
            cur = cur.orelse[0]
        else:
            break
    ctx.require({"same", "odd", "even"} <= set(arms), f"{eg.qualname}: arms for 'same'/'odd'/'even' not all found "
                                                      f"({sorted(arms)})")
    for lit in ("same", "odd", "even"):
        rets = [s for s in arms[lit] if isinstance(s, ast.Return)]
        ctx.require(len(rets) == 1 and isinstance(rets[0].value, ast.Tuple) and len(rets[0].value.elts) == 2,
                    f"{eg.qualname}: arm {lit!r} does not return a pair")
        for i, el in enumerate(rets[0].value.elts):
            construct = f"{eg.qualname}[{lit!r},axis {i}]"
            ctx.require(isinstance(el, ast.Call) and last_attr(el) == ep.name, f"{construct}: not an _ensure_parity call")
            b = bind_args(el, ep)
            ctx.require("n" in b and "even" in b, f"{construct}: n/even not bound")
            nn = norm_text(b["n"])
            problems = []
            if nn != f"{pn}[{i}]":
                problems.append(f"adjusts {nn} instead of {pn}[{i}]")
            for q0 in (0, 1):
                for q1 in (0, 1):
                    env = {f"{po}[0]": _pv("par", q0), f"{po}[1]": _pv("par", q1)}
                    q_ = (q0, q1)[i]
                    try:
                        ev = _peval(b["even"], env)
                    except _Unknown as u:
                        raise AnalysisError(f"{construct}: `{u}` not decidable in the parity domain")
                    want = {"odd": False, "even": True, "same": q_ == 0}[lit]
                    if ev != ("bool", want):
                        problems.append(f"asks for even={ev[1]} when {po}[{i}] is {'even' if q_ == 0 else 'odd'} "
                                        f"(parity {lit!r} needs even={want})")
            if "v" in b:
                problems.append("passes a step v")
            ctx.check(not problems, "R-PARITY", construct, eg.loc(el),
                      f"{pn}[{i}] adjusted to parity {lit!r}", "; ".join(dict.fromkeys(problems)), key_detail="table")

    # ---- _gpts_within_angle: every angle-limited return goes through _ensure_parity_of_gpts(.., parity)
    gw = repo.method(WAVES, "BaseWaves", "_gpts_within_angle")
    df = DataFlow(gw.node)
    ctx.require("parity" in gw.params, f"{gw.qualname}: parameter `parity` not found")
    n_lim = 0
    for r in walk_no_nested(gw.node):
        if not isinstance(r, ast.Return) or r.value is None:
            continue
        if dotted(r.value) == "self._valid_gpts":
            ctx.info("R-PARITY", f"{gw.qualname}:full", gw.loc(r), "uncropped ('full'/None) arm returns the grid's own "
                                                                   "gpts; parity is not adjusted there (not angle-limited)")
            continue
        n_lim += 1
        v = r.value
        node = df.cfg.node_of(r).idx
        hops = 0
        while isinstance(v, ast.Name) and hops < 4:
            d = df.single_def(node, v.id)
            if d is None or d.value is None:
                break
            v, node, hops = d.value, d.node, hops + 1
        good = isinstance(v, ast.Call) and last_attr(v) == eg.name
        why = f"returns {norm_text(r.value)[:60]} without adjusting the parity"
        if good:
            b = bind_args(v, eg)
            par = b.get(pp)
            sl = df.backward_slice(node, par) if par is not None else None
            if par is None or not (sl.params == {"parity"} and not sl.def_nodes):
                good, why = False, f"parity argument is {norm_text(par) if par is not None else '<missing>'}, " \
                                   "not the caller's `parity`"
            elif dotted(b.get(po)) != "self._valid_gpts":
                good, why = False, f"reference grid is {norm_text(b.get(po)) if b.get(po) is not None else '<missing>'}, " \
                                   "not self._valid_gpts (the grid the uncropped pattern has)"
        ctx.check(good, "R-PARITY", f"{gw.qualname}:limited-return#{n_lim}", gw.loc(r),
                  "angle-limited gpts pass through _ensure_parity_of_gpts(gpts, self._valid_gpts, parity)", why,
                  key_detail="through")
    ctx.require(n_lim >= 1, f"{gw.qualname}: no angle-limited return found")
    # numeric arm (informational): 2*ceil(.)+1 is odd
    for st in walk_no_nested(gw.node):
        if isinstance(st, ast.Assign) and isinstance(st.value, ast.Tuple) and len(st.value.elts) == 2 and \
                any(isinstance(c, ast.Call) and last_attr(c) == "ceil" for c in ast.walk(st.value)):
            try:
                ps = [_parity_of(_peval(e, {})) for e in st.value.elts]
            except _Unknown:
                ps = [None, None]
            ctx.info("R-PARITY", f"{gw.qualname}:numeric-arm", gw.loc(st),
                     f"numeric arm yields {['even' if p == 0 else 'odd' if p == 1 else 'unknown-parity' for p in ps]} "
                     "gpts before the parity adjustment (symmetric about zero when odd)")

    # ---- diffraction_patterns: parity -> _gpts_within_angle -> new_gpts -> _diffraction_pattern (both arms)
    dpf = repo.method(WAVES, "Waves", "diffraction_patterns")
    dfd = DataFlow(dpf.node)
    calls = [c for c in walk_no_nested(dpf.node) if isinstance(c, ast.Call) and last_attr(c) == gw.name]
    ctx.require(len(calls) == 1, f"{dpf.qualname}: expected one _gpts_within_angle call")
    b = bind_args(calls[0], gw, skip_self=True)
    ctx.check(dotted(b.get("parity")) == "parity" and dotted(b.get("angle")) == "max_angle", "R-PARITY",
              f"{dpf.qualname}:parity-argument", dpf.loc(calls[0]),
              "max_angle and parity handed to _gpts_within_angle",
              f"_gpts_within_angle is called with angle={norm_text(b['angle']) if 'angle' in b else '<missing>'}, "
              f"parity={norm_text(b['parity']) if 'parity' in b else '<default same>'}: the requested parity is lost",
              key_detail="arg")
    target = repo.method(WAVES, "Waves", "_diffraction_pattern")
    arms_seen = set()
    for c in walk_no_nested(dpf.node):
        if not isinstance(c, ast.Call):
            continue
        arm = None
        if last_attr(c) == "map_blocks" and c.args and last_attr(c.args[0]) == target.name:
            arm, bound = "lazy", {k.arg: k.value for k in c.keywords if k.arg}
        elif last_attr(c) == target.name and isinstance(c.func, ast.Attribute):
            arm, bound = "eager", bind_args(c, target)
        if arm is None:
            continue
        arms_seen.add(arm)
        st = _stmt_of(dpf, c)
        nz = FlowNormalizer(dfd, dfd.cfg.node_of(st).idx)
        got = nz.norm(bound["new_gpts"]).key() if "new_gpts" in bound else "<missing>"
        want = nz.norm(calls[0]).key()
        ctx.check(got == want, "R-PARITY", f"{dpf.qualname}:{arm} new_gpts", dpf.loc(c),
                  "crops to the parity-adjusted gpts", f"{arm} arm crops to {got[:80]}, not to the result of "
                  "_gpts_within_angle(max_angle, parity)", key_detail="gpts")
    ctx.require(arms_seen == {"lazy", "eager"}, f"{dpf.qualname}: lazy/eager _diffraction_pattern calls not found")


def _stmt_of(f: FuncInfo, node: ast.AST) -> ast.stmt:
    best = None
    for st in walk_no_nested(f.node):
        if isinstance(st, ast.stmt) and not isinstance(st, (ast.If, ast.For, ast.While, ast.With, ast.Try,
                                                              ast.FunctionDef, ast.ClassDef)):
            if any(x is node for x in ast.walk(st)):
                best = st
    if best is None:
        raise AnalysisError(f"{f.qualname}: cannot locate the statement of {norm_text(node)[:40]}")
    return best


# ------------------------------------------------------------------------------------------------ R-BANDLIMIT
_FLIP = {ast.Lt: ast.Gt, ast.Gt: ast.Lt, ast.LtE: ast.GtE, ast.GtE: ast.LtE}
_SYM = {ast.Lt: "<", ast.Gt: ">", ast.LtE: "<=", ast.GtE: ">="}


def _r_bandlimit(ctx, repo) -> None:
    bl = repo.method(MEAS, DP, "_bandlimit")
    df = DataFlow(bl.node)
    ctx.require({"array", "inner", "outer", "angular_coordinates"} <= set(bl.params),
                f"{bl.qualname}: signature changed")
    found = {"inner": [], "outer": []}
    coord_names = set()
    for st in walk_no_nested(bl.node):
        if not isinstance(st, ast.stmt) or isinstance(st, (ast.If, ast.For, ast.While, ast.With, ast.Try,
                                                              ast.FunctionDef, ast.ClassDef)):
            continue
        for c in ast.walk(st):
            if isinstance(c, ast.Compare) and len(c.ops) == 1 and type(c.ops[0]) in _FLIP:
                for i, (side, other) in enumerate(((c.comparators[0], c.left), (c.left, c.comparators[0]))):
                    d = dotted(side)
                    if d in found and isinstance(other, ast.Name):
                        op = type(c.ops[0]) if i == 0 else _FLIP[type(c.ops[0])]
                        found[d].append((op, other.id, c, st))
                        coord_names.add(other.id)
    ctx.require(len(found["inner"]) == 1 and len(found["outer"]) == 1 and len(coord_names) == 1,
                f"{bl.qualname}: expected one comparison of one radial coordinate with `inner` and one with `outer`")
    (lop, coord, lnode, lst), (uop, _, unode, ust) = found["inner"][0], found["outer"][0]
    ctx.check(lop in (ast.Gt, ast.GtE) and uop in (ast.Lt, ast.LtE), "R-BANDLIMIT", f"{bl.qualname}:orientation",
              bl.loc(lnode), f"kept: {coord} {_SYM[lop]} inner and {coord} {_SYM[uop]} outer",
              f"the mask keeps `{coord} {_SYM[lop]} inner` / `{coord} {_SYM[uop]} outer`: that is not the band between "
              "inner and outer (block_direct would keep the direct beam and zero everything else)",
              key_detail="orientation")
    ctx.check(lop is ast.Gt, "R-BANDLIMIT", f"{bl.qualname}:inner-strict", bl.loc(lnode),
              "pixels with alpha <= inner are zeroed (kept iff alpha > inner)",
              f"kept iff {coord} {_SYM[lop]} inner: a pixel exactly on the blocking radius is not zeroed, although "
              "block_direct promises to zero the pixels within the radius", key_detail="strict")
    ctx.info("R-BANDLIMIT", f"{bl.qualname}:outer-strictness", bl.loc(unode),
             f"upper bound uses `{_SYM[uop]}` (strictness at the outer edge is not fixed by the documentation)")
    # alpha = sqrt(X[:, None]**2 + Y[None]**2) with (X, Y) = angular_coordinates in that order
    unpack = [st for st in walk_no_nested(bl.node) if isinstance(st, ast.Assign) and dotted(st.value) == "angular_coordinates"
              and isinstance(st.targets[0], ast.Tuple) and len(st.targets[0].elts) == 2]
    ctx.require(len(unpack) == 1, f"{bl.qualname}: `x, y = angular_coordinates` not found")
    X, Y = (e.id for e in unpack[0].targets[0].elts)
    nz = FlowNormalizer(df, df.cfg.node_of(lst).idx)
    got = nz.norm(ast.Name(id=coord, ctx=ast.Load()))
    mk = lambda s: Normalizer().norm(ast.parse(s, mode="eval").body)
    right = [mk(f"np.sqrt({X}[:, None] ** 2 + {Y}[None] ** 2)"), mk(f"np.sqrt({X}[:, None] ** 2 + {Y}[None, :] ** 2)")]
    swapped = [mk(f"np.sqrt({X}[None] ** 2 + {Y}[:, None] ** 2)"), mk(f"np.sqrt({X}[None, :] ** 2 + {Y}[:, None] ** 2)")]
    if got in swapped:
        ctx.violation("R-BANDLIMIT", f"{bl.qualname}:axes", bl.loc(lnode),
                      f"alpha is built with the x-coordinates along the last axis and the y-coordinates along axis -2 "
                      f"({got.key()[:80]}): the mask is transposed for non-square patterns", key_detail="axes")
    elif got in right:
        ctx.ok("R-BANDLIMIT", f"{bl.qualname}:axes", bl.loc(lnode), "alpha = sqrt(x[:, None]^2 + y[None]^2)")
    else:
        raise AnalysisError(f"{bl.qualname}: radial coordinate {got.key()[:80]} not recognised")
    # result = array * mask, mask defined only by the comparisons
    rets = [r for r in walk_no_nested(bl.node) if isinstance(r, ast.Return) and r.value is not None]
    ctx.require(len(rets) == 1, f"{bl.qualname}: single return expected")
    rv = Normalizer().norm(rets[0].value)
    mask_defs = {d.var for d in df.defs if d.node in (df.cfg.node_of(lst).idx, df.cfg.node_of(ust).idx)}
    ok = any(rv == Poly.atom("array") * Poly.atom(m) for m in mask_defs)
    ctx.check(ok, "R-BANDLIMIT", f"{bl.qualname}:result", bl.loc(rets[0]),
              "result = array * mask: kept pixels unchanged, others zero",
              f"result {rv.key()[:80]} is not `array * mask`: kept pixels are not returned unchanged",
              key_detail="result")

    # bandlimit: lazy/eager twin
    bf = repo.method(MEAS, DP, "bandlimit")
    dfb = DataFlow(bf.node)
    seen = {}
    for c in walk_no_nested(bf.node):
        if not isinstance(c, ast.Call):
            continue
        arm = None
        if last_attr(c) == "map_blocks" and c.args and last_attr(c.args[0]) == bl.name:
            arm, bound = "lazy", {k.arg: k.value for k in c.keywords if k.arg}
        elif last_attr(c) == bl.name and isinstance(c.func, ast.Attribute):
            arm, bound = "eager", bind_args(c, bl)
        if arm is None:
            continue
        nzb = FlowNormalizer(dfb, dfb.cfg.node_of(_stmt_of(bf, c)).idx)
        seen[arm] = {p: (nzb.norm(bound[p]).key() if p in bound else "<missing>") for p in ("inner", "outer", "angular_coordinates")}
        exp = {"inner": "1*inner", "outer": "1*outer", "angular_coordinates": "1*self.angular_coordinates"}
        ctx.check(seen[arm] == exp, "R-BANDLIMIT", f"{bf.qualname}:{arm} arguments", bf.loc(c),
                  "inner, outer and self.angular_coordinates handed on unchanged",
                  f"{arm} arm hands {seen[arm]} to _bandlimit", key_detail=f"{arm}-args")
    ctx.require(set(seen) == {"lazy", "eager"}, f"{bf.qualname}: lazy/eager _bandlimit calls not found")

    # block_direct: radius -> inner, infinite outer
    bd = repo.method(MEAS, DP, "block_direct")
    dfd = DataFlow(bd.node)
    calls = [c for c in walk_no_nested(bd.node) if isinstance(c, ast.Call) and last_attr(c) == "bandlimit"]
    ctx.require(len(calls) == 1, f"{bd.qualname}: one bandlimit call expected")
    b = bind_args(calls[0], bf, skip_self=True)
    at = dfd.cfg.node_of(_stmt_of(bd, calls[0])).idx
    inner_ok = "inner" in b and "radius" in dfd.backward_slice(at, b["inner"]).params
    ctx.check(inner_ok, "R-BANDLIMIT", f"{bd.qualname}:radius->inner", bd.loc(calls[0]),
              "the effective radius is the inner limit of the kept band",
              f"bandlimit(inner={norm_text(b['inner']) if 'inner' in b else '<default 0>'}): the blocking radius does "
              "not become the inner limit", key_detail="inner")
    outer_e = b.get("outer")
    outer_ok = outer_e is None and norm_text(bf.defaults().get("outer")) in ("np.inf", "float('inf')", "math.inf") or (
        outer_e is not None and norm_text(outer_e) in ("np.inf", "float('inf')", "math.inf", "xp.inf"))
    ctx.check(outer_ok, "R-BANDLIMIT", f"{bd.qualname}:outer-infinite", bd.loc(calls[0]),
              "no outer limit: all pixels beyond the radius are left unchanged",
              f"bandlimit(outer={norm_text(outer_e) if outer_e is not None else '<default>'}) also zeroes pixels far "
              "from the direct beam", key_detail="outer")
    # the margin is added to, never subtracted from, the radius
    for st in walk_no_nested(bd.node):
        if isinstance(st, ast.AugAssign) and dotted(st.target) == "radius":
            ctx.check(isinstance(st.op, ast.Add), "R-BANDLIMIT", f"{bd.qualname}:margin", bd.loc(st),
                      "margin enlarges the blocking radius", f"margin applied with {type(st.op).__name__}: the "
                      "blocked disc does not grow by the margin", key_detail="margin")


def run(ctx) -> None:
    repo = ctx.repo
    _shift_rule_text(ctx)
    ctx.rule("R-PARITY", "_ensure_parity returns the requested parity for all (n parity, even, v); "
             "_ensure_parity_of_gpts maps 'same'/'odd'/'even' to the right boolean per axis; every angle-limited return "
             "of _gpts_within_angle is _ensure_parity_of_gpts(gpts, self._valid_gpts, parity); diffraction_patterns "
             "hands parity on and crops to that result in both arms")
    ctx.rule("R-BANDLIMIT", "_bandlimit keeps alpha > inner (strict) and alpha < outer, returns array * mask with alpha "
             "= sqrt(x[:,None]^2 + y[None]^2); bandlimit's lazy and eager arm agree; block_direct maps its effective "
             "radius to inner with an infinite outer limit")
    ctx.undecided("numerical equality of the cropped pattern with the centered crop of the full pattern; the value of "
                  "the effective blocking radius (metadata look-up, 1.0001 factor)")
    _r_shift(ctx, repo)
    _r_parity(ctx, repo)
    _r_bandlimit(ctx, repo)


# ---- added after the mutation sweep (sweepF): the limits the coordinates are built from, the number of points of an
# ---- angle-limited pattern, the guard of the crop, the margin of block_direct
_inner_run_c14b = run


def _run_deferring(ctx, steps, inner) -> None:
    """Run the new rule groups, then the earlier rules; an AnalysisError of a new group is raised only afterwards, so
    that a violation found by any rule decides the run and a lost anchor of one group does not hide the others."""
    pending = None
    for step in steps:
        try:
            step()
        except AnalysisError as e:
            pending = pending or e
    inner(ctx)
    if pending is not None:
        raise pending


def _angle_gpts(ctx, repo) -> None:
    from ..rules.ratfun import RatFlow

    gw = repo.method(WAVES, "BaseWaves", "_gpts_within_angle")
    df = DataFlow(gw.node)
    ctx.require("angle" in gw.params, f"{gw.qualname}: parameter `angle` not found")
    cands = []
    for st in walk_no_nested(gw.node):
        if isinstance(st, ast.Assign) and isinstance(st.value, ast.Tuple) and len(st.value.elts) == 2:
            sl = df.backward_slice(df.cfg.node_of(st).idx, st.value)
            if "angle" in sl.params:
                cands.append(st)
    ctx.require(len(cands) == 1, f"{gw.qualname}: expected one numeric (angle -> points) arm, found {len(cands)}")
    st = cands[0]
    rounding = {f"{m}.{fn}" for m in ("np", "xp", "math") for fn in ("ceil", "floor", "round", "rint")} | {"int", "round"}
    nz = RatFlow(df, df.cfg.node_of(st).idx, identity_calls=rounding)
    for k, el in enumerate(st.value.elts):
        n = nz.rat(el)
        half = (n - nz.rat(ast.parse("1", mode="eval").body)) / nz.rat(ast.parse("2", mode="eval").body)
        want = nz.rat(ast.parse(f"angle / self.angular_sampling[{k}]", mode="eval").body)
        ctx.check(half == want, "R-ANGLEGPTS", f"{gw.qualname}:axis {k}", gw.loc(el),
                  f"points along axis {k} = 2 * round-up(angle / angular_sampling[{k}]) + 1",
                  f"along axis {k} the angle-limited pattern gets {n.key()[:90]} points (rounding aside); a pattern that "
                  f"reaches `angle` on both sides of the centre pixel has 2 * (angle / angular_sampling[{k}]) + 1: the "
                  "crop does not end at the requested maximum angle", key_detail="points")


def _crop_guard(ctx, repo) -> None:
    f = repo.method(WAVES, "Waves", "_diffraction_pattern")
    crops = [c for c in walk_no_nested(f.node) if isinstance(c, ast.Call) and last_attr(c) == "fft_crop"]
    ctx.require(len(crops) == 1, f"{f.qualname}: one fft_crop call expected")
    st = _stmt_of(f, crops[0])
    guards = [n for n in walk_no_nested(f.node) if isinstance(n, ast.If)
              and any(x is st for b in (n.body + n.orelse) for x in ast.walk(b))]
    if not guards:
        ctx.ok("R-CROPGUARD", f"{f.qualname}:crop", f.loc(crops[0]), "the crop is unconditional")
        return
    ctx.require(len(guards) == 1, f"{f.qualname}: the crop sits under nested conditions")
    g = guards[0]
    in_body = any(x is st for b in g.body for x in ast.walk(b))
    t, neg = g.test, False
    while isinstance(t, ast.UnaryOp) and isinstance(t.op, ast.Not):
        t, neg = t.operand, not neg
    ctx.require(isinstance(t, ast.Compare) and len(t.ops) == 1 and isinstance(t.ops[0], (ast.Eq, ast.NotEq)),
                f"{f.qualname}: the condition `{norm_text(g.test)[:50]}` of the crop is not a shape comparison")
    sides = {norm_text(t.left), norm_text(t.comparators[0])}
    ctx.require("new_gpts" in f.params and any(s.replace(" ", "") in ("array.shape[-2:]", "tuple(array.shape[-2:])")
                                               for s in sides) and "new_gpts" in sides,
                f"{f.qualname}: the crop condition does not compare array.shape[-2:] with new_gpts")
    differs_when_true = isinstance(t.ops[0], ast.NotEq) != neg
    ctx.check(differs_when_true == in_body, "R-CROPGUARD", f"{f.qualname}:crop", f.loc(g.test),
              "the pattern is cropped exactly when its shape differs from the requested one",
              f"under `{norm_text(g.test)[:50]}` fft_crop runs only when the shape already equals new_gpts and is skipped "
              "when it differs: an angle-limited pattern is returned uncropped", key_detail="guard")


def _margin(ctx, repo) -> None:
    bd = repo.method(MEAS, DP, "block_direct")
    if "margin" not in bd.params:
        return
    df = DataFlow(bd.node)
    calls = [c for c in walk_no_nested(bd.node) if isinstance(c, ast.Call) and last_attr(c) == "bandlimit"]
    ctx.require(len(calls) == 1, f"{bd.qualname}: one bandlimit call expected")
    b = bind_args(calls[0], repo.method(MEAS, DP, "bandlimit"), skip_self=True)
    ctx.require("inner" in b, f"{bd.qualname}: bandlimit called without inner")
    at = df.cfg.node_of(_stmt_of(bd, calls[0])).idx
    sl = df.backward_slice(at, b["inner"])
    under_margin = []
    for n in walk_no_nested(bd.node):
        if isinstance(n, ast.If) and any(isinstance(x, ast.Name) and x.id == "margin" for x in ast.walk(n.test)):
            for s in walk_no_nested(n):
                if isinstance(s, (ast.Assign, ast.AugAssign)) and s is not n:
                    try:
                        idx = df.cfg.node_of(s).idx
                    except AnalysisError:
                        continue
                    if idx in sl.def_nodes and not (isinstance(s, ast.Assign) and dotted(s.targets[0]) == "margin"):
                        under_margin.append(s)
    ctx.check(bool(under_margin), "R-BANDLIMIT", f"{bd.qualname}:margin-applied", bd.where,
              "with margin set the blocking radius handed to bandlimit is changed under the margin test",
              "no definition of the radius handed to bandlimit depends on `margin`: the documented margin (radius grown "
              "by one pixel to block soft apertures fully) is never applied, fewer pixels are zeroed than the effective "
              "blocking radius promises", key_detail="margin-applied")


def run(ctx) -> None:  # noqa: F811
    from ..rules import dplimits

    repo = ctx.repo
    ctx.rule("R-ANGLEGPTS", "the numeric arm of _gpts_within_angle gives axis k  2*h_k + 1 points with h_k a rounding of "
             "angle / angular_sampling[k] (rational identity per axis, x with x and y with y): an odd, centre-symmetric "
             "window whose outermost pixels lie at the requested maximum angle — 'cropped to a maximum angle'")
    ctx.rule("R-CROPGUARD", "Waves._diffraction_pattern skips fft_crop only when the array already has the requested "
             "shape")
    ctx.rule("R-LIMITS", dplimits.RULE_TEXT)
    _run_deferring(ctx, [lambda: dplimits.check_limits(ctx, "R-LIMITS", repo),
                         lambda: dplimits.check_angular_limits(ctx, "R-LIMITS", repo),
                         lambda: dplimits.check_angular_coordinates(ctx, "R-LIMITS", repo),
                         lambda: _angle_gpts(ctx, repo), lambda: _crop_guard(ctx, repo), lambda: _margin(ctx, repo)],
                   _inner_run_c14b)


# ---- added after the seeded change C14-r7seed0: an optional argument is defaulted only where it was not given
_inner_run_c14_r7 = run


def _tristate_defaults(ctx) -> int:
    """R-OPTIONALGIVEN"""
    cls = ctx.repo.cls("abtem.measurements", "DiffractionPatterns")
    n = 0
    for defs in cls.methods.values():
        for f in defs:
            a = f.node.args
            pos = a.posonlyargs + a.args
            defaults = dict(zip([x.arg for x in pos[len(pos) - len(a.defaults):]], a.defaults))
            defaults.update({x.arg: d for x, d in zip(a.kwonlyargs, a.kw_defaults) if d is not None})
            optional = {p for p, d in defaults.items() if isinstance(d, ast.Constant) and d.value is None}
            if not optional:
                continue

            def truthy_use(t: ast.AST, p: str) -> bool:
                """does test `t` read parameter p as a truth value (instead of comparing it with None)?"""
                if isinstance(t, ast.Name):
                    return t.id == p
                if isinstance(t, ast.UnaryOp) and isinstance(t.op, ast.Not):
                    return truthy_use(t.operand, p)
                if isinstance(t, ast.BoolOp):
                    return any(truthy_use(v, p) for v in t.values)
                if isinstance(t, ast.Compare) and len(t.ops) == 1 and isinstance(t.ops[0], (ast.Eq, ast.NotEq)):
                    sides = (t.left, t.comparators[0])
                    return any(isinstance(x, ast.Name) and x.id == p for x in sides) and any(
                        isinstance(x, ast.Constant) and (x.value is False or x.value == 0) and x.value is not None
                        for x in sides)
                return False

            def rec(stmts, guards):
                nonlocal n
                for st in stmts:
                    if isinstance(st, ast.If):
                        rec(st.body, guards + [st.test])
                        rec(st.orelse, guards + [st.test])
                        continue
                    for blk in ("body", "orelse", "finalbody"):
                        if isinstance(getattr(st, blk, None), list) and not isinstance(st, (ast.FunctionDef, ast.ClassDef)):
                            rec(getattr(st, blk), guards)
                    if isinstance(st, ast.Assign) and len(st.targets) == 1 and isinstance(st.targets[0], ast.Name) \
                            and st.targets[0].id in optional:
                        p = st.targets[0].id
                        tests = list(guards)
                        v = st.value
                        if isinstance(v, ast.BoolOp) and isinstance(v.op, ast.Or) and truthy_use(v.values[0], p):
                            tests.append(v.values[0])
                        if isinstance(v, ast.IfExp):
                            tests.append(v.test)
                        bad = [t for t in tests if truthy_use(t, p)]
                        n += 1
                        ctx.check(not bad, "R-OPTIONALGIVEN", f"{f.qualname}:{p}", f.loc(st),
                                  f"`{p}` (default None) is replaced only where it is None",
                                  f"`{norm_text(st)[:50]}` replaces `{p}` under `{norm_text(bad[0])[:60]}`, which reads it as a "
                                  f"truth value: an explicit False / 0 is treated like 'not given' and silently "
                                  "overridden, so the caller's choice (e.g. blocking without the extra margin pixel) is "
                                  "not honoured", key_detail="default") if bad else ctx.ok(
                            "R-OPTIONALGIVEN", f"{f.qualname}:{p}", f.loc(st),
                            f"`{p}` (default None) is replaced only under a comparison with None")

            rec(f.node.body, [])
    return n


def run(ctx) -> None:  # noqa: F811
    ctx.rule("R-OPTIONALGIVEN", "in every method of DiffractionPatterns, a parameter whose default is None and which the "
             "method itself re-binds (fills in) is re-bound only on paths whose guards compare it with None: a guard "
             "that reads it as a truth value (`not p`, `p or d`, `p == False`) also fires for an explicit False / 0, so "
             "the caller's explicit choice is overridden (block_direct(margin=False) blocks one more pixel ring than "
             "the stated radius).  Truth tests that only USE the parameter after it was filled in are not judged")
    n = _tristate_defaults(ctx)
    ctx.require(n >= 2, f"R-OPTIONALGIVEN examined only {n} fill-ins")
    _inner_run_c14_r7(ctx)
