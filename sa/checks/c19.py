"""C19 — ensemble partitioning reassembles every member exactly once."""
from __future__ import annotations

import ast

from ..model import call_name, dotted, norm_text, walk_no_nested
from ..rules import recon, sameslice


def run(ctx) -> None:
    repo = ctx.repo
    doc = recon.__doc__
    ctx.rule("R-RECON-SUPPLY", doc.split("R-RECON-SUPPLY", 1)[1].split('"""')[0])
    ctx.rule("R-RECON-GET", doc.split("R-RECON-GET", 1)[1].split("R-RECON-CTOR")[0])
    ctx.rule("R-SAMESLICE", sameslice.__doc__.split("\n\n", 1)[1])
    ctx.rule("R-AXISSLICE", "ArrayObject._partition_ensemble_axes_metadata slices the i-th ensemble axis with the "
             "i-th slice of the block (index taken from enumerate over the same axis list)")
    ctx.rule("R-BLOCKORDER", "Ensemble.generate_blocks pairs block indices (np.ndindex over the block grid) with "
             "itertools.product over chunk_ranges(chunks) of the same validated chunks, builds each block from "
             "_partition_args(chunks, lazy=False) through _from_partitioned_args(); ensemble_blocks uses the same two "
             "methods with lazy=True")
    ctx.rule("R-BLOCKTERM", "(shared with C20) GridScan/LineScan._partition_args describe block k by start_k == start + "
             "cum_k*sampling, end_k - start_k == sampling*chunk_k, gpts == chunk_k, endpoint == False with cum_k the "
             "exclusive running sum of the chunk sizes, and the block reader passes each stored key to the constructor "
             "parameter of the same name: the blocks' positions concatenate to the scan's positions")
    ctx.undecided("that dask's blockwise concatenation reassembles blocks in index order; numerical equality of "
                  "reassembled arrays")

    n_supply = recon.check_supply(ctx)
    ctx.require(n_supply >= 40, f"R-RECON-SUPPLY matched only {n_supply} classes")
    n_get = recon.check_get(ctx)
    ctx.require(n_get >= 40, f"R-RECON-GET matched only {n_get} classes")

    targets = [
        ("abtem.inelastic.phonons", "FrozenPhonons", "_partition_args"),
        ("abtem.inelastic.phonons", "AtomsEnsemble", "_partition_args"),
        ("abtem.potentials.iam", "CrystalPotential", "_partition_args"),
        ("abtem.distributions", "DistributionFromValues", "divide"),
        ("abtem.scan", "CustomScan", "_partition_args"),
    ]
    for m, c, fn in targets:
        sameslice.check(ctx, repo.method(m, c, fn))

    # R-AXISSLICE
    f = repo.method("abtem.array", "ArrayObject", "_partition_ensemble_axes_metadata")
    loops = [l for l in walk_no_nested(f.node) if isinstance(l, ast.For) and "iterate_chunk_ranges" in ast.unparse(l.iter)]
    ctx.require(len(loops) == 1, f"{f.qualname}: loop over iterate_chunk_ranges not found")
    loop = loops[0]
    ctx.require(isinstance(loop.target, ast.Tuple) and len(loop.target.elts) == 2, "unexpected loop target")
    slicvar = loop.target.elts[1].id
    comps = [c for st in loop.body for c in ast.walk(st) if isinstance(c, (ast.ListComp, ast.GeneratorExp))]
    ctx.require(len(comps) >= 1, f"{f.qualname}: per-axis comprehension not found")
    okc = False
    detail = ""
    for c in comps:
        g = c.generators[0]
        if isinstance(g.iter, ast.Call) and call_name(g.iter) == "enumerate" and isinstance(g.target, ast.Tuple):
            ivar, axvar = g.target.elts[0].id, g.target.elts[1].id
            subs = [s for s in ast.walk(c.elt) if isinstance(s, ast.Subscript) and isinstance(s.value, ast.Name)
                    and s.value.id == axvar]
            if subs:
                s = subs[0]
                okc = (isinstance(s.slice, ast.Subscript) and dotted(s.slice.value) == slicvar and
                       isinstance(s.slice.slice, ast.Name) and s.slice.slice.id == ivar and
                       dotted(g.iter.args[0]) == "self.ensemble_axes_metadata")
                detail = norm_text(s)
    ctx.check(okc, "R-AXISSLICE", f"{f.qualname}", f.loc(loop), f"axis i sliced with the block's i-th slice ({detail})",
              f"ensemble axis metadata is sliced with {detail or '?'} — not the slice of its own dimension",
              key_detail="axis")
    # block arrays use the same ranges as the metadata
    pa = repo.method("abtem.array", "ArrayObject", "_partition_args")
    loops = [l for l in walk_no_nested(pa.node) if isinstance(l, ast.For) and "iterate_chunk_ranges" in ast.unparse(l.iter)]
    ctx.require(len(loops) == 1, f"{pa.qualname}: loop over iterate_chunk_ranges not found")
    loop = loops[0]
    bi, cr = (e.id for e in loop.target.elts)
    txt = " ".join(norm_text(st) for st in loop.body)
    good = f"array[{cr}]" in txt and f"ensemble_axes_metadata[{bi}]" in txt
    ctx.check(good, "R-AXISSLICE", f"{pa.qualname}:eager blocks", pa.loc(loop),
              "eager block = (array[chunk_range], metadata[block_indices]) of the same loop step",
              "eager block does not pair array[chunk_range] with the metadata of the same block index", "eager")
    calls = [c for c in walk_no_nested(pa.node) if isinstance(c, ast.Call) and
             call_name(c) == "self._partition_ensemble_axes_metadata"]
    args = set()
    for c in calls:
        a = c.args[0] if c.args else next((k.value for k in c.keywords if k.arg == "chunks"), None)
        args.add(ast.unparse(a) if a is not None else "?")
    ctx.check(len(calls) == 2 and args <= {"ensemble_chunks", "chunks"}, "R-AXISSLICE",
              f"{pa.qualname}:metadata chunks", pa.where, "metadata partitioned with the validated chunks in both arms",
              f"metadata partitioned with {sorted(args)}", "metachunks")

    # R-BLOCKORDER
    gb = repo.method("abtem.core.ensemble", "Ensemble", "generate_blocks")
    eb = repo.method("abtem.core.ensemble", "Ensemble", "ensemble_blocks")
    src = {norm_text(n) for n in ast.walk(gb.node) if isinstance(n, (ast.Assign, ast.For, ast.Expr))}
    zips = [n for n in walk_no_nested(gb.node) if isinstance(n, ast.For) and isinstance(n.iter, ast.Call)
            and call_name(n.iter) == "zip"]
    ctx.require(len(zips) >= 1, "generate_blocks: zip loop not found")
    z = zips[0].iter
    a0, a1 = (ast.unparse(x) for x in z.args[:2])
    assigns = {st.targets[0].id: st.value for st in walk_no_nested(gb.node)
               if isinstance(st, ast.Assign) and isinstance(st.targets[0], ast.Name)}

    def res(e):
        seen = set()
        while isinstance(e, ast.Name) and e.id in assigns and e.id not in seen:
            seen.add(e.id)
            e = assigns[e.id]
        return e

    good = False
    if len(z.args) >= 2 and isinstance(z.args[0], ast.Call) and (call_name(z.args[0]) or "").endswith("ndindex") and \
            isinstance(z.args[1], ast.Call) and (call_name(z.args[1]) or "").endswith("product") and z.args[1].args and \
            isinstance(z.args[1].args[0], ast.Starred):
        ranges = res(z.args[1].args[0].value)
        if isinstance(ranges, ast.Call) and call_name(ranges) == "chunk_ranges" and ranges.args:
            ch = res(ranges.args[0])
            good = isinstance(ch, ast.Call) and call_name(ch) == "self._validate_ensemble_chunks"
    ctx.check(good, "R-BLOCKORDER", f"{gb.qualname}:pairing", gb.loc(zips[0]),
              "block indices (ndindex) zipped with product(chunk_ranges(validated chunks))",
              f"generate_blocks pairs {a0} with {a1}", "pairing")
    for fn, lazyval in ((gb, False), (eb, True)):
        pc = [c for c in walk_no_nested(fn.node) if isinstance(c, ast.Call) and call_name(c) == "self._partition_args"]
        fc = [c for c in walk_no_nested(fn.node) if isinstance(c, ast.Call) and call_name(c) == "self._from_partitioned_args"]
        good = len(pc) == 1 and len(fc) >= 1
        if good:
            kws = {k.arg: k.value for k in pc[0].keywords}
            lz = kws.get("lazy")
            first = pc[0].args[0] if pc[0].args else kws.get("chunks")
            good = (isinstance(lz, ast.Constant) and lz.value is lazyval and first is not None
                    and ast.unparse(first) == "chunks")
        ctx.check(good, "R-BLOCKORDER", f"{fn.qualname}:methods", fn.where,
                  f"uses _partition_args(chunks, lazy={lazyval}) and _from_partitioned_args()",
                  f"{fn.short} does not build blocks from _partition_args(chunks, lazy={lazyval}) / "
                  "_from_partitioned_args()", "methods")

    # ---------------- R-BLOCKTERM (scan blocks; the rule lives in c20)
    from . import c20

    c20._blocks(ctx, repo, repo.cls(c20.SCAN, "LineScan"), repo.cls(c20.SCAN, "GridScan"))


# ---- added after the seeded change C19-r3seed4: blocks keep the receiver's ensemble_mean
_inner_run_c19 = run


def run(ctx) -> None:  # noqa: F811
    from ..rules import blockflags

    ctx.rule("R-BLOCKFLAGS", blockflags.__doc__.split("\n\n", 1)[1])
    n = blockflags.check(ctx)
    ctx.require(n >= 1, f"R-BLOCKFLAGS found no sub-distribution constructor in DistributionFromValues")
    _inner_run_c19(ctx)



# =============================================================================================
# ---- added after the mutation sweep (round 4): blocks reach the result; arguments addressed by their own indices
_inner_run_c19b = run

BLOCKFLOW_TARGETS = [
    ("abtem.scan", "CustomScan", "_partition_args"),
    ("abtem.scan", "LineScan", "_partition_args"),
    ("abtem.scan", "GridScan", "_partition_args"),
    ("abtem.inelastic.phonons", "FrozenPhonons", "_partition_args"),
    ("abtem.inelastic.phonons", "AtomsEnsemble", "_partition_args"),
    ("abtem.potentials.iam", "CrystalPotential", "_partition_args"),
    ("abtem.distributions", "DistributionFromValues", "divide"),
    ("abtem.array", "ArrayObject", "_partition_args"),
    ("abtem.array", "ArrayObject", "_partition_ensemble_axes_metadata"),
]


def run(ctx) -> None:  # noqa: F811
    from ..model import AnalysisError
    from ..rules import argindex, blockflow

    ctx.rule("R-BLOCKFLOW", blockflow.__doc__.split("\n\n", 1)[1])
    ctx.rule("R-ARGINDEX", argindex.__doc__.split("\n\n", 1)[1])
    pending = []
    n = 0
    try:
        argindex.check(ctx, ctx.repo.method("abtem.core.ensemble", "Ensemble", "ensemble_blocks"),
                       ctx.repo.method("abtem.core.ensemble", "Ensemble", "generate_blocks"))
    except AnalysisError as e:
        pending.append(e)
    for m, c, fn in BLOCKFLOW_TARGETS:
        try:
            n += blockflow.check(ctx, ctx.repo.method(m, c, fn))
        except AnalysisError as e:
            pending.append(e)
    # the degenerate cases are taken only when they apply
    from . import c20, c36

    ctx.rule("R-DELEGATE", "(shared with C36) MultidimensionalDistribution.divide hands the work to its only component "
             "exactly when there is one, with the caller's chunks and lazy passed to the parameters of the same name; "
             "with two components it does not return the blocks of a single component")
    ctx.rule("R-NONEMPTY", "(shared with C20) CustomScan._partition_args returns the empty argument tuple only for a scan "
             "without positions: the return that does not depend on the validated chunks is guarded by a test that is "
             "true only for an empty position list")
    for step in (lambda: c36._multi_divide(ctx, ctx.repo, ctx.repo.cls(c36.MOD, c36.MULTI)),
                 lambda: c20._nonempty_guard(
                     ctx, ctx.repo.method("abtem.scan", "CustomScan", "_partition_args"),
                     lambda c: call_name(c) == "self._validate_ensemble_chunks",
                     lambda e: dotted(e) in ("self.positions", "self._positions"),
                     "the validated chunks", "an empty argument tuple")):
        try:
            step()
        except AnalysisError as e:
            pending.append(e)
    _inner_run_c19b(ctx)
    if pending:
        raise pending[0]
    ctx.require(n >= 30, f"R-BLOCKFLOW examined only {n} instances")


# ---- round 4, continued: the (array block, metadata) pair of ArrayObject._partition_args in both arms
_inner_run_c19c = run


def run(ctx) -> None:  # noqa: F811
    from ..model import AnalysisError
    from ..rules import blockpair

    ctx.rule("R-BLOCKPAIR", blockpair.__doc__.split("\n\n", 1)[1])
    err = None
    try:
        n = blockpair.check(ctx, ctx.repo.method("abtem.array", "ArrayObject", "_partition_args"),
                            ctx.repo.method("abtem.array", "ArrayObject", "_partition_ensemble_axes_metadata"))
        ctx.require(n >= 3, f"R-BLOCKPAIR examined only {n} instances")
    except AnalysisError as e:
        err = e
    _inner_run_c19c(ctx)
    if err is not None:
        raise err


# ---- added after the seeded change C19-r4seed2: a block is rebuilt from its own seeds, unchanged
_inner_run_c19d = run


def run(ctx) -> None:  # noqa: F811
    from ..rules import seedrebuild

    ctx.rule("R-SEEDREBUILD", seedrebuild.__doc__.split("\n\n", 1)[1])
    n = seedrebuild.check(ctx, ctx.repo.method("abtem.inelastic.phonons", "FrozenPhonons", "_from_partitioned_args_func"),
                          ("cls", "FrozenPhonons"), "seed", "num_configs")
    n += seedrebuild.check(ctx, ctx.repo.method("abtem.potentials.iam", "CrystalPotential", "_from_partitioned_args_func"),
                           ("cls", "CrystalPotential"), "seeds", "num_frozen_phonons")
    ctx.require(n >= 4, f"R-SEEDREBUILD examined only {n} instances")
    _inner_run_c19d(ctx)
