"""C31 — Poisson noise is valid, independent and reproducible (abtem/noise.py, measurements.py)."""
from __future__ import annotations

import ast

from ..cfg import DataFlow
from ..model import AnalysisError, call_name, dotted, norm_text, walk_no_nested

NOISE = "abtem.noise"
RNG_CTORS = {"default_rng", "RandomState", "Generator", "SeedSequence", "PCG64", "MT19937"}
CASTS = {"astype", "asarray", "array", "ascontiguousarray", "float32", "float64", "asnumpy", "copy"}


def _stmt_of(func, node):
    best = None
    for st in ast.walk(func):
        if isinstance(st, ast.stmt) and not isinstance(st, (ast.FunctionDef, ast.If, ast.For, ast.While, ast.With,
                                                           ast.Try)):
            if any(n is node for n in ast.walk(st)):
                best = st
    if best is None:
        raise AnalysisError("statement not found")
    return best


def run(ctx) -> None:
    repo = ctx.repo
    ctx.rule("R-POISSONFLOW", "in NoiseTransform._calculate_new_array the Poisson rate passes a clip at zero "
             "(no negative rates), is data-dependent on both the measured array and the dose, and the returned array "
             "derives from the Poisson draw through casts only (whole, non-negative counts)")
    ctx.rule("R-ONESTREAM", "within one call of the block function every random generator is constructed once: a "
             "constructor that sits in a loop / comprehension, or in a nested helper that is called from one, must "
             "have a seed that varies with the repetition (mentions the loop variable / the helper's parameter); "
             "re-seeding with the same value per dose or per sample replays the same stream")
    ctx.rule("R-SEEDFLOW", "every random generator in the block function is constructed from a seed that is "
             "data-dependent on self.seeds (no global random state, no unseeded generator when a seed was given), and "
             "BaseMeasurements.poisson_noise forwards seed, samples and the dose to NoiseTransform")
    ctx.rule("R-BLOCKSEED", "a generator constructed inside the per-block function must have a seed that is "
             "data-dependent on the block (the array object or something partitioned with it); a block-invariant seed "
             "gives every block the same noise, makes the result depend on chunking and makes lazy differ from eager")
    ctx.undecided("statistical independence and the expectation value (properties of numpy's generators)")

    f = repo.method(NOISE, "NoiseTransform", "_calculate_new_array")
    df = DataFlow(f.node)
    block_param = f.positional_params[1]

    # ---------------- R-ONESTREAM (decided first: it also looks into nested helper functions)
    parents: dict[int, ast.AST] = {}
    for p_ in ast.walk(f.node):
        for ch in ast.iter_child_nodes(p_):
            parents[id(ch)] = p_

    def enclosing(node, kinds):
        out, cur = [], parents.get(id(node))
        while cur is not None and cur is not f.node:
            if isinstance(cur, kinds):
                out.append(cur)
            cur = parents.get(id(cur))
        return out

    REPEAT = (ast.For, ast.While, ast.ListComp, ast.GeneratorExp, ast.SetComp, ast.DictComp)
    SCOPES = (ast.FunctionDef, ast.AsyncFunctionDef, ast.Lambda)
    n_ctor = 0
    for c in ast.walk(f.node):
        if not (isinstance(c, ast.Call) and (call_name(c) or "").split(".")[-1] in RNG_CTORS):
            continue
        n_ctor += 1
        seed_e = c.args[0] if c.args else next((k.value for k in c.keywords if k.arg == "seed"), None)
        seed_names = {x.id for x in ast.walk(seed_e) if isinstance(x, ast.Name)} if seed_e is not None else set()
        scopes = enclosing(c, SCOPES)
        reps = []  # (construct that repeats the constructor, names that vary from one repetition to the next)
        inner_scope = scopes[0] if scopes else None
        for r in enclosing(c, REPEAT):
            if inner_scope is not None and any(x is r for x in enclosing(inner_scope, REPEAT)):
                continue  # handled through the call sites of the nested function below
            tg = [r.target] if isinstance(r, ast.For) else [g.target for g in getattr(r, "generators", [])]
            reps.append((r, {x.id for t in tg for x in ast.walk(t) if isinstance(x, ast.Name)}))
        for sc in scopes:
            if isinstance(sc, ast.Lambda):
                continue
            a_ = sc.args
            params = {x.arg for x in a_.posonlyargs + a_.args + a_.kwonlyargs}
            sites = [k for k in ast.walk(f.node) if isinstance(k, ast.Call) and isinstance(k.func, ast.Name)
                     and k.func.id == sc.name]
            looped = [k for k in sites if any(isinstance(x, REPEAT) for x in enclosing(k, REPEAT))]
            if looped:
                reps.append((looped[0], params))
        bad = [(r, vary) for r, vary in reps if not (seed_names & vary)]
        ctx.check(not bad, "R-ONESTREAM", f"{f.qualname}:rng#{n_ctor - 1} constructed once", f.loc(c),
                  f"`{norm_text(c)[:50]}` is executed once per call of the block function",
                  f"`{norm_text(c)[:60]}` is re-constructed with the same seed `{norm_text(seed_e) if seed_e is not None else '-'}`"
                  f" on every repetition of `{norm_text(bad[0][0])[:70]}`: each repetition draws the identical random "
                  "stream, so the noise of different doses / samples is correlated (equal doses give identical "
                  "arrays) instead of independent" if bad else "", key_detail="onestream")
    ctx.require(n_ctor >= 1, "no random generator constructed in the block function")

    # ---------------- R-POISSONFLOW
    draws = [c for c in walk_no_nested(f.node) if isinstance(c, ast.Call) and isinstance(c.func, ast.Attribute)
             and c.func.attr == "poisson"]
    ctx.require(len(draws) >= 1, "NoiseTransform._calculate_new_array: no poisson draw found")
    for c in draws:
        st = _stmt_of(f.node, c)
        at = df.cfg.node_of(st).idx
        lam = c.args[0] if c.args else next((k.value for k in c.keywords if k.arg == "lam"), None)
        ctx.require(lam is not None, "poisson draw without a rate argument")
        clipped = False
        # walk back through casts to the defining expression
        expr, node = lam, at
        hops = 0
        while hops < 6:
            hops += 1
            if isinstance(expr, ast.Name):
                d = df.single_def(node, expr.id)
                if d is None or d.value is None:
                    break
                expr, node = d.value, d.node
                continue
            if isinstance(expr, ast.Call):
                cn = call_name(expr) or ""
                short = cn.split(".")[-1]
                if short == "clip":
                    kws = {k.arg: k.value for k in expr.keywords}
                    lo = kws.get("a_min", kws.get("min", expr.args[1] if len(expr.args) > 1 else None))
                    clipped = isinstance(lo, ast.Constant) and lo.value == 0
                    break
                if short == "maximum" and len(expr.args) == 2 and any(
                        isinstance(a, ast.Constant) and a.value == 0 for a in expr.args):
                    clipped = True
                    break
                if short in CASTS and expr.args:
                    expr = expr.args[0]
                    continue
                if isinstance(expr.func, ast.Attribute) and expr.func.attr in CASTS | {"get"}:
                    expr = expr.func.value
                    continue
            break
        ctx.check(clipped, "R-POISSONFLOW", f"{f.qualname}:rate-clipped", f.loc(c),
                  "Poisson rate is clipped at zero before the draw",
                  f"the Poisson rate `{norm_text(lam)}` does not pass a clip at 0: negative intensities (FFT ringing) "
                  "make numpy raise or produce invalid counts", key_detail="clip")
        sl = df.backward_slice(at, lam)
        dep_arr = block_param in sl.params
        dep_dose = any(v in ("self.dose", "self._dose") for v in sl.external | sl.visited)
        ctx.check(dep_arr and dep_dose, "R-POISSONFLOW", f"{f.qualname}:rate-term", f.loc(c),
                  "rate depends on the measured array and on the dose",
                  f"the Poisson rate does not depend on {'the measured array' if not dep_arr else 'the dose'}: the "
                  "expectation is not dose x signal", key_detail="rate")
    # every arm of the dose switch multiplies the signal by a dose-derived factor
    from ..terms import Normalizer
    switches = [i for i in walk_no_nested(f.node) if isinstance(i, ast.If) and "dose" in norm_text(i.test) and i.orelse]
    ctx.require(len(switches) >= 1, "NoiseTransform._calculate_new_array: dose switch not found")
    for sw in switches:
        for arm_name, arm in (("distribution", sw.body), ("scalar", sw.orelse)):
            assigns = [st for st in arm if isinstance(st, ast.Assign) and len(st.targets) == 1]
            scaled = False
            last = None
            for st in assigns:
                poly = Normalizer().norm(st.value)
                tname = norm_text(st.targets[0])
                if poly.has_factor_atom(lambda a: "dose" in a) and poly.has_factor_atom(lambda a: tname in a):
                    scaled = True
                last = st
            ctx.check(scaled, "R-POISSONFLOW", f"{f.qualname}:dose-scaling {arm_name}", f.loc(last or sw),
                      "signal multiplied by a dose-derived factor",
                      f"in the {arm_name}-dose arm the signal is not multiplied by the dose "
                      f"({'; '.join(norm_text(a)[:60] for a in assigns)})", key_detail=arm_name)
    rets = [r for r in walk_no_nested(f.node) if isinstance(r, ast.Return) and r.value is not None]
    ctx.require(len(rets) == 1, "expected one return")
    expr, node = rets[0].value, df.cfg.node_of(rets[0]).idx
    from_draw = False
    for _ in range(8):
        if isinstance(expr, ast.Name):
            d = df.single_def(node, expr.id)
            if d is None or d.value is None:
                break
            expr, node = d.value, d.node
            continue
        if isinstance(expr, ast.Call):
            if isinstance(expr.func, ast.Attribute) and expr.func.attr == "poisson":
                from_draw = True
                break
            cn = (call_name(expr) or "").split(".")[-1]
            if cn in CASTS and expr.args:
                expr = expr.args[0]
                continue
            if isinstance(expr.func, ast.Attribute) and expr.func.attr in CASTS:
                expr = expr.func.value
                continue
        break
    ctx.check(from_draw, "R-POISSONFLOW", f"{f.qualname}:return", f.loc(rets[0]),
              "returned array is the Poisson draw (through casts only)",
              f"the returned value `{norm_text(rets[0].value)}` is not the Poisson draw up to casts: counts need not be "
              "whole or non-negative", key_detail="return")

    # ---------------- R-SEEDFLOW / R-BLOCKSEED
    ctors = [c for c in walk_no_nested(f.node) if isinstance(c, ast.Call) and (call_name(c) or "").split(".")[-1] in RNG_CTORS]
    ctx.require(len(ctors) >= 1, "no random generator constructed in the block function")
    globals_used = [c for c in walk_no_nested(f.node) if isinstance(c, ast.Call) and (call_name(c) or "").startswith(
        ("np.random.", "numpy.random.", "random.")) and (call_name(c) or "").split(".")[-1] not in RNG_CTORS]
    ctx.check(not globals_used, "R-SEEDFLOW", f"{f.qualname}:no-global-rng", f.where,
              "no draw from the global random state",
              "draws from the global random state: " + "; ".join(norm_text(c)[:50] for c in globals_used),
              key_detail="global")
    for c in ctors:
        st = _stmt_of(f.node, c)
        at = df.cfg.node_of(st).idx
        seed = c.args[0] if c.args else next((k.value for k in c.keywords if k.arg == "seed"), None)
        kind = (call_name(c) or "").split(".")[-1]
        name = f"rng#{ctors.index(c)}"  # ordinal among the generators built here, whatever their constructor
        if seed is None:
            ctx.violation("R-SEEDFLOW", f"{f.qualname}:{name}", f.loc(c),
                          f"`{norm_text(c)}` constructs an unseeded generator: a fixed seed cannot reproduce the noise",
                          key_detail="unseeded")
            continue
        sl = df.backward_slice(at, seed)
        dep_seed = any(v in ("self.seeds", "self._seeds") for v in sl.external | sl.visited)
        ctx.check(dep_seed, "R-SEEDFLOW", f"{f.qualname}:{name}", f.loc(c),
                  f"seed `{norm_text(seed)}` derives from self.seeds",
                  f"the seed `{norm_text(seed)}` of `{name}` does not derive from self.seeds", key_detail="seeded")
        dep_block = block_param in sl.params
        ctx.check(dep_block, "R-BLOCKSEED", f"{f.qualname}:{name}", f.loc(c),
                  "seed depends on the block",
                  f"generator `{name}` is constructed inside the per-block function with the block-invariant seed "
                  f"`{norm_text(seed)}`: every dask block of the measurement draws the same random stream, so "
                  "members in different blocks get identical noise, the result depends on the chunking and lazy "
                  "differs from eager", key_detail="blockseed")

    pn = repo.method("abtem.measurements", "BaseMeasurements", "poisson_noise")
    nt = [c for c in walk_no_nested(pn.node) if isinstance(c, ast.Call) and call_name(c) == "NoiseTransform"]
    ctx.require(len(nt) == 1, "poisson_noise: NoiseTransform construction not found")
    kws = {k.arg: k.value for k in nt[0].keywords if k.arg}
    good = (dotted(kws.get("seeds")) == "seed" and dotted(kws.get("samples")) == "samples"
            and dotted(kws.get("dose")) == "total_dose")
    ctx.check(good, "R-SEEDFLOW", f"{pn.qualname}:forwarding", pn.loc(nt[0]),
              "seed, samples and dose forwarded to NoiseTransform",
              f"`{norm_text(nt[0])}` does not forward seed/samples/total_dose", key_detail="forward")
    dfp = DataFlow(pn.node)
    st = _stmt_of(pn.node, nt[0])
    sl = dfp.backward_slice(dfp.cfg.node_of(st).idx, kws["dose"]) if "dose" in kws else None
    ok = sl is not None and {"dose_per_area", "total_dose"} <= sl.params and any(
        v.startswith("self._area_per_pixel") for v in sl.external | sl.visited)
    ctx.check(ok, "R-SEEDFLOW", f"{pn.qualname}:dose", pn.loc(nt[0]),
              "dose = total_dose or dose_per_area x area per pixel",
              "the dose handed to NoiseTransform does not derive from total_dose / dose_per_area x area per pixel",
              key_detail="dose")
