"""C31 — Poisson noise is valid, independent and reproducible (abtem/noise.py, measurements.py)."""
from __future__ import annotations

import ast

from ..cfg import DataFlow
from ..model import AnalysisError, call_name, dotted, norm_text, walk_no_nested

NOISE = "abtem.noise"
RNG_CTORS = {"default_rng", "RandomState", "Generator", "SeedSequence", "PCG64", "MT19937"}
CASTS = {"astype", "asarray", "array", "ascontiguousarray", "float32", "float64", "asnumpy", "copy"}


def _stmt_of(func, node):
    best = None
    for st in ast.walk(func):
        if isinstance(st, ast.stmt) and not isinstance(st, (ast.FunctionDef, ast.If, ast.For, ast.While, ast.With,
                                                           ast.Try)):
            if any(n is node for n in ast.walk(st)):
                best = st
    if best is None:
        raise AnalysisError("statement not found")
    return best


def run(ctx) -> None:
    repo = ctx.repo
    ctx.rule("R-POISSONFLOW", "in NoiseTransform._calculate_new_array the Poisson rate passes a clip at zero "
             "(no negative rates), is data-dependent on both the measured array and the dose, and the returned array "
             "derives from the Poisson draw through casts only (whole, non-negative counts)")
    ctx.rule("R-ONESTREAM", "within one call of the block function every random generator is constructed once: a "
             "constructor that sits in a loop / comprehension, or in a nested helper that is called from one, must "
             "have a seed that varies with the repetition (mentions the loop variable / the helper's parameter); "
             "re-seeding with the same value per dose or per sample replays the same stream")
    ctx.rule("R-SEEDFLOW", "every random generator in the block function is constructed from a seed that is "
             "data-dependent on self.seeds (no global random state, no unseeded generator when a seed was given), and "
             "BaseMeasurements.poisson_noise forwards seed, samples and the dose to NoiseTransform")
    ctx.rule("R-BLOCKSEED", "a generator constructed inside the per-block function must have a seed that is "
             "data-dependent on the block (the array object or something partitioned with it); a block-invariant seed "
             "gives every block the same noise, makes the result depend on chunking and makes lazy differ from eager")
    ctx.undecided("statistical independence and the expectation value (properties of numpy's generators)")

    f = repo.method(NOISE, "NoiseTransform", "_calculate_new_array")
    df = DataFlow(f.node)
    block_param = f.positional_params[1]

    # ---------------- R-ONESTREAM (decided first: it also looks into nested helper functions)
    parents: dict[int, ast.AST] = {}
    for p_ in ast.walk(f.node):
        for ch in ast.iter_child_nodes(p_):
            parents[id(ch)] = p_

    def enclosing(node, kinds):
        out, cur = [], parents.get(id(node))
        while cur is not None and cur is not f.node:
            if isinstance(cur, kinds):
                out.append(cur)
            cur = parents.get(id(cur))
        return out

    REPEAT = (ast.For, ast.While, ast.ListComp, ast.GeneratorExp, ast.SetComp, ast.DictComp)
    SCOPES = (ast.FunctionDef, ast.AsyncFunctionDef, ast.Lambda)
    n_ctor = 0
    for c in ast.walk(f.node):
        if not (isinstance(c, ast.Call) and (call_name(c) or "").split(".")[-1] in RNG_CTORS):
            continue
        n_ctor += 1
        seed_e = c.args[0] if c.args else next((k.value for k in c.keywords if k.arg == "seed"), None)
        seed_names = {x.id for x in ast.walk(seed_e) if isinstance(x, ast.Name)} if seed_e is not None else set()
        scopes = enclosing(c, SCOPES)
        reps = []  # (construct that repeats the constructor, names that vary from one repetition to the next)
        inner_scope = scopes[0] if scopes else None
        for r in enclosing(c, REPEAT):
            if inner_scope is not None and any(x is r for x in enclosing(inner_scope, REPEAT)):
                continue  # handled through the call sites of the nested function below
            tg = [r.target] if isinstance(r, ast.For) else [g.target for g in getattr(r, "generators", [])]
            reps.append((r, {x.id for t in tg for x in ast.walk(t) if isinstance(x, ast.Name)}))
        for sc in scopes:
            if isinstance(sc, ast.Lambda):
                continue
            a_ = sc.args
            params = {x.arg for x in a_.posonlyargs + a_.args + a_.kwonlyargs}
            sites = [k for k in ast.walk(f.node) if isinstance(k, ast.Call) and isinstance(k.func, ast.Name)
                     and k.func.id == sc.name]
            looped = [k for k in sites if any(isinstance(x, REPEAT) for x in enclosing(k, REPEAT))]
            if looped:
                reps.append((looped[0], params))
        bad = [(r, vary) for r, vary in reps if not (seed_names & vary)]
        ctx.check(not bad, "R-ONESTREAM", f"{f.qualname}:rng#{n_ctor - 1} constructed once", f.loc(c),
                  f"`{norm_text(c)[:50]}` is executed once per call of the block function",
                  f"`{norm_text(c)[:60]}` is re-constructed with the same seed `{norm_text(seed_e) if seed_e is not None else '-'}`"
                  f" on every repetition of `{norm_text(bad[0][0])[:70]}`: each repetition draws the identical random "
                  "stream, so the noise of different doses / samples is correlated (equal doses give identical "
                  "arrays) instead of independent" if bad else "", key_detail="onestream")
    ctx.require(n_ctor >= 1, "no random generator constructed in the block function")

    # ---------------- R-POISSONFLOW
    draws = [c for c in walk_no_nested(f.node) if isinstance(c, ast.Call) and isinstance(c.func, ast.Attribute)
             and c.func.attr == "poisson"]
    ctx.require(len(draws) >= 1, "NoiseTransform._calculate_new_array: no poisson draw found")
    for c in draws:
        st = _stmt_of(f.node, c)
        at = df.cfg.node_of(st).idx
        lam = c.args[0] if c.args else next((k.value for k in c.keywords if k.arg == "lam"), None)
        ctx.require(lam is not None, "poisson draw without a rate argument")
        clipped = False
        # walk back through casts to the defining expression
        expr, node = lam, at
        hops = 0
        while hops < 6:
            hops += 1
            if isinstance(expr, ast.Name):
                d = df.single_def(node, expr.id)
                if d is None or d.value is None:
                    break
                expr, node = d.value, d.node
                continue
            if isinstance(expr, ast.Call):
                cn = call_name(expr) or ""
                short = cn.split(".")[-1]
                if short == "clip":
                    kws = {k.arg: k.value for k in expr.keywords}
                    lo = kws.get("a_min", kws.get("min", expr.args[1] if len(expr.args) > 1 else None))
                    clipped = isinstance(lo, ast.Constant) and lo.value == 0
                    break
                if short == "maximum" and len(expr.args) == 2 and any(
                        isinstance(a, ast.Constant) and a.value == 0 for a in expr.args):
                    clipped = True
                    break
                if short in CASTS and expr.args:
                    expr = expr.args[0]
                    continue
                if isinstance(expr.func, ast.Attribute) and expr.func.attr in CASTS | {"get"}:
                    expr = expr.func.value
                    continue
            break
        ctx.check(clipped, "R-POISSONFLOW", f"{f.qualname}:rate-clipped", f.loc(c),
                  "Poisson rate is clipped at zero before the draw",
                  f"the Poisson rate `{norm_text(lam)}` does not pass a clip at 0: negative intensities (FFT ringing) "
                  "make numpy raise or produce invalid counts", key_detail="clip")
        sl = df.backward_slice(at, lam)
        dep_arr = block_param in sl.params
        dep_dose = any(v in ("self.dose", "self._dose") for v in sl.external | sl.visited)
        ctx.check(dep_arr and dep_dose, "R-POISSONFLOW", f"{f.qualname}:rate-term", f.loc(c),
                  "rate depends on the measured array and on the dose",
                  f"the Poisson rate does not depend on {'the measured array' if not dep_arr else 'the dose'}: the "
                  "expectation is not dose x signal", key_detail="rate")
    # every arm of the dose switch multiplies the signal by a dose-derived factor
    from ..terms import Normalizer
    switches = [i for i in walk_no_nested(f.node) if isinstance(i, ast.If) and "dose" in norm_text(i.test) and i.orelse]
    ctx.require(len(switches) >= 1, "NoiseTransform._calculate_new_array: dose switch not found")
    for sw in switches:
        for arm_name, arm in (("distribution", sw.body), ("scalar", sw.orelse)):
            assigns = [st for st in arm if isinstance(st, ast.Assign) and len(st.targets) == 1]
            scaled = False
            last = None
            for st in assigns:
                poly = Normalizer().norm(st.value)
                tname = norm_text(st.targets[0])
                if poly.has_factor_atom(lambda a: "dose" in a) and poly.has_factor_atom(lambda a: tname in a):
                    scaled = True
                last = st
            ctx.check(scaled, "R-POISSONFLOW", f"{f.qualname}:dose-scaling {arm_name}", f.loc(last or sw),
                      "signal multiplied by a dose-derived factor",
                      f"in the {arm_name}-dose arm the signal is not multiplied by the dose "
                      f"({'; '.join(norm_text(a)[:60] for a in assigns)})", key_detail=arm_name)
    rets = [r for r in walk_no_nested(f.node) if isinstance(r, ast.Return) and r.value is not None]
    ctx.require(len(rets) == 1, "expected one return")
    expr, node = rets[0].value, df.cfg.node_of(rets[0]).idx
    from_draw = False
    for _ in range(8):
        if isinstance(expr, ast.Name):
            d = df.single_def(node, expr.id)
            if d is None or d.value is None:
                break
            expr, node = d.value, d.node
            continue
        if isinstance(expr, ast.Call):
            if isinstance(expr.func, ast.Attribute) and expr.func.attr == "poisson":
                from_draw = True
                break
            cn = (call_name(expr) or "").split(".")[-1]
            if cn in CASTS and expr.args:
                expr = expr.args[0]
                continue
            if isinstance(expr.func, ast.Attribute) and expr.func.attr in CASTS:
                expr = expr.func.value
                continue
        break
    ctx.check(from_draw, "R-POISSONFLOW", f"{f.qualname}:return", f.loc(rets[0]),
              "returned array is the Poisson draw (through casts only)",
              f"the returned value `{norm_text(rets[0].value)}` is not the Poisson draw up to casts: counts need not be "
              "whole or non-negative", key_detail="return")

    # ---------------- R-SEEDFLOW / R-BLOCKSEED
    ctors = [c for c in walk_no_nested(f.node) if isinstance(c, ast.Call) and (call_name(c) or "").split(".")[-1] in RNG_CTORS]
    ctx.require(len(ctors) >= 1, "no random generator constructed in the block function")
    globals_used = [c for c in walk_no_nested(f.node) if isinstance(c, ast.Call) and (call_name(c) or "").startswith(
        ("np.random.", "numpy.random.", "random.")) and (call_name(c) or "").split(".")[-1] not in RNG_CTORS]
    ctx.check(not globals_used, "R-SEEDFLOW", f"{f.qualname}:no-global-rng", f.where,
              "no draw from the global random state",
              "draws from the global random state: " + "; ".join(norm_text(c)[:50] for c in globals_used),
              key_detail="global")
    for c in ctors:
        st = _stmt_of(f.node, c)
        at = df.cfg.node_of(st).idx
        seed = c.args[0] if c.args else next((k.value for k in c.keywords if k.arg == "seed"), None)
        kind = (call_name(c) or "").split(".")[-1]
        name = f"rng#{ctors.index(c)}"  # ordinal among the generators built here, whatever their constructor
        if seed is None:
            ctx.violation("R-SEEDFLOW", f"{f.qualname}:{name}", f.loc(c),
                          f"`{norm_text(c)}` constructs an unseeded generator: a fixed seed cannot reproduce the noise",
                          key_detail="unseeded")
            continue
        sl = df.backward_slice(at, seed)
        dep_seed = any(v in ("self.seeds", "self._seeds") for v in sl.external | sl.visited)
        ctx.check(dep_seed, "R-SEEDFLOW", f"{f.qualname}:{name}", f.loc(c),
                  f"seed `{norm_text(seed)}` derives from self.seeds",
                  f"the seed `{norm_text(seed)}` of `{name}` does not derive from self.seeds", key_detail="seeded")
        dep_block = block_param in sl.params
        ctx.check(dep_block, "R-BLOCKSEED", f"{f.qualname}:{name}", f.loc(c),
                  "seed depends on the block",
                  f"generator `{name}` is constructed inside the per-block function with the block-invariant seed "
                  f"`{norm_text(seed)}`: every dask block of the measurement draws the same random stream, so "
                  "members in different blocks get identical noise, the result depends on the chunking and lazy "
                  "differs from eager", key_detail="blockseed")

    pn = repo.method("abtem.measurements", "BaseMeasurements", "poisson_noise")
    nt = [c for c in walk_no_nested(pn.node) if isinstance(c, ast.Call) and call_name(c) == "NoiseTransform"]
    ctx.require(len(nt) == 1, "poisson_noise: NoiseTransform construction not found")
    kws = {k.arg: k.value for k in nt[0].keywords if k.arg}
    good = (dotted(kws.get("seeds")) == "seed" and dotted(kws.get("samples")) == "samples"
            and dotted(kws.get("dose")) == "total_dose")
    ctx.check(good, "R-SEEDFLOW", f"{pn.qualname}:forwarding", pn.loc(nt[0]),
              "seed, samples and dose forwarded to NoiseTransform",
              f"`{norm_text(nt[0])}` does not forward seed/samples/total_dose", key_detail="forward")
    dfp = DataFlow(pn.node)
    st = _stmt_of(pn.node, nt[0])
    sl = dfp.backward_slice(dfp.cfg.node_of(st).idx, kws["dose"]) if "dose" in kws else None
    ok = sl is not None and {"dose_per_area", "total_dose"} <= sl.params and any(
        v.startswith("self._area_per_pixel") for v in sl.external | sl.visited)
    ctx.check(ok, "R-SEEDFLOW", f"{pn.qualname}:dose", pn.loc(nt[0]),
              "dose = total_dose or dose_per_area x area per pixel",
              "the dose handed to NoiseTransform does not derive from total_dose / dose_per_area x area per pixel",
              key_detail="dose")


# ---- added after the mutation sweep: the rate is the PRODUCT signal x dose on every arm, term-exact
_inner_run_c31 = run

_SHAPE_ONLY = {"expand_dims", "tile", "broadcast_to", "reshape", "squeeze", "atleast_1d", "ravel"}


def _shape_only_index(s: ast.Subscript) -> bool:
    idx = s.slice.elts if isinstance(s.slice, ast.Tuple) else [s.slice]
    for i in idx:
        if isinstance(i, ast.Constant) and (i.value is None or i.value is Ellipsis):
            continue
        if isinstance(i, ast.Slice) and i.lower is None and i.upper is None and i.step is None:
            continue
        return False
    return True


def _product_norm(df, at):
    """FlowNormalizer that sees through shape-only operations (x[None], expand_dims, tile, broadcast_to, reshape)
    and through `.values` of a distribution: what remains is the arithmetic on the elements."""
    from ..model import last_attr
    from ..terms import FlowNormalizer, is_array_module

    class _N(FlowNormalizer):
        def norm(self, n):
            if isinstance(n, ast.Subscript) and _shape_only_index(n):
                return self.norm(n.value)
            if isinstance(n, ast.Call) and last_attr(n) in _SHAPE_ONLY:
                recv = n.func.value if isinstance(n.func, ast.Attribute) else None
                if recv is not None and not (isinstance(recv, ast.Name) and (
                        is_array_module(recv.id) or self._is_module_local(recv.id))):
                    return self.norm(recv)  # x.reshape(...), x.squeeze()
                if n.args and not isinstance(n.args[0], ast.Starred):
                    return self.norm(n.args[0])
            if isinstance(n, ast.Attribute) and n.attr == "values" and dotted(n.value) is not None:
                return self.norm(n.value)
            return super().norm(n)

    return _N(df, at)


def _two_factor_product(poly, is_a, is_b):
    """None when poly is exactly 1 * a * b with one atom of each kind, both with exponent +1; else a description."""
    if len(poly.terms) != 1:
        return f"`{poly.key()[:80]}` is not a single product"
    (mono, coef), = poly.terms.items()
    if coef != 1:
        return f"the product carries the constant factor {coef}"
    a = [(x, e) for x, e in mono if is_a(x)]
    b = [(x, e) for x, e in mono if is_b(x) and not is_a(x)]
    rest = [(x, e) for x, e in mono if not is_a(x) and not is_b(x)]
    if rest:
        return f"the product contains the foreign factor(s) {[x for x, _ in rest][:2]}"
    if len(a) != 1 or len(b) != 1:
        return f"`{poly.key()[:80]}` is not (signal) x (dose)"
    bad = [(x, e) for x, e in a + b if e != 1]
    if bad:
        return f"`{bad[0][0]}` enters with exponent {bad[0][1]} instead of +1"
    return None


def run(ctx) -> None:  # noqa: F811
    ctx.rule("R-DOSEAXIS", "in the dose-distribution arm the signal receives one new leading axis (x[None]) and the "
             "vector of doses is expanded by exactly rank(signal) trailing axes starting at axis 1 (term equality of "
             "range bounds with len(signal.shape)): the product then holds one scaled copy of the signal per dose; any "
             "other count misaligns doses and signal axes")
    ctx.rule("R-RATEPRODUCT", "term-exact form of `expectation = dose x signal`: on every arm of the dose switch of "
             "NoiseTransform._calculate_new_array the value assigned to the variable that becomes the Poisson rate is, "
             "modulo shape-only operations (x[None], expand_dims, tile, casts) and ring axioms, exactly the product of "
             "one factor derived from the block (the signal) and one factor derived from self.dose, each with exponent "
             "+1 and with no other factor; and BaseMeasurements.poisson_noise computes the dose from dose_per_area as "
             "exactly area-per-pixel x dose_per_area.  A quotient signal / dose or area / dose_per_area still depends "
             "on both quantities (the dependence rules pass) but its expectation is not dose x signal")
    # an AnalysisError of this rule must not pre-empt a violation of the rules below (R-ONESTREAM looks into nested
    # helpers this rule cannot read): it is raised after they have run
    pending = None
    try:
        _rate_product(ctx)
    except AnalysisError as e:
        pending = e
    _inner_run_c31(ctx)
    if pending is not None:
        raise pending


def _dose_axes(ctx, f, df, st, at, is_dose) -> None:
    """R-DOSEAXIS on the statement that multiplies the signal by the vector of doses."""
    from ..model import last_attr
    from ..terms import FlowNormalizer, Poly

    if not isinstance(st, ast.Assign) or not isinstance(st.value, ast.BinOp) or not isinstance(st.value.op, ast.Mult):
        ctx.info("R-DOSEAXIS", f"{f.qualname}:dose axes", f.loc(st), "the dose arm is not a plain product; not decided")
        return
    nz = FlowNormalizer(df, at)

    def peel(e, node):
        for _ in range(6):
            if isinstance(e, ast.Name):
                d = df.single_def(node, e.id)
                if d is None or d.kind != "assign" or d.value is None or isinstance(
                        df.cfg.nodes[d.node].ast.targets[0], (ast.Tuple, ast.List)):
                    return e, node
                e, node = d.value, d.node
                continue
            return e, node
        return e, node

    sides = [peel(st.value.left, at), peel(st.value.right, at)]
    dose_side = [x for x in sides if any(is_dose(v) for v in df.backward_slice(x[1], x[0]).external | df.backward_slice(x[1], x[0]).visited)]
    sig_side = [x for x in sides if x not in dose_side]
    if len(dose_side) != 1 or len(sig_side) != 1:
        ctx.info("R-DOSEAXIS", f"{f.qualname}:dose axes", f.loc(st), "cannot tell the dose factor from the signal; not decided")
        return
    (de, dn), (se, sn) = dose_side[0], sig_side[0]
    # leading axes added to the signal: x[None] / x[None, ...] / x[np.newaxis]
    lead = 0
    base = se
    if isinstance(se, ast.Subscript):
        idx = se.slice.elts if isinstance(se.slice, ast.Tuple) else [se.slice]
        for i in idx:
            if isinstance(i, ast.Constant) and i.value is None:
                lead += 1
            elif (isinstance(i, ast.Constant) and i.value is Ellipsis) or (
                    isinstance(i, ast.Slice) and i.lower is None and i.upper is None and i.step is None):
                break
            else:
                lead = -1
                break
        base = se.value
    rank = FlowNormalizer(df, sn).norm(ast.parse(f"len({ast.unparse(base)}.shape)", mode="eval").body)
    ndim_alt = FlowNormalizer(df, sn).norm(ast.parse(f"{ast.unparse(base)}.ndim", mode="eval").body)
    added = first = None
    if isinstance(de, ast.Call) and last_attr(de) == "expand_dims" and len(de.args) + len(de.keywords) >= 2:
        ax = de.args[1] if len(de.args) > 1 else next((k.value for k in de.keywords if k.arg == "axis"), None)
        if isinstance(ax, ast.Call) and call_name(ax) in ("tuple", "list") and len(ax.args) == 1:
            ax = ax.args[0]
        if isinstance(ax, ast.Call) and call_name(ax) == "range" and 1 <= len(ax.args) <= 2:
            lo = nz.norm(ax.args[0]) if len(ax.args) == 2 else Poly.const(0)
            hi = nz.norm(ax.args[-1])
            added, first = hi - lo, lo
    if added is None or lead < 0:
        ctx.info("R-DOSEAXIS", f"{f.qualname}:dose axes", f.loc(st),
                 "the dose vector is not expanded with expand_dims(dose, tuple(range(a, b))); not decided")
        return
    ok = (added == rank or added == ndim_alt) and first == Poly.const(lead) and lead >= 1
    ctx.check(ok, "R-DOSEAXIS", f"{f.qualname}:dose axes", f.loc(st),
              f"signal gets {lead} leading axis, the doses get {added.key()} trailing axes starting at {first.key()}",
              f"the signal gets {lead} new leading ax(i/e)s and has rank {rank.key()}, but the dose vector is expanded by "
              f"{added.key()} axes starting at axis {first.key()}: doses and signal are not aligned one-dose-per-copy "
              "(broadcast error, or for a matching length the doses scale a signal axis)", key_detail="dose-axes")


def _rate_product(ctx) -> None:
    from ..terms import Poly

    repo = ctx.repo
    f = repo.method(NOISE, "NoiseTransform", "_calculate_new_array")
    df = DataFlow(f.node)
    block_param = f.positional_params[1]
    draws = [c for c in walk_no_nested(f.node) if isinstance(c, ast.Call) and isinstance(c.func, ast.Attribute)
             and c.func.attr == "poisson"]
    ctx.require(len(draws) >= 1, "R-RATEPRODUCT: no poisson draw found")
    lam = draws[0].args[0] if draws[0].args else next((k.value for k in draws[0].keywords if k.arg == "lam"), None)
    ctx.require(lam is not None, "R-RATEPRODUCT: poisson draw without a rate")
    rate_slice = df.backward_slice(df.cfg.node_of(_stmt_of(f.node, draws[0])).idx, lam)

    def is_dose_switch(i):
        if not (isinstance(i, ast.If) and i.orelse):
            return False
        return any(isinstance(c, ast.Call) and call_name(c) == "isinstance" and c.args and
                   dotted(c.args[0]) in ("self.dose", "self._dose") for c in ast.walk(i.test))

    switches = [i for i in walk_no_nested(f.node) if is_dose_switch(i)]
    ctx.require(len(switches) >= 1, "R-RATEPRODUCT: dose switch (isinstance(self.dose, ...)) not found")

    def is_dose(atom: str) -> bool:
        return atom.startswith(("self.dose", "self._dose"))

    for sw in switches:
        neg = isinstance(sw.test, ast.UnaryOp) and isinstance(sw.test.op, ast.Not)
        arms = (("scalar", sw.body), ("distribution", sw.orelse)) if neg else (("distribution", sw.body), ("scalar", sw.orelse))
        for arm_name, arm in arms:
            last = None
            for st in arm:
                if isinstance(st, (ast.If, ast.For, ast.While, ast.With, ast.Try)):
                    raise AnalysisError(f"R-RATEPRODUCT: compound statement inside the {arm_name}-dose arm")
                if isinstance(st, ast.Assign) and len(st.targets) == 1 and isinstance(st.targets[0], ast.Name) and \
                        st.targets[0].id in rate_slice.visited:
                    last = st
                elif isinstance(st, ast.AugAssign) and isinstance(st.target, ast.Name) and st.target.id in rate_slice.visited:
                    last = st
            ctx.require(last is not None, f"R-RATEPRODUCT: the {arm_name}-dose arm assigns nothing that reaches the rate")
            at = df.cfg.node_of(last).idx
            nz = _product_norm(df, at)
            if isinstance(last, ast.AugAssign):
                cur = Poly.atom(last.target.id)
                v = nz.norm(last.value)
                if isinstance(last.op, ast.Mult):
                    poly = cur * v
                elif isinstance(last.op, ast.Div):
                    poly = cur * v.inverse()
                else:
                    raise AnalysisError(f"R-RATEPRODUCT: augmented {type(last.op).__name__} in the {arm_name}-dose arm")
            else:
                poly = nz.norm(last.value)

            def is_signal(atom: str, _at=at) -> bool:
                if is_dose(atom):
                    return False
                try:
                    e = ast.parse(atom, mode="eval").body
                except SyntaxError:
                    return False
                sl = df.backward_slice(_at, e)
                return block_param in sl.params and not any(
                    v in ("self.dose", "self._dose") for v in sl.external | sl.visited)

            if arm_name == "distribution":
                _dose_axes(ctx, f, df, last, at, is_dose)
            why = _two_factor_product(poly, is_signal, is_dose)
            ctx.check(why is None, "R-RATEPRODUCT", f"{f.qualname}:rate {arm_name}", f.loc(last),
                      f"rate = {poly.key()[:70]}: signal x dose, both to the first power",
                      f"in the {arm_name}-dose arm the rate is not signal x dose: {why}; the expectation of the counts is "
                      "not dose times signal", key_detail=f"product-{arm_name}")

    pn = repo.method("abtem.measurements", "BaseMeasurements", "poisson_noise")
    ps = set(pn.positional_params)
    ctx.require({"dose_per_area", "total_dose"} <= ps, "poisson_noise: parameters dose_per_area / total_dose not found")
    dfp = DataFlow(pn.node)
    found = 0
    for st in walk_no_nested(pn.node):
        if not (isinstance(st, ast.Assign) and len(st.targets) == 1 and dotted(st.targets[0]) == "total_dose"):
            continue
        at = dfp.cfg.node_of(st).idx
        sl = dfp.backward_slice(at, st.value)
        if "dose_per_area" not in sl.params:
            continue  # the cast of total_dose itself
        poly = _product_norm(dfp, at).norm(st.value)
        if not any(a == "dose_per_area" for m in poly.terms for a, _ in m):
            continue  # a cast / copy of the total dose, not its derivation from the dose per area
        found += 1
        why = _two_factor_product(poly, lambda a: a.startswith("self._area_per_pixel") or a.startswith("self.area_per_pixel"),
                                  lambda a: a == "dose_per_area")
        ctx.check(why is None, "R-RATEPRODUCT", f"{pn.qualname}:dose from dose_per_area", pn.loc(st),
                  f"total_dose = {poly.key()[:60]}",
                  f"the dose per pixel derived from dose_per_area is not area-per-pixel x dose_per_area: {why}",
                  key_detail="area-product")
    ctx.require(found >= 1, "poisson_noise: no assignment deriving total_dose from dose_per_area")


# =============================================================================================
# ---- added after seeded change C31-r5seed2: the ORDER of the ensemble axes the block function prepends agrees with
# ---- the order of the axes the transform declares
_inner_run_c31_axisorder = run

_AX_SIZES = {"dose": 4, "sample": 3, "member": 2, "y": 5, "x": 7}
_AX_BASE = ("y", "x")


class _NoiseHooks:
    """Leaves of the layout interpretation of NoiseTransform for one configuration (dose series or scalar dose,
    several seeds or one).  The block is an array (member, y, x) with one ensemble axis of its own."""

    def __init__(self, repo, cls, dose_series: bool, several_seeds: bool):
        from ..rules import axislayout as L

        self.L, self.repo, self.cls = L, repo, cls
        self.leaf = {"dose": L.Obj(("dist", "dose")) if dose_series else L.Sc(_atom("dose")),
                     "seeds": L.Obj(("dist", "sample")) if several_seeds else L.Sc(_atom("seed"))}

    def _class(self, ident):
        try:
            return self.repo.find_class(ident)
        except AnalysisError:
            return None

    def name(self, ident, interp):
        c = self._class(ident)
        return self.L.Obj(("class", c.name)) if c is not None else NotImplemented

    def attr(self, base, attr, interp):
        L = self.L
        if not isinstance(base, L.Obj):
            return NotImplemented
        if base.tag == "self":
            g = self.cls.find_method(attr, "getter")
            if g is not None and g.is_property:
                r = interp.run(g.body, {g.positional_params[0]: base})
                return r[1] if r is not None and r[0] == "return" else NotImplemented
            if g is None and attr.lstrip("_") in self.leaf:
                return self.leaf[attr.lstrip("_")]
            return NotImplemented
        if base.tag == "block":
            if attr in ("_eager_array", "array"):
                return L.LA(("member",) + _AX_BASE, _atom("signal"))
            if attr == "ensemble_axes_metadata":
                return [L.Obj(("axis", "axis of the input", ("member",)))]
            if attr == "ensemble_shape":
                return (interp.sizes["member"],)
            if attr == "base_shape":
                return tuple(interp.sizes[a] for a in _AX_BASE)
            if attr == "shape":
                return (interp.sizes["member"],) + tuple(interp.sizes[a] for a in _AX_BASE)
            return NotImplemented
        if isinstance(base.tag, tuple) and base.tag[0] == "dist":
            lab = base.tag[1]
            if attr == "values":
                return L.LA((lab,), _atom(f"{lab} values"))
            if attr in ("shape", "ensemble_shape"):
                return (interp.sizes[lab],)
        return NotImplemented

    def call(self, fname, args, kwargs, node, interp):
        L = self.L
        short = fname.split(".")[-1]
        if short == "get_array_module":
            return L.MOD
        if short == "get_dtype":
            return L.OPAQUE
        if short == "isinstance" and len(args) == 2 and isinstance(args[1], L.Obj) and args[1].tag == (
                "class", "BaseDistribution"):
            if isinstance(args[0], L.Obj) and isinstance(args[0].tag, tuple) and args[0].tag[0] == "dist":
                return True
            if isinstance(args[0], (L.Sc, int, float)) or args[0] is None:
                return False
            return NotImplemented
        if short == "len" and len(args) == 1 and isinstance(args[0], L.Obj) and isinstance(args[0].tag, tuple) \
                and args[0].tag[0] == "dist":
            return interp.sizes[args[0].tag[1]]
        if short == "hasattr" and len(args) == 2 and isinstance(args[0], L.LA) and args[1] == "get":
            return False  # a numpy array; a cupy array takes the other arm to the same layout
        if isinstance(node.func, ast.Name):
            c = self._class(short)
            if c is not None and c.is_subclass_of("AxisMetadata"):
                labels = []
                for v in list(args) + list(kwargs.values()):
                    if isinstance(v, L.LA) and v.rank == 1 and v.axes[0] not in (L.ONE, L.COMP):
                        labels.append(v.axes[0])
                    elif isinstance(v, (tuple, list)) and len(v) in interp.sizes.values():
                        labels.append(interp.label_of_size(len(v)))
                return L.Obj(("axis", c.name, tuple(dict.fromkeys(labels))))
        return NotImplemented


def _atom(name):
    from ..terms import Poly

    return Poly.atom(name)


def _axis_order(ctx) -> None:
    from ..rules import axislayout as L
    from ..rules.absint import DomainError
    from ..rules.ensemblelayout import LazyLayoutInterp

    repo = ctx.repo
    cls = repo.cls(NOISE, "NoiseTransform")
    f = repo.method(NOISE, "NoiseTransform", "_calculate_new_array")
    ctx.require(len(f.positional_params) == 2, f"{f.qualname}: expected (self, block)")
    decl = cls.find_method("_out_ensemble_axes_metadata")
    ctx.require(decl is not None and len(decl.positional_params) == 2,
                "NoiseTransform._out_ensemble_axes_metadata(self, block) not found in the class hierarchy")

    configs = [(d, s) for d in (False, True) for s in (False, True)]
    produced: dict = {}
    declared: dict = {}
    for cfg in configs:
        it = LazyLayoutInterp(_NoiseHooks(repo, cls, *cfg), _AX_SIZES)
        try:
            r = it.run(f.body, {f.positional_params[0]: L.Obj("self"), f.positional_params[1]: L.Obj("block")})
        except DomainError as e:
            produced[cfg] = e
        else:
            got = r[1] if r is not None and r[0] == "return" else None
            if not isinstance(got, L.LA):
                raise AnalysisError(f"R-AXISORDER: {f.qualname} does not return a labelled array")
            if L.COMP in got.axes:
                # np.stack([x] * n): n identical copies along a new axis
                if len({it.canon(p) for p in got.val}) != 1:
                    raise AnalysisError(f"R-AXISORDER: {f.qualname} stacks different arrays")
                got = L.LA(tuple(it.label_of_size(len(got.val)) if a == L.COMP else a for a in got.axes), got.val[0])
            produced[cfg] = got.axes
        it = LazyLayoutInterp(_NoiseHooks(repo, cls, *cfg), _AX_SIZES)
        r = it.run(decl.body, {decl.positional_params[0]: L.Obj("self"), decl.positional_params[1]: L.Obj("block")})
        v = r[1] if r is not None and r[0] == "return" else None
        if isinstance(v, tuple) and len(v) == 1 and isinstance(v[0], (list, tuple)):
            v = v[0]
        if not isinstance(v, (list, tuple)) or not all(
                isinstance(e, L.Obj) and isinstance(e.tag, tuple) and e.tag[0] == "axis" for e in v):
            raise AnalysisError(f"R-AXISORDER: {decl.qualname} does not return a list of axis metadata")
        declared[cfg] = [e.tag for e in v]

    # which distribution a declared axis without labelled values belongs to (SampleAxis()): the one whose presence
    # alone makes the transform declare it
    owner: dict[str, set] = {}
    for cfg, lab in (((True, False), "dose"), ((False, True), "sample")):
        bare = [t for t in declared[cfg] if not t[2]]
        if len(bare) == 1:
            owner.setdefault(bare[0][1], set()).add(lab)

    def label(tag) -> str:
        labs = set(tag[2]) if tag[2] else owner.get(tag[1], set())
        if len(labs) != 1:
            raise AnalysisError(f"R-AXISORDER: cannot tell which quantity the declared axis {tag[1]} describes "
                                f"({sorted(labs) or 'no labelled values and no single owning distribution'})")
        return next(iter(labs))

    words = {True: ("a dose series", "several samples"), False: ("a scalar dose", "one seed")}
    for cfg in configs:
        what = f"{words[cfg[0]][0]} and {words[cfg[1]][1]}"
        cname = f"{f.qualname}:ensemble axes:{'series' if cfg[0] else 'scalar'} dose, {'several seeds' if cfg[1] else 'one seed'}"
        detail = f"axes-{'D' if cfg[0] else 'd'}{'S' if cfg[1] else 's'}"
        names = [t[1] for t in declared[cfg]]
        if isinstance(produced[cfg], DomainError):
            e = produced[cfg]
            ctx.violation("R-AXISORDER", cname, f.loc(e.node) if getattr(e, "node", None) is not None else f.where,
                          f"with {what} the block function cannot assemble its result: {e}", key_detail=detail)
            continue
        want = tuple(label(t) for t in declared[cfg]) + _AX_BASE
        got = produced[cfg]
        ctx.check(got == want, "R-AXISORDER", cname, f.where,
                  f"with {what} the returned array is laid out ({', '.join(got)}) as declared [{', '.join(names)}]",
                  f"with {what} the array returned by {f.name} is laid out ({', '.join(got)}) but "
                  f"{decl.qualname} declares the ensemble axes [{', '.join(names)}], i.e. ({', '.join(want)}): "
                  "the axes metadata of the noisy measurement label the wrong array axes (entries filed under one "
                  "dose hold counts drawn for another; for unequal lengths the shapes disagree)", key_detail=detail)


def run(ctx) -> None:  # noqa: F811
    ctx.rule("R-AXISORDER", "NoiseTransform._calculate_new_array is interpreted over labelled axes (which quantity "
             "gives an axis its length: the dose values, the number of seeds, an ensemble axis of the input, the "
             "base axes) for every combination of dose series / scalar dose and several seeds / one seed; the layout "
             "of the returned array must be the sequence of ensemble axes that _out_ensemble_axes_metadata declares "
             "for the same configuration (a declared axis is identified by the distribution its values come from, "
             "an axis without values by the distribution whose presence alone declares it), followed by the base "
             "axes.  Otherwise the counts found under `dose d, sample s` were drawn for another dose: their "
             "expectation is not dose x signal")
    from ..rules import deferred

    deferred.run(ctx, lambda: _axis_order(ctx), _inner_run_c31_axisorder)


# ---- added after the seeded change C31-r7seed4: the legal seed 0 is a seed
_inner_run_c31_r7 = run


def _optional_numbers(f) -> set:
    """parameters annotated as an optional number (int / float together with None / Optional)"""
    import ast as _ast

    out = set()
    a = f.node.args
    for x in a.posonlyargs + a.args + a.kwonlyargs:
        if x.annotation is None:
            continue
        ann = x.annotation
        if isinstance(ann, _ast.Constant) and isinstance(ann.value, str):
            try:
                ann = _ast.parse(ann.value, mode="eval").body
            except SyntaxError:
                continue
        names = {n.id for n in _ast.walk(ann) if isinstance(n, _ast.Name)} | {
            n.attr for n in _ast.walk(ann) if isinstance(n, _ast.Attribute)}
        has_none = "Optional" in names or any(isinstance(n, _ast.Constant) and n.value is None for n in _ast.walk(ann))
        if has_none and names & {"int", "float"}:
            out.add(x.arg)
    return out


def run(ctx) -> None:  # noqa: F811
    from ..rules import nonedefault

    ctx.rule("R-SEEDGIVEN", "in abtem/noise.py a parameter annotated as an optional number (int / float with None: seeds, "
             "samples) is never read as a truth value (`not seeds`, `seeds or ...`, `if samples:`): 0 is a legal seed, "
             "and treating it like \"no seed\" makes the generator draw fresh entropy on every application, so the noisy "
             "result for that fixed seed is not reproducible.  The parameters are found from their annotations")
    n = 0
    for f in ctx.repo.all_functions():
        if f.module.name != "abtem.noise":
            continue
        names = _optional_numbers(f)
        if names:
            n += nonedefault.check(ctx, "R-SEEDGIVEN", f, names, "number")
    ctx.require(n >= 1, "R-SEEDGIVEN: no optional numeric parameter found in abtem/noise.py")
    _inner_run_c31_r7(ctx)
