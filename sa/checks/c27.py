"""C27 — structure factors respect crystal symmetry: the lattice-centering mask clause.

Decided here (abtem/bloch/utils.py get_reflection_condition, relative_positions_for_centering,
abtem/bloch/dynamical.py StructureFactor.__init__):

  R-RANK    symbolic shape domain: for every documented centering letter the function returns a rank-1
            boolean mask of length N for hkl of shape (N, 3).
  R-NAMING  parity domain: for every letter the mask, as a function of the parities of (h, k, l), is exactly
            the reflection condition of that centering (A: k+l even, B: h+l even, C: h+k even, I: h+k+l even,
            F: all even or all odd, P: everything).
            Both domains follow python-level lookup tables (plain_eval): the centering parameter rebound through
            str.lower()/upper(), local or module-level dict / tuple / set literals, membership tests, `table[key]`
            (a missing key is a run-time KeyError of that arm), `table.get(key)`, unpacking of a constant pair — so the
            letter -> Miller-index-columns table of a refactored function is compared with the centering translations.
  R-CENTERING-TABLE  the translations by which auto_detect_centering recognises letter X select the same
            reflections as the mask applied for X.
  R-APPLY   StructureFactor.__init__ applies the mask, computed from the same hkl grid and from the stored
            (auto-resolved) centering, whenever centering != 'p', and hands the masked grid to the base class;
            filter_reciprocal_space_vectors multiplies the mask into its result.
"""
from __future__ import annotations

import ast
from itertools import product

from ..cfg import DataFlow
from ..model import (AnalysisError, NotConstant, call_name, dotted, fold_constant, last_attr, module_constants, norm_text,
                     walk_no_nested)
from ..rules.absint import DomainError, NotConst, PathInterp, const_eval
from ..rules.shapes import NONE, SCALAR, UNKNOWN, Arr, Const, DictV, IntV, ShapeDomain, Tup, dim, shape_text
from ..rules.versioned import VersionedNormalizer

UTILS = "abtem.bloch.utils"
DYN = "abtem.bloch.dynamical"

# International Tables: centering translations (in units of 1/2) of the conventional cells
TRANSLATIONS = {
    "P": [],
    "A": [(0, 1, 1)],
    "B": [(1, 0, 1)],
    "C": [(1, 1, 0)],
    "I": [(1, 1, 1)],
    "F": [(0, 1, 1), (1, 0, 1), (1, 1, 0)],
}
CONDITION_TEXT = {"P": "all reflections", "A": "k+l even", "B": "h+l even", "C": "h+k even", "I": "h+k+l even",
                  "F": "h,k,l all even or all odd"}
PARITIES = list(product((0, 1), repeat=3))


def allowed_by(translations) -> frozenset:
    """Parity classes (h,k,l mod 2) with integer h.t for every translation t (given in half units)."""
    return frozenset(p for p in PARITIES if all(sum(a * b for a, b in zip(p, t)) % 2 == 0 for t in translations))


def cond_text(allowed: frozenset) -> str:
    for k, t in TRANSLATIONS.items():
        if allowed_by(t) == allowed:
            return CONDITION_TEXT[k]
    names = "hkl"
    for sub in ((0,), (1,), (2,)):
        if allowed == frozenset(p for p in PARITIES if p[sub[0]] == 0):
            return f"{names[sub[0]]} even"
    return "parity classes " + ",".join("".join("eo"[x] for x in p) for p in sorted(allowed))


# ---------------------------------------------------------------------- python-level constants (lookup tables)
class NotPlain(Exception):
    """The expression is not made of python constants only."""


class PlainLookupError(Exception):
    """A lookup in a constant table fails at run time (KeyError / IndexError)."""


_PLAIN_SCALARS = (str, int, float, complex, bool, type(None))
_STR_METHODS = ("lower", "upper", "strip", "casefold")


def is_plain(v) -> bool:
    """str / number / None and (nested) list, tuple, frozenset, dict of those.  Exact types only: the parity
    values PVec / PVal are subclasses of tuple / int and are NOT constants."""
    t = type(v)
    if t in _PLAIN_SCALARS:
        return True
    if t in (list, tuple, frozenset):
        return all(is_plain(x) for x in v)
    if t is dict:
        return all(is_plain(k) for k in v) and all(is_plain(x) for x in v.values())
    return False


def _freeze(v):
    if type(v) is set:
        return frozenset(_freeze(x) for x in v)
    if type(v) in (list, tuple):
        return type(v)(_freeze(x) for x in v)
    if type(v) is dict:
        return {k: _freeze(x) for k, x in v.items()}
    return v


def plain_env(env: dict) -> dict:
    return {k: v for k, v in env.items() if is_plain(v)}


def plain_eval(e: ast.AST, env: dict):
    """Python semantics of the constant sub-language used to select a branch through a lookup table: literals,
    names bound to constants, tuple/list/set/dict displays, dict(...)/tuple/list/set/frozenset/len, str.lower/upper/
    strip/casefold, dict.get/keys/values, subscripts of constant containers, ==, !=, in, not in, is (not) None,
    not/and/or, conditional expressions.  NotPlain when the expression leaves this sub-language; PlainLookupError when
    a lookup raises at run time."""
    if isinstance(e, ast.Constant):
        return e.value
    if isinstance(e, ast.Name):
        if e.id in env:
            return env[e.id]
        raise NotPlain(e.id)
    if isinstance(e, (ast.Tuple, ast.List, ast.Set)):
        if any(isinstance(x, ast.Starred) for x in e.elts):
            raise NotPlain("starred")
        items = [plain_eval(x, env) for x in e.elts]
        if isinstance(e, ast.Tuple):
            return tuple(items)
        if isinstance(e, ast.List):
            return items
        try:
            return frozenset(items)
        except TypeError:
            raise NotPlain("unhashable set element")
    if isinstance(e, ast.Dict):
        out = {}
        for k, v in zip(e.keys, e.values):
            if k is None:
                sub = plain_eval(v, env)
                if type(sub) is not dict:
                    raise NotPlain("** of a non-dict")
                out.update(sub)
                continue
            kk = plain_eval(k, env)
            try:
                out[kk] = plain_eval(v, env)
            except TypeError:
                raise NotPlain("unhashable key")
        return out
    if isinstance(e, ast.UnaryOp):
        v = plain_eval(e.operand, env)
        if isinstance(e.op, ast.Not):
            return not v
        if isinstance(e.op, ast.USub) and type(v) in (int, float):
            return -v
        raise NotPlain("unary")
    if isinstance(e, ast.BoolOp):
        v = None
        for x in e.values:
            v = plain_eval(x, env)
            if isinstance(e.op, ast.And) and not v:
                return v
            if isinstance(e.op, ast.Or) and v:
                return v
        return v
    if isinstance(e, ast.IfExp):
        return plain_eval(e.body if plain_eval(e.test, env) else e.orelse, env)
    if isinstance(e, ast.Compare):
        left = plain_eval(e.left, env)
        for op, c in zip(e.ops, e.comparators):
            right = plain_eval(c, env)
            try:
                if isinstance(op, ast.Eq):
                    r = left == right
                elif isinstance(op, ast.NotEq):
                    r = left != right
                elif isinstance(op, (ast.In, ast.NotIn)):
                    if type(right) not in (str, list, tuple, frozenset, dict):
                        raise NotPlain("membership in a non-container")
                    r = (left in right) != isinstance(op, ast.NotIn)
                elif isinstance(op, (ast.Is, ast.IsNot)):
                    if left is not None and right is not None:
                        raise NotPlain("identity of non-None constants")
                    r = (left is right) != isinstance(op, ast.IsNot)
                else:
                    raise NotPlain("compare")
            except TypeError:
                raise NotPlain("compare")
            if not r:
                return False
            left = right
        return True
    if isinstance(e, ast.Subscript):
        base = plain_eval(e.value, env)
        if isinstance(e.slice, ast.Slice):
            if type(base) not in (list, tuple, str):
                raise NotPlain("slice")
            parts = [plain_eval(x, env) if x is not None else None for x in (e.slice.lower, e.slice.upper, e.slice.step)]
            if not all(x is None or type(x) is int for x in parts):
                raise NotPlain("slice")
            return base[parts[0]:parts[1]:parts[2]]
        key = plain_eval(e.slice, env)
        if type(base) is dict:
            try:
                if key in base:
                    return base[key]
            except TypeError:
                raise NotPlain("unhashable key")
            raise PlainLookupError(f"`{norm_text(e)}` raises KeyError({key!r}): the table has the keys "
                                   f"{', '.join(repr(k) for k in base)}")
        if type(base) in (list, tuple, str) and type(key) is int:
            if -len(base) <= key < len(base):
                return base[key]
            raise PlainLookupError(f"`{norm_text(e)}` raises IndexError (index {key}, length {len(base)})")
        raise NotPlain("subscript")
    if isinstance(e, ast.Call):
        if any(isinstance(a, ast.Starred) for a in e.args) or any(k.arg is None for k in e.keywords):
            raise NotPlain("starred call")
        f = e.func
        if isinstance(f, ast.Name) and f.id not in env:
            args = [plain_eval(a, env) for a in e.args]
            if f.id == "dict" and len(args) <= 1:
                out = {}
                if args:
                    if type(args[0]) is dict:
                        out.update(args[0])
                    elif type(args[0]) in (list, tuple) and all(type(x) in (list, tuple) and len(x) == 2 for x in args[0]):
                        try:
                            out.update(dict(args[0]))
                        except TypeError:
                            raise NotPlain("unhashable key")
                    else:
                        raise NotPlain("dict(...)")
                for k in e.keywords:
                    out[k.arg] = plain_eval(k.value, env)
                return out
            if e.keywords or len(args) != 1:
                raise NotPlain(f.id)
            a = args[0]
            if f.id == "len" and type(a) in (str, list, tuple, frozenset, dict):
                return len(a)
            if f.id in ("tuple", "list") and type(a) in (list, tuple, dict):
                return (tuple if f.id == "tuple" else list)(a)
            if f.id in ("set", "frozenset") and type(a) in (list, tuple, frozenset, dict, str):
                try:
                    return frozenset(a)
                except TypeError:
                    raise NotPlain("unhashable set element")
            raise NotPlain(f.id)
        if isinstance(f, ast.Attribute) and not e.keywords:
            recv = plain_eval(f.value, env)
            args = [plain_eval(a, env) for a in e.args]
            if type(recv) is str and f.attr in _STR_METHODS and not args:
                return getattr(recv, f.attr)()
            if type(recv) is dict:
                try:
                    if f.attr == "get" and len(args) in (1, 2):
                        return recv.get(args[0], args[1] if len(args) == 2 else None)
                except TypeError:
                    raise NotPlain("unhashable key")
                if f.attr == "keys" and not args:
                    return tuple(recv)
                if f.attr == "values" and not args:
                    return tuple(recv.values())
            raise NotPlain(f.attr)
        raise NotPlain("call")
    raise NotPlain(type(e).__name__)


def _to_plain(v):
    """abstract shape value -> python constant (NotPlain when it is not one)"""
    if v is NONE:
        return None
    if isinstance(v, Const):
        return v.value
    if isinstance(v, Tup):
        items = [_to_plain(i) for i in v.items]
        return items if v.is_list else tuple(items)
    if isinstance(v, DictV):
        return {k: _to_plain(x) for k, x in v.items}
    raise NotPlain("abstract value")


def _from_plain(v):
    if v is None:
        return NONE
    if type(v) in (list, tuple, frozenset):
        return Tup(tuple(_from_plain(x) for x in v), type(v) is list)
    if type(v) is dict:
        return DictV(tuple((k, _from_plain(x)) for k, x in v.items()))
    return Const(v)


class MaskShapeDomain(ShapeDomain):
    """ShapeDomain that also follows python-level lookup tables: dict / set displays, membership and identity tests
    over constants, `table[key]` (a missing key is a run-time KeyError, i.e. a DomainError) and `table.get(key[, d])`."""

    def _penv(self, env: dict) -> dict:
        out = {}
        for k, v in env.items():
            try:
                out[k] = _to_plain(v)
            except NotPlain:
                pass
        return out

    def truth(self, test, env):
        try:
            r = plain_eval(test, self._penv(env))
        except NotPlain:
            return super().truth(test, env)
        except PlainLookupError as e:
            raise DomainError(str(e), test)
        return r if isinstance(r, bool) else super().truth(test, env)

    def eval(self, n, env):
        if isinstance(n, (ast.Dict, ast.Set, ast.Subscript, ast.Call, ast.IfExp, ast.Compare)):
            try:
                return _from_plain(plain_eval(n, self._penv(env)))
            except NotPlain:
                pass
            except PlainLookupError as e:
                raise DomainError(str(e), n)
        if isinstance(n, ast.Dict) and all(k is not None for k in n.keys):
            try:
                keys = [plain_eval(k, self._penv(env)) for k in n.keys]
            except (NotPlain, PlainLookupError):
                return UNKNOWN
            return DictV(tuple((k, self.eval(v, env)) for k, v in zip(keys, n.values)))
        if isinstance(n, ast.Subscript):
            base = self.eval(n.value, env)
            if isinstance(base, DictV):
                k = self.eval(n.slice, env)
                if not isinstance(k, Const):
                    return UNKNOWN
                for kk, v in base.items:
                    if kk == k.value:
                        return v
                raise DomainError(f"`{norm_text(n)}` raises KeyError({k.value!r})", n)
        if isinstance(n, ast.Call) and isinstance(n.func, ast.Attribute) and n.func.attr == "get" \
                and len(n.args) in (1, 2) and not n.keywords:
            base = self.eval(n.func.value, env)
            if isinstance(base, DictV):
                k = self.eval(n.args[0], env)
                if not isinstance(k, Const):
                    return UNKNOWN
                for kk, v in base.items:
                    if kk == k.value:
                        return v
                return self.eval(n.args[1], env) if len(n.args) == 2 else NONE
        return super().eval(n, env)


# ---------------------------------------------------------------------- parity domain
class PVec(tuple):
    """(N, k) integer array known modulo 2, column-wise"""


class BVec(tuple):
    """(N, k) boolean array, column-wise"""


class PVal(int):
    """(N,) integer array modulo 2"""


class PBool:
    def __init__(self, v):
        self.v = bool(v)


class NotRowWise(Exception):
    """The expression mixes different reflections (reduction over the reflection axis)."""


class ParityDomain:
    """Evaluates the mask for one parity class of (h, k, l).  Row-wise semantics: every array value is the
    value of one generic row.  Anything outside the modelled subset is an AnalysisError."""

    def truth(self, test, env):
        try:
            r = plain_eval(test, plain_env(env))
        except NotPlain:
            return None
        except PlainLookupError as e:
            raise DomainError(str(e), test)
        return r if isinstance(r, bool) else None

    def assign(self, target, value, env):
        if isinstance(target, ast.Name):
            env[target.id] = value
        elif isinstance(target, (ast.Tuple, ast.List)) and type(value) in (list, tuple) \
                and not any(isinstance(t, ast.Starred) for t in target.elts):
            # unpacking of a constant sequence (e.g. a pair of column numbers taken from a table)
            if len(value) != len(target.elts):
                raise DomainError(f"cannot unpack {len(value)} values into {len(target.elts)} targets", target)
            for t, v in zip(target.elts, value):
                self.assign(t, v, env)
        else:
            raise AnalysisError("parity domain: unsupported assignment target")

    def augassign(self, st, env):
        cur = self.eval(st.target, env)
        val = self.eval(st.value, env)
        if not isinstance(st.target, ast.Name):
            raise AnalysisError("parity domain: unsupported augmented assignment")
        env[st.target.id] = self._bin(st.op, cur, val, st)

    def _bad(self, n):
        raise AnalysisError(f"parity domain: cannot evaluate `{norm_text(n)}`")

    def eval(self, n, env):
        if isinstance(n, ast.Constant):
            return n.value
        if isinstance(n, ast.Name):
            if n.id in env:
                return env[n.id]
            self._bad(n)
        # python-level constants: lookup tables (dict / set displays), their subscripts, .get, membership tests
        try:
            return plain_eval(n, plain_env(env))
        except NotPlain:
            pass
        except PlainLookupError as e:
            raise DomainError(str(e), n)
        if isinstance(n, ast.List):
            return [self.eval(e, env) for e in n.elts]
        if isinstance(n, ast.Tuple):
            return tuple(self.eval(e, env) for e in n.elts)
        if isinstance(n, ast.UnaryOp):
            v = self.eval(n.operand, env)
            if isinstance(n.op, (ast.Invert, ast.Not)) and isinstance(v, PBool):
                return PBool(not v.v)
            if isinstance(n.op, ast.Invert) and isinstance(v, BVec):
                return BVec(not x for x in v)
            if isinstance(n.op, (ast.USub, ast.UAdd)) and isinstance(v, (PVec, PVal)):
                return v
            if isinstance(n.op, ast.USub) and isinstance(v, int):
                return -v
            self._bad(n)
        if isinstance(n, ast.BinOp):
            return self._bin(n.op, self.eval(n.left, env), self.eval(n.right, env), n)
        if isinstance(n, ast.Compare) and len(n.ops) == 1:
            a, b = self.eval(n.left, env), self.eval(n.comparators[0], env)
            op = n.ops[0]
            if isinstance(a, int) and not isinstance(a, (PVal, bool)) and isinstance(b, (PVec, PVal)):
                a, b = b, a
            if isinstance(b, int) and not isinstance(b, (PVal, bool)) and isinstance(op, (ast.Eq, ast.NotEq)):
                neg = isinstance(op, ast.NotEq)
                if isinstance(a, PVec):
                    return BVec(((x == b % 2) and b in (0, 1)) != neg for x in a)
                if isinstance(a, PVal):
                    return PBool(((int(a) == b % 2) and b in (0, 1)) != neg)
            if isinstance(a, PVal) and isinstance(b, PVal) and isinstance(op, (ast.Eq, ast.NotEq)):
                return PBool((int(a) == int(b)) != isinstance(op, ast.NotEq))
            self._bad(n)
        if isinstance(n, ast.Subscript):
            base = self.eval(n.value, env)
            if isinstance(base, (PVec, BVec)):
                cls = type(base)
                sl = n.slice
                if isinstance(sl, ast.Tuple) and len(sl.elts) == 2 and _full_slice(sl.elts[0]):
                    col = self.eval(sl.elts[1], env) if not isinstance(sl.elts[1], ast.Slice) else None
                    if type(col) in (list, tuple) and col and all(type(c) is int for c in col):
                        for c in col:
                            if not -len(base) <= c < len(base):
                                raise DomainError(f"`{norm_text(n)}`: index {c} is out of bounds for the axis of the "
                                                  f"{len(base)} Miller indices", n)
                        return cls(base[c] for c in col)
                    if isinstance(col, int) and not isinstance(col, bool):
                        return PVal(base[col]) if cls is PVec else PBool(base[col])
                    if isinstance(sl.elts[1], ast.Slice):
                        s = sl.elts[1]
                        lo = self.eval(s.lower, env) if s.lower else None
                        hi = self.eval(s.upper, env) if s.upper else None
                        st = self.eval(s.step, env) if s.step else None
                        return cls(tuple(base)[lo:hi:st])
                if isinstance(sl, ast.Tuple) and len(sl.elts) == 2 and isinstance(sl.elts[0], ast.Constant) \
                        and sl.elts[0].value is Ellipsis:
                    col = self.eval(sl.elts[1], env)
                    if isinstance(col, int):
                        return PVal(base[col]) if cls is PVec else PBool(base[col])
            self._bad(n)
        if isinstance(n, ast.Attribute):
            v = self.eval(n.value, env)
            if n.attr == "T" and isinstance(v, (PVal, PBool)):
                return v
            self._bad(n)
        if isinstance(n, ast.Call):
            return self._call(n, env)
        self._bad(n)

    def _bin(self, op, a, b, n):
        if isinstance(op, ast.Mod) and isinstance(b, int) and b == 2 and isinstance(a, (PVec, PVal)):
            return a
        if isinstance(a, PBool) and isinstance(b, PBool):
            if isinstance(op, (ast.Add, ast.BitOr)):
                return PBool(a.v or b.v)
            if isinstance(op, (ast.Mult, ast.BitAnd)):
                return PBool(a.v and b.v)
            if isinstance(op, ast.BitXor):
                return PBool(a.v != b.v)
        if isinstance(a, BVec) and isinstance(b, BVec) and len(a) == len(b):
            if isinstance(op, (ast.Add, ast.BitOr)):
                return BVec(x or y for x, y in zip(a, b))
            if isinstance(op, (ast.Mult, ast.BitAnd)):
                return BVec(x and y for x, y in zip(a, b))
        if isinstance(a, PVal) and isinstance(b, PVal) and isinstance(op, (ast.Add, ast.Sub)):
            return PVal((a + b) % 2)
        if isinstance(a, PVec) and isinstance(b, PVec) and len(a) == len(b) and isinstance(op, (ast.Add, ast.Sub)):
            return PVec((x + y) % 2 for x, y in zip(a, b))
        for x, y in ((a, b), (b, a)):
            if isinstance(x, (PVal, PVec)) and isinstance(y, int) and not isinstance(y, (PVal, bool)):
                if isinstance(op, (ast.Add, ast.Sub)):
                    return PVal((x + y) % 2) if isinstance(x, PVal) else PVec((v + y) % 2 for v in x)
                if isinstance(op, ast.Mult):
                    return PVal((x * y) % 2) if isinstance(x, PVal) else PVec((v * y) % 2 for v in x)
        self._bad(n)

    def _reduce(self, name, v, call, env):
        axis = None
        args = call.args[1:] if not isinstance(call.func, ast.Attribute) or self._is_np(call) else call.args
        if args:
            axis = self.eval(args[0], env)
        for k in call.keywords:
            if k.arg == "axis":
                axis = self.eval(k.value, env)
            elif k.arg not in ("keepdims",):
                self._bad(call)
        if isinstance(v, (PVec, BVec)):
            if axis in (None, 0, -2):
                raise NotRowWise(f"`{norm_text(call)}` reduces over the reflection axis")
            if axis not in (1, -1):
                self._bad(call)
            if name == "sum" and isinstance(v, PVec):
                return PVal(sum(v) % 2)
            if name == "all" and isinstance(v, BVec):
                return PBool(all(v))
            if name == "any" and isinstance(v, BVec):
                return PBool(any(v))
            self._bad(call)
        if isinstance(v, (PBool, PVal)):
            if axis in (1, -1) and name in ("all", "any"):
                # rank error at run time (reported by R-RANK); row-wise the value is unchanged
                return v if isinstance(v, PBool) else PBool(int(v) != 0)
        self._bad(call)

    @staticmethod
    def _is_np(call):
        f = call.func
        return isinstance(f, ast.Attribute) and (dotted(f.value) or "") in ("np", "xp", "numpy")

    def _call(self, call, env):
        name = last_attr(call)
        if call_name(call) == "len":
            return "N"
        if self._is_np(call):
            if name in ("ones", "zeros", "full") and call.args:
                kind = ""
                for k in call.keywords:
                    if k.arg == "dtype":
                        kind = (dotted(k.value) or "").split(".")[-1]
                if kind in ("bool", "bool_") and name in ("ones", "zeros"):
                    return PBool(name == "ones")
                self._bad(call)
            if name in ("sum", "all", "any") and call.args:
                return self._reduce(name, self.eval(call.args[0], env), call, env)
            if name in ("logical_or", "logical_and") and len(call.args) == 2:
                a, b = self.eval(call.args[0], env), self.eval(call.args[1], env)
                return self._bin(ast.BitOr() if name == "logical_or" else ast.BitAnd(), a, b, call)
            if name in ("asarray", "array", "abs") and call.args:
                return self.eval(call.args[0], env)
            self._bad(call)
        if isinstance(call.func, ast.Attribute):
            recv = self.eval(call.func.value, env)
            if isinstance(recv, str) and name in ("lower", "upper", "strip") and not call.args:
                return getattr(recv, name)()
            if name in ("sum", "all", "any"):
                return self._reduce(name, recv, call, env)
            if name == "astype":
                return recv
        self._bad(call)


class _PathOnly(ParityDomain):
    """Only decides which arm a letter selects; values that cannot be evaluated are ignored."""

    def eval(self, n, env):
        try:
            return super().eval(n, env)
        except (AnalysisError, NotRowWise):
            return None


def _full_slice(e) -> bool:
    return isinstance(e, ast.Slice) and e.lower is None and e.upper is None and e.step is None


# ---------------------------------------------------------------------- the check
def run(ctx) -> None:
    repo = ctx.repo
    ctx.rule("R-RANK", "for hkl of shape (N, 3) and every documented centering letter get_reflection_condition "
             "returns a rank-1 boolean mask of shape (N,) (symbolic shape domain; a reduction over a non-existent "
             "axis, a wrong rank or a non-boolean result is a violation)")
    ctx.rule("R-NAMING", "as a function of the parities of (h, k, l) the mask returned for letter X equals the "
             "reflection condition of centering X (A: k+l even, B: h+l even, C: h+k even, I: h+k+l even, F: unmixed, "
             "P: all); undocumented letters raise")
    ctx.rule("R-CENTERING-TABLE", "the lattice translations by which auto_detect_centering recognises letter X "
             "(relative_positions_for_centering) allow exactly the reflections the mask keeps for X")
    ctx.rule("R-APPLY", "StructureFactor.__init__ indexes the hkl grid with the mask computed from that same grid and "
             "from the stored, auto-resolved centering on every path with centering != 'p', and passes the masked "
             "grid to BaseStructureFactor.__init__; filter_reciprocal_space_vectors folds the mask into its result")
    ctx.undecided("Friedel symmetry F(-h) = conj(F(h)), realness and periodicity of the reconstructed potential and "
                  "invariance under lattice translations are numerical sums and are not decided")
    ctx.undecided("that make_hkl_grid enumerates every reflection with |g| <= g_max")

    grc = repo.function(UTILS, "get_reflection_condition")
    params = grc.positional_params
    ctx.require(len(params) == 2, "get_reflection_condition no longer takes (hkl, centering)")
    p_hkl, p_cent = params
    letters = ["P", "I", "F", "A", "B", "C"]
    tables = _module_tables(repo, grc)  # module-level constant lookup tables the function reads

    # ---------------- R-RANK
    N = dim("N")
    rank_bad: set[str] = set()
    for L in letters:
        dom = MaskShapeDomain()
        env0 = {k: _from_plain(v) for k, v in tables.items()}
        env0.update({p_hkl: Arr((N, dim(3))), p_cent: Const(L)})
        res = PathInterp(dom).run(grc.node.body, env0)
        ctx.require(len(res) == 1, f"get_reflection_condition: centering {L!r} does not select a single path")
        r = res[0]
        construct = f"{grc.qualname}:arm {L.lower()}"
        where = grc.loc(r.node) if r.node is not None else grc.where
        if r.kind == "error":
            rank_bad.add(L)
            ctx.violation("R-RANK", construct, where,
                          f"centering {L!r}: {r.message}; every call with this centering raises instead of "
                          "returning the mask", key_detail="rank")
        elif r.kind == "return":
            v = r.value
            if v is SCALAR or isinstance(v, (Const, IntV)):
                v = Arr((), "bool")
            if not isinstance(v, Arr):
                raise AnalysisError(f"get_reflection_condition arm {L}: shape of `{norm_text(r.node)}` not determined")
            good = v.rank == 1 and v.shape[0] == N and v.kind == "bool"
            if not good:
                rank_bad.add(L)
            ctx.check(good, "R-RANK", construct, where,
                      f"returns {v!r} for hkl (N, 3)",
                      f"centering {L!r} returns an array of shape {shape_text(v.shape)}"
                      f"{'' if v.kind == 'bool' else ' (not boolean)'} instead of a boolean mask of shape (N,)",
                      key_detail="rank")
        else:
            rank_bad.add(L)
            ctx.violation("R-RANK", construct, where,
                          f"documented centering {L!r} does not return a mask (path ends with {r.kind})", "rank")

    # ---------------- R-NAMING
    truth: dict[str, frozenset] = {}
    for L in letters:
        allowed = set()
        where = grc.where
        try:
            for p in PARITIES:
                res = PathInterp(ParityDomain()).run(grc.node.body, {**tables, p_hkl: PVec(p), p_cent: L})
                ctx.require(len(res) == 1, f"get_reflection_condition: centering {L!r} does not select a single path")
                r = res[0]
                if r.kind != "return":
                    if L not in rank_bad and r.kind == "error":
                        rank_bad.add(L)
                        ctx.violation("R-NAMING", f"{grc.qualname}:arm {L.lower()}", grc.loc(r.node) if r.node else where,
                                      f"centering {L!r}: {r.message}; every call with this centering raises instead of "
                                      "returning the mask", key_detail="naming")
                    elif L not in rank_bad:
                        raise AnalysisError(f"get_reflection_condition arm {L}: the shape domain returns a mask but the "
                                            f"parity domain ends with {r.kind}")
                    allowed = None
                    break
                where = grc.loc(r.node)
                if not isinstance(r.value, PBool):
                    raise AnalysisError(f"get_reflection_condition arm {L}: result is not a row-wise boolean")
                if r.value.v:
                    allowed.add(p)
        except NotRowWise as e:
            ctx.violation("R-NAMING", f"{grc.qualname}:arm {L.lower()}", where,
                          f"centering {L!r}: {e}; whether a reflection is kept then depends on the other reflections "
                          f"in the grid instead of on {CONDITION_TEXT[L]}", key_detail="naming")
            continue
        except AnalysisError as e:
            if L in rank_bad and L not in ("A", "B", "C"):
                ctx.info("R-NAMING", f"{grc.qualname}:arm {L.lower()}", where,
                         f"not evaluated row-wise ({e}); the arm already violates R-RANK")
                continue
            raise
        if allowed is None:
            continue  # reported by R-RANK
        truth[L] = frozenset(allowed)
        want = allowed_by(TRANSLATIONS[L])
        ctx.check(truth[L] == want, "R-NAMING", f"{grc.qualname}:arm {L.lower()}", where,
                  f"keeps exactly the reflections with {CONDITION_TEXT[L]}",
                  f"centering {L!r} keeps the reflections with {cond_text(truth[L])}; the {L}-centred lattice allows "
                  f"those with {CONDITION_TEXT[L]}", key_detail="naming")
    # case-insensitivity and rejection of unknown letters
    for L in [x.lower() for x in letters]:
        res = PathInterp(_PathOnly()).run(grc.node.body, {**tables, p_hkl: PVec((0, 0, 0)), p_cent: L})
        if len(res) == 1 and res[0].kind == "error" and L.upper() in rank_bad:
            ctx.info("R-NAMING", f"{grc.qualname}:letter {L!r}", grc.where, "the arm raises (reported above)")
            continue
        same = len(res) == 1 and res[0].kind == "return"
        ctx.check(same, "R-NAMING", f"{grc.qualname}:letter {L!r}", grc.where,
                  "lower-case letter selects an arm", f"lower-case centering {L!r} is rejected although "
                  "StructureFactor compares centering.lower()", key_detail="case")
    res = PathInterp(_PathOnly()).run(grc.node.body, {**tables, p_hkl: PVec((0, 0, 0)), p_cent: "auto"})
    # an unknown key looked up in a table without a membership test raises KeyError: the letter is rejected as well
    ctx.check(len(res) == 1 and res[0].kind in ("raise", "error"), "R-NAMING", f"{grc.qualname}:unknown letter", grc.where,
              "an unresolved / unknown centering raises", "an unknown centering (e.g. 'auto') silently returns a mask",
              key_detail="unknown")

    # ---------------- R-CENTERING-TABLE
    rp = repo.function(UTILS, "relative_positions_for_centering")
    rets = [n for n in walk_no_nested(rp.node) if isinstance(n, ast.Return)]
    ctx.require(len(rets) == 1 and isinstance(rets[0].value, ast.Dict),
                "relative_positions_for_centering no longer returns a literal table")
    table: dict[str, list] = {}
    for k, v in zip(rets[0].value.keys, rets[0].value.values):
        ctx.require(isinstance(k, ast.Constant) and isinstance(k.value, str), "centering table key is not a literal")
        lit = v.args[0] if isinstance(v, ast.Call) and last_attr(v) in ("array", "asarray") and v.args else v
        try:
            rows = fold_constant(lit)
        except NotConstant as e:
            raise AnalysisError(f"centering table entry {k.value!r} is not a literal ({e})")
        table[k.value] = [tuple(r) for r in rows]
    adc = repo.function(UTILS, "auto_detect_centering")
    uses = [c for c in walk_no_nested(adc.node) if isinstance(c, ast.Call) and call_name(c) == rp.name]
    ctx.require(len(uses) >= 1, "auto_detect_centering no longer reads relative_positions_for_centering")
    for L, rows in sorted(table.items()):
        half = []
        for r in rows:
            ctx.require(len(r) == 3 and all(x in (0, 0.0, 0.5) for x in r),
                        f"centering table {L}: translation {r} is not made of 0 and 1/2")
            t = tuple(int(round(2 * x)) for x in r)
            if any(t):
                half.append(t)
        by_table = allowed_by(half)
        ctx.require(L.upper() in TRANSLATIONS, f"centering table has an unknown letter {L!r}")
        if L.upper() not in truth:
            ctx.info("R-CENTERING-TABLE", f"{rp.qualname}:{L}", rp.where,
                     f"arm {L} has no decidable mask (see R-RANK); table allows {cond_text(by_table)}")
            # still compare against the mask the arm would compute row-wise
        mask = truth.get(L.upper())
        if mask is None:
            continue
        tr = ", ".join("(" + ",".join("½" if x else "0" for x in t) + ")" for t in half) or "none"
        ctx.check(mask == by_table, "R-CENTERING-TABLE", f"{rp.qualname}:{L}", rp.loc(rets[0]),
                  f"translations {tr} <=> {cond_text(mask)}",
                  f"auto_detect_centering reports {L!r} for a basis repeated by {tr}, whose allowed reflections are "
                  f"those with {cond_text(by_table)}, but get_reflection_condition({L!r}) keeps those with "
                  f"{cond_text(mask)}: allowed reflections are dropped and forbidden ones kept",
                  key_detail="table")
    for L in letters:
        ctx.require(L in table, f"centering table lost letter {L}")

    # ---------------- R-APPLY (StructureFactor.__init__)
    init = repo.method(DYN, "StructureFactor", "__init__")
    df = DataFlow(init.node)
    cfg = df.cfg
    calls = [c for c in walk_no_nested(init.node) if isinstance(c, ast.Call) and last_attr(c) == grc.name]
    if not calls:
        ctx.violation("R-APPLY", f"{init.qualname}:mask-applied", init.where,
                      "StructureFactor.__init__ never calls get_reflection_condition: reflections forbidden by the "
                      "centering stay in the hkl grid", key_detail="nocall")
        calls_ok = False
    else:
        calls_ok = True
        ctx.require(len(calls) == 1, f"StructureFactor.__init__: expected one call of {grc.name}, found {len(calls)}")
    if calls_ok:
        _apply_structure_factor(ctx, repo, init, df, cfg, calls[0], grc, params, p_hkl, p_cent)
    _apply_filter(ctx, repo, grc, params, p_hkl, p_cent)


_MUTATORS = ("update", "pop", "popitem", "setdefault", "clear", "append", "extend", "remove", "insert", "add", "discard",
             "sort", "reverse", "__setitem__", "__delitem__")


def _module_tables(repo, func) -> dict:
    """Module-level constants (lookup tables) the function reads: names loaded in the function that are neither
    parameters nor assigned in it and that the module binds exactly once to a foldable literal.  A table that is
    rebound or mutated anywhere in the module has no single value: AnalysisError."""
    mod = repo.module(UTILS)
    local = set(func.params)
    loaded = set()
    for n in ast.walk(func.node):
        if isinstance(n, ast.Name):
            (loaded if isinstance(n.ctx, ast.Load) else local).add(n.id)
    wanted = loaded - local
    consts = module_constants(mod)
    out = {}
    for name in sorted(wanted):
        if name not in consts:
            continue
        v = _freeze(consts[name])
        if not is_plain(v) or type(v) in _PLAIN_SCALARS and type(v) is not str:
            continue
        binds = 0
        for st in mod.tree.body:
            for t in ast.walk(st) if not isinstance(st, (ast.FunctionDef, ast.AsyncFunctionDef, ast.ClassDef)) else ():
                if isinstance(t, ast.Name) and t.id == name and isinstance(t.ctx, (ast.Store, ast.Del)):
                    binds += 1
        for n in ast.walk(mod.tree):
            if isinstance(n, (ast.Global, ast.Nonlocal)) and name in n.names:
                binds += 1
            if isinstance(n, (ast.Subscript, ast.Attribute)) and isinstance(n.ctx, (ast.Store, ast.Del)) \
                    and isinstance(n.value, ast.Name) and n.value.id == name:
                binds += 1
            if isinstance(n, ast.Call) and isinstance(n.func, ast.Attribute) and n.func.attr in _MUTATORS \
                    and isinstance(n.func.value, ast.Name) and n.func.value.id == name:
                binds += 1
            if isinstance(n, ast.AugAssign) and isinstance(n.target, ast.Name) and n.target.id == name:
                binds += 1
        if binds != 1:
            raise AnalysisError(f"{func.qualname}: the module-level table `{name}` is rebound or mutated in the module")
        out[name] = v
    return out


def _apply_structure_factor(ctx, repo, init, df, cfg, call, grc, params, p_hkl, p_cent) -> None:
    cstmt, guards = _enclosing(init.node, call)
    ctx.require(isinstance(cstmt, ast.Assign) and len(cstmt.targets) == 1 and isinstance(cstmt.targets[0], ast.Name),
                "StructureFactor.__init__: the mask call is not part of a plain assignment")
    stmt = cstmt
    if cstmt.value is call:
        # mask = get_reflection_condition(...); hkl = hkl[mask]
        mname = cstmt.targets[0].id
        users = []
        for s in walk_no_nested(init.node):
            if isinstance(s, ast.Assign) and isinstance(s.value, ast.Subscript) and isinstance(s.value.slice, ast.Name) \
                    and s.value.slice.id == mname:
                d = df.single_def(cfg.node_of(s).idx, mname)
                if d is not None and d.node == cfg.node_of(cstmt).idx:
                    users.append(s)
        ctx.require(len(users) == 1, "StructureFactor.__init__: cannot find where the mask is applied")
        stmt = users[0]
        _, guards = _enclosing(init.node, stmt.value)
        mask_expr_is_call = True
    else:
        mask_expr_is_call = isinstance(stmt.value, ast.Subscript) and stmt.value.slice is call
    ctx.require(len(stmt.targets) == 1 and isinstance(stmt.targets[0], ast.Name),
                "StructureFactor.__init__: the mask is not applied in a plain assignment")
    node = cfg.node_of(stmt).idx
    cnode = cfg.node_of(cstmt).idx
    b = {}
    for p, a in zip(params, call.args):
        b[p] = a
    for k in call.keywords:
        if k.arg:
            b[k.arg] = k.value
    ctx.require(set(b) == set(params), "StructureFactor.__init__: cannot bind the arguments of the mask call")
    # (a) hkl[mask(hkl, ...)] : same array
    val = stmt.value
    same_grid = (isinstance(val, ast.Subscript) and mask_expr_is_call and isinstance(val.value, ast.Name)
                 and isinstance(b[p_hkl], ast.Name) and val.value.id == b[p_hkl].id
                 and {d.node for d in df.reaching(node, val.value.id)} == {d.node for d in df.reaching(cnode, val.value.id)})
    ctx.check(same_grid, "R-APPLY", f"{init.qualname}:mask-indexes-own-grid", init.loc(stmt),
              f"`{norm_text(stmt)}`", f"`{norm_text(stmt)}` does not index the hkl grid with the mask computed from "
              "that same grid", key_detail="grid")
    # (b) centering passed == centering stored
    stores = [s for s in walk_no_nested(init.node) if isinstance(s, ast.Assign)
              and any(dotted(t) == "self._centering" for t in s.targets)]
    ctx.require(len(stores) == 1, "StructureFactor.__init__: expected one store to self._centering")
    store = stores[0]
    nz_call = VersionedNormalizer(df, cnode)
    nz_store = VersionedNormalizer(df, cfg.node_of(store).idx)
    t_call, t_store = nz_call.norm(b[p_cent]), nz_store.norm(store.value)
    ctx.check(t_call == t_store, "R-APPLY", f"{init.qualname}:mask-uses-stored-centering", init.loc(call),
              f"mask centering == stored centering ({_k(t_store)})",
              f"the mask is computed for `{norm_text(b[p_cent])}` ({_k(t_call)}) but the object stores centering "
              f"{_k(t_store)}", key_detail="centering")
    # (c) 'auto' is resolved before the centering is captured
    autos = []
    for n in walk_no_nested(init.node):
        if isinstance(n, ast.If):
            try:
                names = [x for x in ast.walk(n.test) if isinstance(x, ast.Name)]
                if len(names) == 1 and const_eval(n.test, {names[0].id: "auto"}) is True and \
                        const_eval(n.test, {names[0].id: "F"}) is False:
                    autos.append((n, names[0].id))
            except NotConst:
                pass
    ctx.require(len(autos) == 1, "StructureFactor.__init__: cannot find the resolution of centering == 'auto'")
    auto_if, auto_var = autos[0]
    resolved = [s for s in auto_if.body if isinstance(s, ast.Assign) and any(
        isinstance(t, ast.Name) and t.id == auto_var for t in s.targets) and isinstance(s.value, ast.Call)
        and last_attr(s.value) == "auto_detect_centering"]
    ctx.check(bool(resolved), "R-APPLY", f"{init.qualname}:auto-resolved", init.loc(auto_if),
              "'auto' is replaced by auto_detect_centering(atoms)",
              "centering == 'auto' is not replaced by the detected letter", key_detail="auto")
    capture = cfg.node_of(store).idx if dotted(b[p_cent]) == "self._centering" else cnode
    cap_expr = store.value if capture != cnode else b[p_cent]
    dom_ok = cfg.dominates(cfg.node_of(auto_if).idx, capture) and isinstance(cap_expr, ast.Name) \
        and cap_expr.id == auto_var
    ctx.check(dom_ok, "R-APPLY", f"{init.qualname}:auto-before-capture", init.loc(store),
              "the centering used for the mask is captured after 'auto' has been resolved",
              f"the centering used for the mask (`{norm_text(cap_expr)}`) is captured before / independently of the "
              "resolution of 'auto': get_reflection_condition('auto') raises", key_detail="auto-order")
    # (d) guard: executed whenever centering != 'p'
    cent_names = {dotted(b[p_cent]) or "", auto_var, "self._centering", "centering"}
    bad = []
    for g, arm in guards:
        for L in ("F", "I", "A", "B", "C", "f", "i", "a", "b", "c"):
            try:
                v = const_eval(g.test, {nm: L for nm in cent_names if nm})
            except NotConst:
                raise AnalysisError(f"StructureFactor.__init__: cannot evaluate the guard `{norm_text(g.test)}` of the "
                                    "mask statement")
            if bool(v) != arm:
                bad.append((g, L))
    ctx.check(not bad, "R-APPLY", f"{init.qualname}:mask-guard", init.loc(stmt),
              "the mask statement is reached for every centering other than P "
              f"({'; '.join(norm_text(g.test) for g, _ in guards) or 'unguarded'})",
              "the mask is skipped for centering " + ", ".join(sorted({L for _, L in bad})) +
              f" by the guard `{norm_text(bad[0][0].test) if bad else ''}`", key_detail="guard")
    # (e) masked grid reaches the base-class constructor
    supers = [c for c in walk_no_nested(init.node) if isinstance(c, ast.Call) and isinstance(c.func, ast.Attribute)
              and c.func.attr == "__init__" and isinstance(c.func.value, ast.Call)
              and call_name(c.func.value) == "super"]
    ctx.require(len(supers) == 1, "StructureFactor.__init__: expected one super().__init__ call")
    sc = supers[0]
    base_init = repo.method(DYN, "BaseStructureFactor", "__init__")
    sb = {}
    for p, a in zip(base_init.positional_params[1:], sc.args):
        sb[p] = a
    for k in sc.keywords:
        if k.arg:
            sb[k.arg] = k.value
    ctx.require("hkl" in sb, "super().__init__ is not given hkl")
    sstmt, _ = _enclosing(init.node, sc)
    snode = cfg.node_of(sstmt).idx
    reach = isinstance(sb["hkl"], ast.Name) and any(d.node == node for d in df.reaching(snode, sb["hkl"].id))
    ctx.check(reach, "R-APPLY", f"{init.qualname}:masked-grid-to-base", init.loc(sc),
              "the masked grid reaches BaseStructureFactor.__init__(hkl=...)",
              f"BaseStructureFactor.__init__ receives `{norm_text(sb['hkl'])}`, which is not the masked grid",
              key_detail="base")
    if "centering" in sb:
        t_sup = VersionedNormalizer(df, snode).norm(sb["centering"])
        ctx.check(t_sup == t_store, "R-APPLY", f"{init.qualname}:centering-to-base", init.loc(sc),
                  "base class receives the stored centering",
                  f"base class receives centering {_k(t_sup)} but the mask used {_k(t_store)}", key_detail="base-cent")



def _apply_filter(ctx, repo, grc, params, p_hkl, p_cent) -> None:
    frv = repo.function(UTILS, "filter_reciprocal_space_vectors")
    fdf = DataFlow(frv.node)
    fcalls = [c for c in walk_no_nested(frv.node) if isinstance(c, ast.Call) and last_attr(c) == grc.name]
    if not fcalls:
        ctx.violation("R-APPLY", f"{frv.qualname}:mask-in-result", frv.where,
                      "filter_reciprocal_space_vectors never applies the reflection condition of its `centering` "
                      "argument", key_detail="filter")
        return
    ctx.require(len(fcalls) == 1, "filter_reciprocal_space_vectors: expected one reflection-condition call")
    fc = fcalls[0]
    fstmt, fguards = _enclosing(frv.node, fc)
    fnode = fdf.cfg.node_of(fstmt).idx
    frets = [n for n in walk_no_nested(frv.node) if isinstance(n, ast.Return) and n.value is not None]
    ctx.require(len(frets) >= 1, "filter_reciprocal_space_vectors has no return")
    for r in frets:
        sl = fdf.backward_slice(fdf.cfg.node_of(r).idx, r.value)
        conj = isinstance(fstmt, ast.AugAssign) and isinstance(fstmt.op, (ast.Mult, ast.BitAnd)) or \
            isinstance(fstmt, ast.Assign)
        fb = {}
        for p, a in zip(params, fc.args):
            fb[p] = a
        for k in fc.keywords:
            if k.arg:
                fb[k.arg] = k.value
        direct = dotted(fb.get(p_hkl)) in frv.params and dotted(fb.get(p_cent)) in frv.params
        ctx.check(fnode in sl.def_nodes and conj and not fguards and direct, "R-APPLY",
                  f"{frv.qualname}:mask-in-result", frv.loc(fstmt),
                  f"`{norm_text(fstmt)}` feeds the returned mask unconditionally",
                  f"the returned mask does not (unconditionally, conjunctively) include "
                  f"`{norm_text(fc)}` of the function's own hkl / centering", key_detail="filter")


def _k(p) -> str:
    k = p.key()
    return k[2:] if k.startswith("1*") else k


def _enclosing(func: ast.FunctionDef, target: ast.AST):
    """Statement (direct child of a body) containing `target` and the list of enclosing
    (If node, arm taken: True for body / False for orelse)."""
    found = []

    def visit(body, guards):
        for st in body:
            if any(n is target for n in ast.walk(st)) and not isinstance(st, (ast.If, ast.For, ast.While, ast.With,
                                                                                ast.Try)):
                found.append((st, list(guards)))
                return
            if isinstance(st, ast.If):
                if any(n is target for n in ast.walk(st.test)):
                    found.append((st, list(guards)))
                    return
                visit(st.body, guards + [(st, True)])
                visit(st.orelse, guards + [(st, False)])
            elif isinstance(st, (ast.For, ast.While)):
                visit(st.body, guards)
                visit(st.orelse, guards)
            elif isinstance(st, ast.With):
                visit(st.body, guards)
            elif isinstance(st, ast.Try):
                visit(st.body, guards)
                for h in st.handlers:
                    visit(h.body, guards)
                visit(st.orelse, guards)
                visit(st.finalbody, guards)

    visit(func.body, [])
    if len(found) != 1:
        raise AnalysisError(f"{func.name}: cannot locate the statement containing `{norm_text(target)}`")
    return found[0]


# ---- added after the seeded change C27-seed8: the centering is the intersection over ALL species
_inner_run_c27 = run


def run(ctx) -> None:  # noqa: F811
    import ast as _ast

    from ..model import norm_text as _nt, walk_no_nested as _walk

    ctx.rule("R-ALLSPECIES", "auto_detect_centering intersects the candidate centerings over every atomic species: the "
             "species loop may be left early only when no candidate is left; stopping as soon as one candidate survives "
             "accepts a centering that a heavier species does not have, and the mask then removes allowed reflections")
    f = ctx.repo.function("abtem.bloch.utils", "auto_detect_centering")
    loops = [l for l in _walk(f.node) if isinstance(l, _ast.For) and "unique" in _nt(l.iter) and "numbers" in _nt(l.iter)]
    ctx.require(len(loops) == 1, "auto_detect_centering: loop over the species not found")
    loop = loops[0]
    exits = []

    def scan(body, guards):
        for st in body:
            if isinstance(st, (_ast.Break, _ast.Return)):
                exits.append((st, list(guards)))
            elif isinstance(st, _ast.If):
                scan(st.body, guards + [(st.test, True)])
                scan(st.orelse, guards + [(st.test, False)])
            elif isinstance(st, (_ast.With, _ast.Try)):
                scan(getattr(st, "body", []), guards)
            # nested loops: a break there leaves the inner loop only
            elif isinstance(st, (_ast.For, _ast.While)):
                for s2 in _ast.walk(st):
                    if isinstance(s2, _ast.Return):
                        exits.append((s2, list(guards)))

    scan(loop.body, [])
    empties = ("len(centerings_to_check)==0", "notcenterings_to_check", "len(centerings_to_check)<1",
               "centerings_to_check==set()")
    bad = []
    for st, guards in exits:
        ok = any(pol and _nt(t).replace(" ", "") in empties for t, pol in guards)
        if not ok:
            bad.append((st, guards))
    if not exits:
        ctx.ok("R-ALLSPECIES", f"{f.qualname}:species-loop", f.loc(loop), "every species is tested (no early exit)")
    for st, guards in bad:
        g = " and ".join(("" if pol else "not ") + _nt(t) for t, pol in guards) or "unconditionally"
        ctx.violation("R-ALLSPECIES", f"{f.qualname}:species-loop", f.loc(st),
                      f"the species loop is left early when `{g}`: the remaining species are never tested against the "
                      "surviving candidate centering", key_detail="early-exit")
    if exits and not bad:
        ctx.ok("R-ALLSPECIES", f"{f.qualname}:species-loop", f.loc(loop), "early exit only when no candidate is left")
    _inner_run_c27(ctx)


# ---- added after the seeded change C27-r3seed5: fractional coordinates in the structure-factor phase
_inner_run_c27b = run


def run(ctx) -> None:  # noqa: F811
    import ast as _ast

    from ..cfg import DataFlow as _DF
    from ..model import call_name as _cn, norm_text as _nt, walk_no_nested as _walk
    from ..rules import matalg

    ctx.rule("R-FRACTIONAL", "calculate_structure_factors builds its phase exp(-2πi · X) from X = r · cell⁻¹ · hklᵀ, the "
             "Miller indices times the *fractional* coordinates (matrix normal form of sa/rules/matalg.py: products, "
             "transposes, inverses, solve, inlined one-line helpers such as reciprocal_cell(c) = pinv(c)ᵀ).  Only then "
             "a lattice translation r → r + n·cell adds the integers n·hklᵀ to X and leaves F unchanged; "
             "r · (cell⁻¹)ᵀ agrees for symmetric cell matrices only")
    repo = ctx.repo
    f = repo.function("abtem.bloch.dynamical", "calculate_structure_factors")
    df = _DF(f.node)
    exps = [c for c in _walk(f.node) if isinstance(c, _ast.Call) and (_cn(c) or "").split(".")[-1] == "exp" and c.args]
    ctx.require(len(exps) == 1, f"{f.qualname}: expected one exp(...) phase")
    arg = exps[0].args[0]
    mats = [n for n in _ast.walk(arg) if (isinstance(n, _ast.BinOp) and isinstance(n.op, _ast.MatMult)) or (
        isinstance(n, _ast.Call) and (_cn(n) or "").split(".")[-1] in ("dot", "matmul"))]
    ctx.require(len(mats) >= 1, f"{f.qualname}: the phase contains no matrix product")
    st = next(s_ for s_ in _walk(f.node) if isinstance(s_, _ast.stmt) and any(x is exps[0] for x in _ast.walk(s_))
              and not isinstance(s_, (_ast.If, _ast.For, _ast.With, _ast.Try, _ast.FunctionDef)))
    at = df.cfg.node_of(st).idx
    mn = matalg.MatNorm(repo, f, df)
    got = mn.norm(mats[0], at)
    atoms_p = next((p for p in f.positional_params if p == "atoms"), None)
    hkl_p = next((p for p in f.positional_params if p == "hkl"), None)
    ctx.require(atoms_p is not None and hkl_p is not None, f"{f.qualname}: parameters `atoms` / `hkl` not found")
    want_a = [(f"{atoms_p}.positions", False, False), (f"{atoms_p}.cell", True, False), (hkl_p, False, True)]
    if len(got) == 2 and got[0][0].startswith(f"{atoms_p}.get_scaled_positions(") and got[0][1:] == (False, False) \
            and got[1] == want_a[2]:
        got = want_a  # ASE's own fractional coordinates
    ctx.check(got == want_a, "R-FRACTIONAL", f"{f.qualname}:phase", f.loc(mats[0]),
              f"phase matrix = {matalg.show(got)}",
              f"the phase matrix `{_nt(mats[0])[:50]}` normalises to {matalg.show(got)}, not {matalg.show(want_a)}: the "
              "coordinates are not the fractional ones, so F changes under a lattice translation and centring-forbidden "
              "reflections become non-zero for non-orthogonal cells", key_detail="fractional")
    _inner_run_c27b(ctx)


# ---- added after the mutation sweep: the phase of the structure factor is an integer multiple of 2*pi*i
_inner_run_c27c = run


def run(ctx) -> None:  # noqa: F811
    import ast as _ast
    from fractions import Fraction as _Fr

    from ..cfg import DataFlow as _DF
    from ..model import call_name as _cn, norm_text as _nt, walk_no_nested as _walk
    from ..terms import PI as _PI, Normalizer as _Nz, Poly as _Poly

    ctx.rule("R-PHASE2PI", "calculate_structure_factors evaluates exp(s · X) with X = (fractional coordinates)·hklᵀ; the "
             "scalar s collected from all scalar factors of the exponent (constants, pi, scalar temporaries; products, "
             "quotients and matrix products) is a non-zero integer multiple of 2·pi·i.  Only then the integers that a "
             "lattice translation adds to X change the phase by a multiple of 2·pi — F is invariant and the centring "
             "translations cancel the forbidden reflections — and only a purely imaginary s gives F(-h) = conj F(h)")
    from ..rules import deferred as _deferred

    def new():
        f = ctx.repo.function("abtem.bloch.dynamical", "calculate_structure_factors")
        df = _DF(f.node)
        exps = [c for c in _walk(f.node) if isinstance(c, _ast.Call) and (_cn(c) or "").split(".")[-1] == "exp" and c.args]
        ctx.require(len(exps) == 1, f"{f.qualname}: expected one exp(...) phase")
        st = next(s_ for s_ in _walk(f.node) if isinstance(s_, _ast.stmt) and any(x is exps[0] for x in _ast.walk(s_))
                  and not isinstance(s_, (_ast.If, _ast.For, _ast.With, _ast.Try, _ast.FunctionDef)))
        at0 = df.cfg.node_of(st).idx

        def scalar_expr(e) -> bool:
            if isinstance(e, _ast.Constant) and isinstance(e.value, (int, float, complex)) and not isinstance(e.value, bool):
                return True
            if isinstance(e, _ast.Attribute) and e.attr == "pi":
                return True
            if isinstance(e, _ast.UnaryOp) and isinstance(e.op, (_ast.USub, _ast.UAdd)):
                return scalar_expr(e.operand)
            if isinstance(e, _ast.BinOp) and isinstance(e.op, (_ast.Mult, _ast.Div, _ast.Add, _ast.Sub, _ast.Pow)):
                return scalar_expr(e.left) and scalar_expr(e.right)
            return False

        n_matrix = 0

        def scal(e, at, depth=0) -> _Poly:
            nonlocal n_matrix
            if depth > 20:
                raise AnalysisError(f"{f.qualname}: phase expression too deep")
            if scalar_expr(e):
                return _Nz().norm(e)
            if isinstance(e, _ast.UnaryOp) and isinstance(e.op, _ast.USub):
                return -scal(e.operand, at, depth + 1)
            if isinstance(e, _ast.BinOp) and isinstance(e.op, (_ast.Mult, _ast.MatMult)):
                return scal(e.left, at, depth + 1) * scal(e.right, at, depth + 1)
            if isinstance(e, _ast.BinOp) and isinstance(e.op, _ast.Div):
                return scal(e.left, at, depth + 1) * scal(e.right, at, depth + 1).inverse()
            if isinstance(e, _ast.Call) and (_cn(e) or "").split(".")[-1] in ("dot", "matmul") and len(e.args) == 2:
                return scal(e.args[0], at, depth + 1) * scal(e.args[1], at, depth + 1)
            if isinstance(e, _ast.Name):
                d = df.single_def(at, e.id)
                if d is not None and d.kind == "assign" and d.value is not None and scalar_expr(d.value):
                    return _Nz().norm(d.value)
                if d is not None and d.kind == "assign" and d.value is not None and isinstance(d.value, _ast.BinOp) and \
                        isinstance(d.value.op, (_ast.Mult, _ast.MatMult, _ast.Div)):
                    stt = df.cfg.nodes[d.node].ast
                    if isinstance(stt, _ast.Assign) and len(stt.targets) == 1 and isinstance(stt.targets[0], _ast.Name):
                        return scal(d.value, d.node, depth + 1)
            if isinstance(e, (_ast.BinOp,)) and isinstance(e.op, (_ast.Add, _ast.Sub)):
                raise AnalysisError(f"{f.qualname}: the phase `{_nt(e)[:50]}` is a sum, not a scalar times the coordinates")
            n_matrix += 1
            return _Poly.const(1)  # an array factor

        s = scal(exps[0].args[0], at0)
        ctx.require(n_matrix >= 1, f"{f.qualname}: the phase contains no array factor")
        ok = False
        shown = s.key()
        if s.is_monomial():
            (mono, coef), = s.terms.items()
            exps_ = dict(mono)
            ok = set(exps_) == {"𝑖", _PI} and exps_["𝑖"] == 1 and exps_[_PI] == 1 and coef.denominator == 1 and \
                coef != 0 and coef % 2 == 0
        ctx.check(ok, "R-PHASE2PI", f"{f.qualname}:phase scalar", f.loc(exps[0]),
                  f"exp({shown} · r·hkl): an integer multiple of 2·pi·i",
                  f"the phase is exp(({shown}) · r·hkl), and {shown} is not a non-zero integer multiple of 2·pi·i: adding a "
                  "lattice vector to every atom (an integer added to r·hkl) changes the structure factors, and "
                  "centring-forbidden reflections do not vanish", key_detail="phase")

    _deferred.run(ctx, new, _inner_run_c27c)


# ---- added after the seeded change C27-r6seed2: the contribution of an atom does not depend on the atoms before it
_inner_run_c27d = run


def run(ctx) -> None:  # noqa: F811
    from ..cfg import DataFlow as _DF
    from ..rules import deferred as _deferred, peratom as _peratom

    ctx.rule("R-PERATOM", "in every loop over the atoms / species of calculate_scattering_factors and "
             "calculate_structure_factors that fills or sums the per-atom factors (its body updates an array, list or "
             "number that is initialised before the loop and reaches the result), every quantity of the contribution "
             "is (re)defined in the same iteration on every path that reaches its use: no definition made in a "
             "previous iteration reaches a read through the back edge (loop-carried reaching definition), except into "
             "the update of the accumulator itself; values never assigned inside the loop are loop invariant.  A "
             "quantity rebound on some paths only (Debye-Waller factor, occupancy, scattering-factor lookup) keeps the "
             "value of the preceding atom otherwise: symmetry-equivalent atoms get different factors, the centring "
             "translations no longer cancel the forbidden reflections and F depends on the order of the atoms")

    def new():
        repo = ctx.repo
        found = 0
        for name in ("calculate_scattering_factors", "calculate_structure_factors"):
            f = repo.function(DYN, name)
            ctx.require("atoms" in f.params, f"{f.qualname}: parameter `atoms` not found")
            df = _DF(f.node)
            loops = _peratom.atom_loops(f, df, "atoms")
            for k, al in enumerate(loops):
                construct = f"{f.qualname}:per-atom loop" + (f" {k + 1}" if len(loops) > 1 else "")
                if not al.derived:
                    ctx.info("R-PERATOM", construct, f.loc(al.loop), "the loop does not run over the atoms "
                             f"(`{norm_text(al.loop.iter if isinstance(al.loop, ast.For) else al.loop.test)[:50]}`)")
                    continue
                found += 1
                v = _peratom.examine(f, df, al)
                if v.stale:
                    parts = []
                    for var, (dst, ust, guards) in v.stale.items():
                        when = "only after that read" if guards == ["unconditionally"] else \
                            "only when " + " / ".join(guards)
                        parts.append(f"`{var}` is read by `{_peratom._text(ust)[:60]}` on a path on which it was not "
                                     f"assigned in the same iteration: inside the loop it is assigned {when} "
                                     f"(`{norm_text(dst)[:60]}`)")
                    ctx.violation("R-PERATOM", construct, f.loc(next(iter(v.stale.values()))[0]),
                                  "; ".join(parts) + ": the value left by a preceding atom (in the first iteration the "
                                  "value from before the loop) enters the factor of this atom, so the result depends on "
                                  "the order of the atoms, symmetry-equivalent atoms get different factors and "
                                  "centring-forbidden reflections do not cancel", key_detail="carried")
                    continue
                if v.undecided:
                    raise AnalysisError(f"{f.qualname}: per-atom loop: " + "; ".join(v.undecided))
                ctx.ok("R-PERATOM", construct, f.loc(al.loop),
                       f"accumulates into {', '.join(al.accumulators)}; redefined in every iteration before every read: "
                       f"{', '.join(x for x in v.per_iteration if x not in al.accumulators) or 'nothing'}; "
                       + (f"memo tables keyed per iteration: {', '.join(v.tables)}; " if v.tables else "") +
                       "nothing else is carried across iterations")
        ctx.require(found >= 1, "calculate_scattering_factors / calculate_structure_factors: no loop over the atoms that "
                    "fills the per-atom factors was found (a vectorised formulation is not read by R-PERATOM)")

    _deferred.run(ctx, new, _inner_run_c27d)
