"""C13 — PolarMeasurements.integrate sums exactly the bins inside the requested limits.

The bins of axis j of a PolarMeasurements object cover [offset_j + i*sampling_j, offset_j + (i+1)*sampling_j)
with (offset_j, sampling_j) as published by `base_axes_metadata`.  A limit L on axis j therefore maps to
the bin index (L - offset_j) / sampling_j.  Two necessary conditions are decided on the terms (ring normal
form, single reaching definitions inlined, `int(...)` transparent):

R-AXISFAMILY  the index terms of the radial and of the azimuthal slice are the same term up to the
              renaming radial<->azimuthal (sibling alpha-equivalence);
R-AXISMETA    each index term equals (limit[k] - offset_j)/sampling_j built from the offset/sampling
              expressions that base_axes_metadata publishes for that array axis.
"""
from __future__ import annotations

import ast
import copy
import re

from ..cfg import DataFlow
from ..model import AnalysisError, call_name, dotted, kw, norm_text, walk_no_nested
from ..terms import FlowNormalizer, Normalizer, Poly

MOD = "abtem.measurements"
CLS = "PolarMeasurements"
FAMILIES = ("radial", "azimuthal")


def _swap_family(s: str) -> str:
    return re.sub(r"radial|azimuthal", lambda m: "azimuthal" if m.group(0) == "radial" else "radial", s)


def _rename(p: Poly) -> Poly:
    """Apply the renaming radial<->azimuthal to every atom of a term."""
    out = Poly()
    for mono, c in p.terms.items():
        t = Poly.const(c)
        for a, e in mono:
            t = t * Poly.atom(_swap_family(a)).power(e)
        out = out + t
    return out


def _limit_atom(param: str, k: int) -> Poly:
    """The term the normaliser produces for `param[k]` (built by the normaliser itself, not by text)."""
    return Normalizer().norm(ast.parse(f"{param}[{k}]", mode="eval").body)


def _axis_exprs(base_axes):
    """(offset expr, sampling expr) per base axis from the list returned by base_axes_metadata."""
    rets = [n for n in walk_no_nested(base_axes.node) if isinstance(n, ast.Return) and n.value is not None]
    if len(rets) != 1:
        raise AnalysisError(f"{base_axes.qualname}: expected a single return")
    val = rets[0].value
    df = DataFlow(base_axes.node)
    if isinstance(val, ast.Name):
        d = df.single_def(df.cfg.node_of(rets[0]).idx, val.id)
        if d is None or d.value is None:
            raise AnalysisError(f"{base_axes.qualname}: returned list is not a single definition")
        val = d.value
    if not isinstance(val, (ast.List, ast.Tuple)) or len(val.elts) != 2:
        raise AnalysisError(f"{base_axes.qualname}: does not return a two-element axis list")
    out = []
    for e in val.elts:
        if not isinstance(e, ast.Call) or kw(e, "offset") is None or kw(e, "sampling") is None:
            raise AnalysisError(f"{base_axes.qualname}: axis element {norm_text(e)[:40]} has no offset=/sampling=")
        out.append((kw(e, "offset"), kw(e, "sampling")))
    return out


def _slice_bounds(df: DataFlow, at: int, expr: ast.expr, f):
    """All definitions of a slice expression used at node `at`: list of (lo, hi, def node idx) with
    lo/hi None for slice(None)."""
    if isinstance(expr, ast.Name):
        out = []
        defs = df.reaching(at, expr.id)
        if not defs:
            raise AnalysisError(f"{f.qualname}: slice variable {expr.id} has no definition")
        for d in defs:
            if d.kind != "assign" or d.value is None:
                raise AnalysisError(f"{f.qualname}: slice variable {expr.id} defined by {d.kind}")
            out += _slice_bounds(df, d.node, d.value, f)
        return out
    if isinstance(expr, ast.Call) and call_name(expr) == "slice":
        a = expr.args
        if len(a) == 1 and isinstance(a[0], ast.Constant) and a[0].value is None:
            return [(None, None, at)]
        if len(a) == 2:
            return [(a[0], a[1], at)]
        raise AnalysisError(f"{f.qualname}: unsupported slice form {norm_text(expr)}")
    if isinstance(expr, ast.Slice):
        if expr.step is not None:
            raise AnalysisError(f"{f.qualname}: stepped slice")
        if expr.lower is None and expr.upper is None:
            return [(None, None, at)]
        if expr.lower is None or expr.upper is None:
            raise AnalysisError(f"{f.qualname}: half-open slice literal")
        return [(expr.lower, expr.upper, at)]
    if isinstance(expr, ast.Call) and f.cls is not None and (call_name(expr) or "").startswith("self."):
        # a helper method of the class that returns slice(a, b): inline it (depth 1), once per reaching
        # definition of each argument variable (the argument may be the parameter or a default substituted
        # under `if <param> is None`)
        helper = f.cls.find_method((call_name(expr) or "")[5:])
        if helper is not None:
            return _inline_slice_helper(df, at, expr, helper, f)
    raise AnalysisError(f"{f.qualname}: cannot interpret slice expression {norm_text(expr)[:50]}")


class _Subst(ast.NodeTransformer):
    def __init__(self, mapping):
        self.mapping = mapping

    def visit_Name(self, n):
        if isinstance(n.ctx, ast.Load) and n.id in self.mapping:
            return copy.deepcopy(self.mapping[n.id])
        return n

    def visit_Subscript(self, n):
        n = self.generic_visit(n)
        # (a, b)[k] -> element k
        if isinstance(n.value, (ast.Tuple, ast.List)) and isinstance(n.slice, ast.Constant) and \
                isinstance(n.slice.value, int) and -len(n.value.elts) <= n.slice.value < len(n.value.elts):
            return n.value.elts[n.slice.value]
        return n


def _inline_slice_helper(df: DataFlow, at: int, call: ast.Call, helper, f):
    from ..model import bind_args

    rets = [r for r in walk_no_nested(helper.node) if isinstance(r, ast.Return) and r.value is not None]
    if len(rets) != 1 or not (isinstance(rets[0].value, ast.Call) and call_name(rets[0].value) == "slice"
                              and len(rets[0].value.args) == 2):
        raise AnalysisError(f"{helper.qualname}: helper does not end in a single `return slice(a, b)`")
    hdf = DataFlow(helper.node)
    hat = hdf.cfg.node_of(rets[0]).idx

    def resolve(e, node, depth=0):
        """expression of the helper with its straight-line locals inlined"""
        if depth > 20:
            raise AnalysisError(f"{helper.qualname}: local definitions too deep")
        mapping = {}
        for n in ast.walk(e):
            if isinstance(n, ast.Name) and isinstance(n.ctx, ast.Load) and n.id not in mapping:
                defs = hdf.reaching(node, n.id)
                if defs and all(d.kind == "param" for d in defs):
                    continue
                if not defs:
                    continue  # global / builtin (int, slice, ...)
                d = hdf.single_def(node, n.id)
                if d is None or d.kind != "assign" or d.value is None:
                    raise AnalysisError(f"{helper.qualname}: local `{n.id}` is not a single straight-line definition")
                mapping[n.id] = resolve(d.value, d.node, depth + 1)
        return _Subst(mapping).visit(copy.deepcopy(e))

    lo_h, hi_h = (resolve(a, hat) for a in rets[0].value.args)
    is_static = "staticmethod" in helper.decorators
    bound = bind_args(call, helper, skip_self=not is_static)
    if not bound:
        raise AnalysisError(f"{f.qualname}: cannot bind the arguments of {norm_text(call)[:50]}")
    # alternatives for argument variables with several reaching definitions in the caller
    alts = [{}]
    for pname, arg in bound.items():
        choices = [arg]
        if isinstance(arg, ast.Name):
            defs = df.reaching(at, arg.id)
            if len(defs) > 1:
                choices = []
                for d in defs:
                    if d.kind == "param":
                        choices.append(arg)
                    elif d.kind == "assign" and d.value is not None:
                        choices.append(d.value)
                    else:
                        raise AnalysisError(f"{f.qualname}: `{arg.id}` defined by {d.kind}")
        alts = [dict(a, **{pname: c}) for a in alts for c in choices]
    out = []
    for a in alts:
        sub = _Subst(a)
        out.append((sub.visit(copy.deepcopy(lo_h)), sub.visit(copy.deepcopy(hi_h)), at))
    return out


def run(ctx) -> None:
    repo = ctx.repo
    ctx.rule("R-AXISFAMILY", "in PolarMeasurements.integrate the index terms of the radial slice and of the "
             "azimuthal slice are identical up to the renaming radial<->azimuthal (the two axes of one linear-axis "
             "family must be indexed by the same formula)")
    ctx.rule("R-AXISMETA", "the index of limit k on array axis j is (limit[k] - offset_j)/sampling_j with offset_j "
             "and sampling_j the expressions base_axes_metadata publishes for that axis; lower and upper index use "
             "the same limits parameter with subscripts 0 and 1; no limits -> the full slice")
    ctx.undecided("int() truncation of the float ratio at limits aligned with bin edges (floating-point off-by-one)")
    ctx.undecided("numerical equality of the integrated sums; the detector_regions arm")

    integ = repo.method(MOD, CLS, "integrate")
    base_axes = repo.method(MOD, CLS, "base_axes_metadata")
    axes = _axis_exprs(base_axes)
    params = set(integ.params)

    df = DataFlow(integ.node)
    # the reduction: <self.array>[..., S_-2, S_-1] (.sum over the two base axes)
    subs = []
    for n in walk_no_nested(integ.node):
        if isinstance(n, ast.Subscript) and dotted(n.value) == "self.array" and isinstance(n.slice, ast.Tuple) \
                and len(n.slice.elts) >= 2 and isinstance(n.slice.elts[0], ast.Constant) \
                and n.slice.elts[0].value is Ellipsis:
            subs.append(n)
    ctx.require(len(subs) == 1, f"{integ.qualname}: expected exactly one `self.array[..., r, a]` selection, "
                                f"found {len(subs)}")
    sub = subs[0]
    ctx.require(len(sub.slice.elts) == 3, f"{integ.qualname}: selection does not index exactly the two base axes")
    stmt = None
    for st in walk_no_nested(integ.node):
        if isinstance(st, ast.stmt) and not isinstance(st, (ast.If, ast.For, ast.While, ast.With, ast.Try,
                                                              ast.FunctionDef)) \
                and any(x is sub for x in ast.walk(st)):
            stmt = st
    ctx.require(stmt is not None, f"{integ.qualname}: selection statement not found")
    at = df.cfg.node_of(stmt).idx

    nz_meta = FlowNormalizer(DataFlow(base_axes.node), 0)
    index_terms: dict[str, dict[str, Poly]] = {}
    limit_param: dict[str, str] = {}
    for j, fam in enumerate(FAMILIES):
        sl = sub.slice.elts[1 + j]
        bounds = _slice_bounds(df, at, sl, integ)
        full, lim = [], []
        for lo_, hi_, node_ in bounds:
            if lo_ is None:
                full.append((lo_, hi_, node_))
                continue
            sl_ = df.backward_slice(node_, ast.Tuple(elts=[lo_, hi_], ctx=ast.Load()))
            (lim if (sl_.params - {"self"}) else full).append((lo_, hi_, node_))
        ctx.require(len(lim) >= 1, f"{integ.qualname}: no limited slice for base axis {j - 2}")
        ctx.require(len(full) >= 1, f"{integ.qualname}: no unlimited slice definition for base axis {j - 2}")
        for lo_, hi_, node_ in full:
            whole = lo_ is None
            if not whole:
                nzf = FlowNormalizer(df, node_, identity_calls={"int"})
                whole = nzf.norm(lo_).is_zero() and nzf.norm(hi_) == nzf.norm(
                    ast.parse(f"self.shape[{j - 2}]", mode="eval").body)
                # ... and exactly so: an upper index obtained by truncating a float quotient, int(x / s), can come
                # out one short of the number of bins
                inexact = [c for e_ in (lo_, hi_) for c in ast.walk(e_) if isinstance(c, ast.Call)
                           and call_name(c) == "int" and any(isinstance(b, ast.BinOp) and isinstance(b.op, ast.Div)
                                                              for b in ast.walk(c))]
                if whole and inexact and not nzf.norm(hi_).is_zero():
                    ctx.violation("R-AXISMETA", f"{integ.qualname}:{fam}-axis no-limits", integ.loc(sub),
                                  f"without {fam} limits the upper index is `{norm_text(hi_)[:80]}`: algebraically the "
                                  "number of bins, but computed by truncating a floating-point quotient, which yields "
                                  "n-1 for some geometries — the outermost bin is silently dropped",
                                  key_detail="full-inexact")
                    continue
            ctx.check(whole, "R-AXISMETA", f"{integ.qualname}:{fam}-axis no-limits", integ.loc(sub),
                      "without limits the whole axis is summed",
                      f"without {fam} limits base axis {j - 2} is sliced "
                      f"[{norm_text(lo_) if lo_ is not None else ''}:{norm_text(hi_) if hi_ is not None else ''}], "
                      "not over all bins: integrating without limits does not give the total", key_detail="full")
        ctx.require(len(lim) == 1, f"{integ.qualname}: several limited slices reach base axis {j - 2}")
        lo, hi, node = lim[0]
        terms = {}
        for which, e in (("lower", lo), ("upper", hi)):
            nz = FlowNormalizer(df, node, identity_calls={"int"})
            terms[which] = nz.norm(e)
        index_terms[fam] = terms
        # which parameter carries the limits: atoms of the form <param>[k]
        used = {}
        for which, p in terms.items():
            for a in p.atoms():
                m = re.fullmatch(r"1\*(\w+)\[(\d+)\]", a) or re.fullmatch(r"(\w+)\[(\d+)\]", a)
                if m and m.group(1) in params:
                    used.setdefault(which, set()).add((m.group(1), int(m.group(2))))
        ctx.require(all(len(used.get(w, ())) == 1 for w in ("lower", "upper")),
                    f"{integ.qualname}: cannot identify the limits parameter of base axis {j - 2} "
                    f"({ {w: sorted(v) for w, v in used.items()} })")
        (plo, klo), = used["lower"]
        (phi, khi), = used["upper"]
        limit_param[fam] = plo
        off, samp = axes[j]
        offp, sampp = nz_meta.norm(off), nz_meta.norm(samp)
        good = True
        why = []
        if plo != phi or (klo, khi) != (0, 1):
            good = False
            why.append(f"lower/upper index read {plo}[{klo}] and {phi}[{khi}] instead of one limits pair [0],[1]")
        for which, k in (("lower", 0), ("upper", 1)):
            expected = (_limit_atom(plo, k) - offp) * sampp.inverse()
            if terms[which] != expected:
                good = False
                why.append(f"{which} index is {terms[which].key()} but axis {j - 2} is published with "
                           f"offset={norm_text(off)}, sampling={norm_text(samp)}, i.e. index {expected.key()}")
        ctx.check(good, "R-AXISMETA", f"{integ.qualname}:{fam}-axis index", integ.loc(lo),
                  f"index = ({plo}[k] - {norm_text(off)}) / {norm_text(samp)} for k=0,1",
                  "; ".join(why), key_detail="index")

    ctx.check(limit_param["radial"] != limit_param["azimuthal"], "R-AXISMETA", f"{integ.qualname}:limit-parameters",
              integ.where, f"axes are limited by distinct parameters {limit_param}",
              f"both base axes are limited by the same parameter {limit_param['radial']}", key_detail="params")

    # sibling alpha-equivalence
    bad = []
    differing: set[str] = set()
    for which in ("lower", "upper"):
        r, a = index_terms["radial"][which], index_terms["azimuthal"][which]
        if _rename(r) != a:
            bad.append(f"{which}: radial {r.key()}  vs azimuthal {a.key()}")
            differing |= {x for x in (_rename(r) - a).atoms() if not re.search(r"\[\d+\]$", x)}
    # the key names the quantities on which the two arms disagree (stable under refactoring, distinct per defect)
    ctx.check(not bad, "R-AXISFAMILY", f"{integ.qualname}:radial~azimuthal", integ.loc(sub),
              "radial and azimuthal index terms are alpha-equivalent under radial<->azimuthal: "
              + index_terms["radial"]["lower"].key(),
              "the azimuthal index is not the radial formula with radial->azimuthal: " + " | ".join(bad),
              key_detail="alpha[" + ",".join(sorted(differing)) + "]")
    for which in ("lower", "upper"):
        for fam in FAMILIES:
            ctx.info("R-AXISFAMILY", f"{integ.qualname}:{fam} {which}", integ.where,
                     f"index term {index_terms[fam][which].key()} (int() truncation not decided)")

    # the selection is reduced over exactly the two base axes
    red = None
    for n in walk_no_nested(stmt):
        if isinstance(n, ast.Call) and isinstance(n.func, ast.Attribute) and n.func.attr == "sum" and n.func.value is sub:
            red = n
    if red is not None:
        ax = kw(red, "axis") or (red.args[0] if red.args else None)
        txt = norm_text(ax) if ax is not None else "None"
        ctx.check(txt in ("(-2, -1)", "(-1, -2)"), "R-AXISMETA", f"{integ.qualname}:reduction", integ.loc(red),
                  "selection summed over both base axes", f"the selection is summed over axis={txt}, not over both "
                  "base axes", key_detail="reduction")
    else:
        raise AnalysisError(f"{integ.qualname}: the selection is not reduced by .sum(...) directly")


# ---- added after the seeded change C13-seed5: step-by-step slicing must keep the earlier restriction
_inner_run_c13 = run


def run(ctx) -> None:  # noqa: F811
    import ast as _ast

    from ..model import dotted as _dotted, norm_text as _nt, walk_no_nested as _walk

    ctx.rule("R-STEPWISE", "when PolarMeasurements.integrate restricts the array step by step (one slicing per limits "
             "argument), every later step slices the working array produced by the earlier steps, not the full array "
             "again: otherwise giving radial and azimuthal limits together silently drops the radial restriction")
    f = ctx.repo.method("abtem.measurements", "PolarMeasurements", "integrate")
    steps = []

    def scan(body, guard):
        for st in body:
            if isinstance(st, _ast.If):
                g = _nt(st.test)
                scan(st.body, g if "limits" in g else guard)
                scan(st.orelse, guard)
            elif isinstance(st, _ast.Assign) and len(st.targets) == 1 and isinstance(st.targets[0], _ast.Name) \
                    and isinstance(st.value, _ast.Subscript) and guard is not None:
                steps.append((st, guard))

    scan(f.node.body, None)
    by_var: dict[str, list] = {}
    for st, g in steps:
        by_var.setdefault(st.targets[0].id, []).append((st, g))
    found = False
    for var, sts in by_var.items():
        guards = {g for _, g in sts}
        if len(sts) >= 2 and len(guards) >= 2:
            found = True
            sts = sorted(sts, key=lambda x: x[0].lineno)
            for k, (st, g) in enumerate(sts):
                base = st.value.value
                ok = (isinstance(base, _ast.Name) and base.id == var) or k == 0  # the first step may start afresh
                ctx.check(ok, "R-STEPWISE", f"{f.qualname}:{var} under `{g[:40]}`", f.loc(st),
                          f"step slices the working array `{var}`",
                          f"`{_nt(st)[:70]}` slices `{_nt(base)}` instead of the working array `{var}`: a restriction "
                          "applied by an earlier step is discarded when both limits are given", key_detail=g[:30])
    if not found:
        ctx.ok("R-STEPWISE", f"{f.qualname}:single-selection", f.where,
               "limits are applied in one selection (no step-by-step slicing)", nontrivial=False)
    _inner_run_c13(ctx)


# ---- added after the seeded change C13-r3seed5: limits are defaulted with `is None`
_inner_run_c13b = run


def run(ctx) -> None:  # noqa: F811
    from ..rules import nonedefault

    ctx.rule("R-NONEDEFAULT", nonedefault.__doc__.split("\n\n", 1)[1] + "  Applied to PolarMeasurements.integrate / "
             "integrate_radial / integrate_azimuthal and their helpers: a limit of exactly 0.0 (an edge at 0 rad of "
             "rotated bins, an upper limit 0) is a legal bound, not 'no limit'")
    k = ctx.repo.cls("abtem.measurements", "PolarMeasurements")
    n = 0
    NAMES = {"radial_limits", "azimuthal_limits", "limits", "inner", "outer", "limit", "lower", "upper"}
    for defs in k.methods.values():
        for f in defs:
            n += nonedefault.check(ctx, "R-NONEDEFAULT", f, NAMES, "integration limit")
    ctx.require(n >= 2, f"R-NONEDEFAULT examined only {n} methods of PolarMeasurements")
    _inner_run_c13b(ctx)



# ---- added after the mutation sweep (sweepF): the range check of an upper index
_inner_run_c13c = run


def run(ctx) -> None:  # noqa: F811
    import ast as _ast

    from ..cfg import DataFlow as _DF
    from ..model import norm_text as _nt, walk_no_nested as _walk
    from ..terms import FlowNormalizer as _FN

    ctx.rule("R-BOUNDCHECK", "where PolarMeasurements.integrate rejects limits by comparing a bin index with the number "
             "of bins, the index is compared with the length of its own axis (radial index with shape[-2], azimuthal "
             "index with shape[-1]) and only an index strictly greater than that length is rejected: an upper index "
             "equal to the number of bins is the slice end of the outermost bin, so the last piece of a partition of "
             "the range (and the full range itself) must be accepted")
    f = ctx.repo.method(MOD, CLS, "integrate")
    df = _DF(f.node)
    flip = {_ast.Lt: _ast.Gt, _ast.Gt: _ast.Lt, _ast.LtE: _ast.GtE, _ast.GtE: _ast.LtE}
    sym = {_ast.Lt: "<", _ast.Gt: ">", _ast.LtE: "<=", _ast.GtE: ">="}
    n = 0
    for st in _walk(f.node):
        if not (isinstance(st, _ast.If) and any(isinstance(x, _ast.Raise) for x in st.body) and not st.orelse):
            continue
        t = st.test
        if not (isinstance(t, _ast.Compare) and len(t.ops) == 1 and type(t.ops[0]) in flip):
            continue
        nz = _FN(df, df.cfg.node_of(st).idx, identity_calls={"int"})
        sides = [nz.norm(t.left), nz.norm(t.comparators[0])]
        shapes = {k: nz.norm(_ast.parse(f"self.shape[{k}]", mode="eval").body) for k in (-2, -1)}
        for i in (0, 1):
            axis = [k for k, p in shapes.items() if sides[i] == p]
            if not axis:
                continue
            idx = sides[1 - i]
            fams = {fam for fam in FAMILIES if any(fam in a for a in idx.atoms())}
            if len(fams) != 1:
                continue
            fam = fams.pop()
            own = -2 + FAMILIES.index(fam)
            op = type(t.ops[0]) if i == 1 else flip[type(t.ops[0])]  # orientation: index OP length
            n += 1
            ctx.check(axis[0] == own, "R-BOUNDCHECK", f"{f.qualname}:{fam} index range:axis", f.loc(t),
                      f"the {fam} index is checked against shape[{own}]",
                      f"the {fam} index {idx.key()[:70]} is checked against shape[{axis[0]}], the number of bins of the "
                      f"other axis: legal {fam} limits are rejected (or illegal ones accepted) whenever the two bin "
                      "counts differ", key_detail="axis")
            ctx.check(op is _ast.Gt, "R-BOUNDCHECK", f"{f.qualname}:{fam} index range:strict", f.loc(t),
                      "rejected only if index > number of bins",
                      f"limits are rejected when index {sym[op]} number of bins: "
                      + ("an upper limit at the outer edge of the last bin (index == number of bins) is refused, so the "
                         "outermost piece of a partition cannot be integrated" if op is _ast.GtE else
                         "every limit inside the range is refused"), key_detail="strict")
    if n == 0:
        ctx.ok("R-BOUNDCHECK", f"{f.qualname}:no-range-check", f.where, "no index/length range check in integrate",
               nontrivial=False)
    _inner_run_c13c(ctx)
